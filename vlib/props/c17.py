"""C17 — is_closed() sound and monotone (suite `pipe`, synchronous subscription algebra; suite `time`;
suite `composite`: histories of append / unsubscribe / is_closed on the composite subscription types)."""
import random

from .. import pipegen as pg
from ..case import Case
from ..runner import Prop
from .c01 import gen_cases, kinds
from .. import timegen as tg
from .. import compgen as cg

# Which Lean transcription of `MultiSubscription::append` the driver runs in suite `composite`:
# "code" = /repo as it is (a handle appended to an unsubscribed composite is dropped alive),
# "fixed" = the repaired append (unsubscribes it at once).  Flip after the fix commit of finding 7.
MODEL = "fixed"


class C17(Prop):
    pid = "C17"
    lean_module = "RxModel.Props.C17"
    extra_modules = ("RxModel.Props.C17S", "RxModel.Props.C17C")
    design_ref = "DESIGN.md §6 C17"
    rule = ("the C01 case population with `q closed` sampled after every event (and `unsub` injected in a third "
            "of the cases). Compared: the closed answers and the kinds of what is delivered. Oracle on the "
            "implementation alone: after an answer closed=1 nothing is delivered, later answers stay 1, and "
            "after unsub the answer is 1. non-trivial = both answers 0 and 1 occur, or something delivered. "
            "Suite `composite`: every history of <= 5 (thorough: 6) operations over {append l0, append l1, "
            "unsubscribe m0, unsubscribe l0, is_closed m0, emit} on one real MultiSubscription(Threads), every "
            "sequence of <= 3 (thorough: 4) state-changing operations over two composites, a zip, a guard, clones "
            "and task handles with all observations after each, and random histories of 7-26 operations; both "
            "flavours. Compared line by line with the Lean model (RxModel/Sub/Composite.lean). Oracle on the "
            "implementation alone: (a) after is_closed()=1 no leaf/task reachable through the handle at that "
            "moment receives/runs, (b) answers are monotone, (c) after unsubscribe() every child appended before "
            "is dead and every clone answers closed, (d) whatever is appended to an unsubscribed composite is "
            "dead at once.")
    assumptions = ["subscription types reached in suite pipe: (), Subscriber, ZipSubscription, BoxSubscription "
                   "(+Threads); suite composite: MultiSubscription(Threads), ZipSubscription, BoxSubscription(Threads), "
                   "SubscriptionGuard, Subscriber(Threads), TaskHandle<NormalReturn>; RefCount / Finalizer come with "
                   "their own suites; the blanket impl on Rc/Arc<Option<S>> is not exercised",
                   "composite structures are acyclic (is_closed on a composite that contains itself does not "
                   "terminate in the real code)"]
    modelled_not_verified = "all Rust code"

    # translator tie: the subscription algebra of src/subscription.rs (compiler-expanded, translated): zip, multi (both
    # flavours), guard drop, the blanket impl for cells — closed forms that are the clauses of Sub/Composite.lean;
    # Subscriber (the slot as a subscription) from src/subscriber.rs
    tie_modules = {
        # critical sections read off the source (rs2lean/src/holds.rs): which calls are made while which shared cell is held — the policies (P2: the composite tears its children down with its cell released; P6: the handle section)
        "RxModel.GenTie.Holds": [],
        "RxModel.GenTie.Subscription": [],
        "RxModel.GenTie.PinsCore": [],
        "RxModel.GenTie.Subscriber": [],
        "RxModel.GenTie.SubscriberThreads": [],
        # merge_all: every started inner observable is appended to THE composite the operator returned
        "RxModel.GenTie.MergeAll": [], "RxModel.GenTie.MergeAllThreads": [],
    }

    def cases(self, tier, seed):
        rng = random.Random(seed + 17)
        base = gen_cases(rng, tier, pg.single_variants(3), 8000 if tier == "quick" else 80000)
        out = []
        for c in base:
            d = c.copy()
            evs = []
            cut = rng.randint(1, len(c.events)) if rng.random() < 0.33 else None
            for k, e in enumerate(c.events):
                if cut == k:
                    evs += [["unsub"], ["q", "closed"]]
                evs += [e, ["q", "closed"]]
            d.events = evs
            out.append(d)
        # scheduler-using operators: MultiSubscription / TaskHandle / handler-cell subscriptions
        n = 5000 if tier == "quick" else 50000
        for i in range(n):
            src = tg.sources(rng, ["hot", "hot", "interval", "timer", "iter", "create"])
            pipe = tg.chain(rng, src, list(tg.TIME_OPS), rng.randint(1, 3), p_sync=0.25)
            mode = "mixed" if i % 2 else "fifo"
            base = tg.events(rng, tg.hist_len(rng, 2, 10), hot=(src[0] == "hot"), mode=mode, unsub_p=0.05,
                             term_p=0.3)
            evs = []
            for e in base:
                evs += [e, ["q", "closed"]]
            fl = rng.choice(["local", "threads"])
            # thread-safe form: with the lock trace (hook H2) — `is_closed()` / `unsubscribe()` of a task handle can
            # only speak for a running task if the task body runs inside the section of the handle's mutex
            fields = ([("locktrace", ["1"])] if fl == "threads" else []) + [("pipe", [pipe])]
            out.append(Case("time", fl, fields, evs, {"kind": "time-" + mode}))
        # is_closed() asked from ANOTHER OS thread while the probe is inside a delivery (event `rq <event>`, see C19): the
        # query waits for the cell the delivering thread holds, or sees the state before — never `closed` for a
        # subscription that delivers afterwards (seed C17-11: the subscriber's cell was emptied for the duration of the call)
        for pipe in (["hot", "0"], ["map", "add1", ["hot", "0"]], ["filter", "true", ["hot", "0"]],
                     ["merge", ["hot", "0"], ["hot", "1"]], ["take", "5", ["hot", "0"]], ["scan", "add", "0", ["hot", "0"]],
                     ["delay", "0", ["hot", "0"]], ["observeon", ["hot", "0"]]):
            timed = pipe[0] in ("delay", "observeon")
            for pre in ([], [["emit", "0", ["n", "1"]]]):
                for post in ([["emit", "0", ["n", "3"]]], [["emit", "0", ["n", "3"]], ["unsub"], ["emit", "0", ["n", "4"]]],
                             [["emit", "0", "c"]]):
                    racer = [["rq", "emit", "0", ["n", "2"]]] if not timed else \
                        [["emit", "0", ["n", "2"]], ["rq", "run"]]
                    run = [["run"]] if timed else []
                    evs = [["sub"]] + pre + run + racer + [["q", "closed"]] + post + run + [["q", "closed"]]
                    out.append(Case("time", "threads", [("pipe", [pipe])], evs, {"kind": "race-closed"}))
        # composite subscriptions on their own: append / unsubscribe / is_closed histories
        out += cg.cases(random.Random(seed + 1717), tier, MODEL)
        # the composite merge_all hands out (one entry per started inner observable): is_closed() of the merged
        # subscription sampled after every event of the flatten population (harness field `qclosed`; the model lines are
        # compared under the kinds projection, the answer is judged by the oracle) — seed C17-10 moved the composite into
        # the first queued start-closure, every later inner landed in an orphan
        import importlib
        try:
            c05 = importlib.import_module("vlib.props.c05").PROP
            cs = [c for c in c05.cases("quick", seed) if c.suite == "flatten" and not c05.compare_from(c)]
            rngF = random.Random(seed + 1718)
            rngF.shuffle(cs)
            for c in cs[: 4000 if tier == "quick" else 20000]:
                d = c.copy()
                d.fields = [("qclosed", ["1"])] + list(d.fields)
                d.meta = {"kind": "flatten-closed"}
                out.append(d)
        except Exception as ex:            # pragma: no cover
            print(f"note: C17 skips the flatten population: {ex}")
        return out

    def corpus(self):
        cs = super().corpus()
        for c in cs:
            if c.suite == "composite":      # the corpus follows the MODEL switch
                if c.field("model") is None:
                    c.fields.append(("model", [MODEL]))
                else:
                    c.set_field("model", [MODEL])
        return cs

    def project(self, body):
        return kinds(tg.parse_head(body)) if body.startswith("o=") else body

    def oracle(self, case, lines, model_lines=None):
        if case.suite == "composite":
            return cg.oracle(case, lines)
        if case.suite == "flatten":
            closed = None
            for k, e in enumerate(case.events):
                b = lines.get(k)
                if b is None or not b.startswith("o="):
                    continue        # (PANIC / RELOCK of a limit the C05 oracle excludes: not this property's business)
                outs, kv = tg.parse_suffix(b)
                if closed is not None and outs:
                    return {"kind": "delivery-after-closed", "event": k,
                            "detail": f"is_closed() answered true after event {closed}; later: {b}"}
                v = kv.get("closed")
                if closed is not None and v == 0:
                    return {"kind": "closed-not-monotone", "event": k, "detail": b}
                if e[0] == "unsub" and v == 0:
                    return {"kind": "open-after-unsubscribe", "event": k, "detail": b}
                if v == 1 and closed is None:
                    closed = k
            return None
        from .c19 import handle_section_failure
        f = handle_section_failure(case, lines)
        if f:
            return f
        closed = False
        unsubbed = False
        for k, e in enumerate(case.events):
            b = lines.get(k)
            if b is None:
                continue
            if b == "PANIC":
                return {"kind": "panic", "event": k, "detail": "implementation panicked"}
            if " rclosed=1" in b and not unsubbed:
                # another thread was told `closed` in the middle of this event
                closed = True
                continue
            if e[0] == "unsub":
                unsubbed = True
            if b.startswith("closed="):
                v = b.endswith("1")
                if closed and not v:
                    return {"kind": "closed-not-monotone", "event": k, "detail": b}
                if unsubbed and not v:
                    return {"kind": "open-after-unsubscribe", "event": k, "detail": b}
                closed = closed or v
            elif b.startswith("o=") and not (b == "o=" or b.startswith("o= ")) and closed:
                return {"kind": "delivery-after-closed", "event": k, "detail": b}
        return None

    def nontrivial(self, case, lines):
        if case.suite == "composite":
            return cg.nontrivial(case, lines)
        vals = set(lines.values())
        return ("closed=0" in vals and "closed=1" in vals) or any(
            b.startswith("o=") and not (b == "o=" or b.startswith("o= ")) for b in vals)

    def shrink_candidates(self, case):
        if case.suite == "composite":
            return cg.shrink_candidates(case)
        if case.suite == "flatten":
            import importlib
            return importlib.import_module("vlib.props.c05").PROP.shrink_candidates(case)
        return tg.time_shrink(case) if case.suite == "time" else super().shrink_candidates(case)

    def signature(self, case, failure):
        if case.suite == "composite":
            return f"{failure['kind']}|composite"
        if case.suite == "flatten":
            return f"{failure['kind']}|flatten"
        if case.suite != "time":
            return super().signature(case, failure)
        node, hs = case.field("pipe")[0], []
        while isinstance(node, list) and node:
            hs.append(node[0])
            node = node[-1] if isinstance(node[-1], list) and node[0] not in ("iter", "create") else None
        ops = sorted(set(h for h in hs if h in tg.TIME_OPS))
        return f"{failure['kind']}|time|{','.join(ops)}"


PROP = C17()
