"""C17 — is_closed() sound and monotone (suite `pipe`, synchronous subscription algebra)."""
import random

from .. import pipegen as pg
from ..case import Case
from ..runner import Prop
from .c01 import gen_cases, kinds
from .. import timegen as tg


class C17(Prop):
    pid = "C17"
    lean_module = "RxModel.Props.C17"
    design_ref = "DESIGN.md §6 C17"
    rule = ("the C01 case population with `q closed` sampled after every event (and `unsub` injected in a third "
            "of the cases). Compared: the closed answers and the kinds of what is delivered. Oracle on the "
            "implementation alone: after an answer closed=1 nothing is delivered, later answers stay 1, and "
            "after unsub the answer is 1. non-trivial = both answers 0 and 1 occur, or something delivered.")
    assumptions = ["subscription types reached here: (), Subscriber, ZipSubscription, BoxSubscription (+Threads); "
                   "MultiSubscription / TaskHandle / RefCount / Finalizer come with their own suites"]
    modelled_not_verified = "all Rust code"

    def cases(self, tier, seed):
        rng = random.Random(seed + 17)
        base = gen_cases(rng, tier, pg.single_variants(3), 8000 if tier == "quick" else 80000)
        out = []
        for c in base:
            d = c.copy()
            evs = []
            cut = rng.randint(1, len(c.events)) if rng.random() < 0.33 else None
            for k, e in enumerate(c.events):
                if cut == k:
                    evs += [["unsub"], ["q", "closed"]]
                evs += [e, ["q", "closed"]]
            d.events = evs
            out.append(d)
        # scheduler-using operators: MultiSubscription / TaskHandle / handler-cell subscriptions
        n = 5000 if tier == "quick" else 50000
        for i in range(n):
            src = tg.sources(rng, ["hot", "hot", "interval", "timer", "iter", "create"])
            pipe = tg.chain(rng, src, list(tg.TIME_OPS), rng.randint(1, 3), p_sync=0.25)
            mode = "mixed" if i % 2 else "fifo"
            base = tg.events(rng, rng.randint(2, 10), hot=(src[0] == "hot"), mode=mode, unsub_p=0.05,
                             term_p=0.3)
            evs = []
            for e in base:
                evs += [e, ["q", "closed"]]
            out.append(Case("time", rng.choice(["local", "threads"]), [("pipe", [pipe])], evs,
                            {"kind": "time-" + mode}))
        return out

    def project(self, body):
        return kinds(tg.parse_head(body)) if body.startswith("o=") else body

    def oracle(self, case, lines, model_lines=None):
        closed = False
        unsubbed = False
        for k, e in enumerate(case.events):
            b = lines.get(k)
            if b is None:
                continue
            if b == "PANIC":
                return {"kind": "panic", "event": k, "detail": "implementation panicked"}
            if e[0] == "unsub":
                unsubbed = True
            if b.startswith("closed="):
                v = b.endswith("1")
                if closed and not v:
                    return {"kind": "closed-not-monotone", "event": k, "detail": b}
                if unsubbed and not v:
                    return {"kind": "open-after-unsubscribe", "event": k, "detail": b}
                closed = closed or v
            elif b.startswith("o=") and not (b == "o=" or b.startswith("o= ")) and closed:
                return {"kind": "delivery-after-closed", "event": k, "detail": b}
        return None

    def nontrivial(self, case, lines):
        vals = set(lines.values())
        return ("closed=0" in vals and "closed=1" in vals) or any(
            b.startswith("o=") and not (b == "o=" or b.startswith("o= ")) for b in vals)

    def shrink_candidates(self, case):
        return tg.time_shrink(case) if case.suite == "time" else super().shrink_candidates(case)

    def signature(self, case, failure):
        if case.suite != "time":
            return super().signature(case, failure)
        node, hs = case.field("pipe")[0], []
        while isinstance(node, list) and node:
            hs.append(node[0])
            node = node[-1] if isinstance(node[-1], list) and node[0] not in ("iter", "create") else None
        ops = sorted(set(h for h in hs if h in tg.TIME_OPS))
        return f"{failure['kind']}|time|{','.join(ops)}"


PROP = C17()
