"""C03 — sources and single-input operators compute their documented sequence."""
import random

from .. import pipegen as pg
from ..case import Case
from ..runner import Prop


class C03(Prop):
    pid = "C03"
    lean_module = "RxModel.Props.C03"
    design_ref = "DESIGN.md §6 C03"
    rule = ("depth-1 bounded-exhaustive: every single-input operator variant (all parameters in small "
            "ranges) x every item script over {0,1,2,-1} up to the tier's length x every terminal "
            "(none/complete/error), over a hot subject and over a cold source (from_iter / create); "
            "plus random chains (depth 2..6) over every cold source kind and hot subjects. "
            "A case is non-trivial if the probe received at least one notification; distinct = distinct "
            "(pipeline, script) text.")
    assumptions = [
        "items are small integers (no i64 overflow); closures come from the named family defined once "
        "in Lean (Driver/Fns.lean) and once in Rust (harness/src/val.rs)",
        "the documented list semantics is RxModel/Spec/ListSem.lean (decisions marked DECISION there)",
    ]
    modelled_not_verified = ("all Rust code; the St1 machines and Src.emit are hand transcriptions of "
                             "src/ops/*.rs and src/observable/*.rs, validated only on the generated cases")

    # translator tie (DESIGN II.7): module -> pipeline heads built from that observer
    tie_modules = {
        # subject.rs / behavior_subject.rs / start.rs pinned wholesale on top of their semantic ties
        "RxModel.GenTie.PinsSubject": [],
        "RxModel.GenTie.Sources": [],
        "RxModel.GenTie.TimeSources": ["startwith"],           # start_with: the values in order, then the source is subscribed
        # the derived-operator layer of src/observable.rs: the chain each provided method builds, and its list semantics
        "RxModel.GenTie.Derived": ["first", "firstor", "lastor", "elementat", "ignore", "all", "reduce", "sum", "count",
                                   "min", "max", "average"],      # of / of_result / of_option / of_fn / from_iter / throw / empty / never
        "RxModel.GenTie.Map": ["map", "all", "min", "max", "average"],
        "RxModel.GenTie.MapTo": ["mapto"],
        "RxModel.GenTie.Filter": ["filter", "ignore", "all"],
        "RxModel.GenTie.FilterMap": ["filtermap"],
        "RxModel.GenTie.Tap": ["tap"],
        "RxModel.GenTie.OnErrorMap": ["onerrmap"],
        "RxModel.GenTie.OnComplete": [],
        "RxModel.GenTie.OnError": [],
        "RxModel.GenTie.Take": ["take", "first", "firstor", "elementat", "all"],
        "RxModel.GenTie.TakeWhile": ["takewhile", "takewhilei"],
        "RxModel.GenTie.Skip": ["skip", "elementat"],
        "RxModel.GenTie.SkipWhile": ["skipwhile"],
        "RxModel.GenTie.TakeLast": ["takelast"],
        "RxModel.GenTie.SkipLast": ["skiplast"],
        "RxModel.GenTie.Last": ["last", "lastor", "reduce", "sum", "count", "min", "max", "average"],
        "RxModel.GenTie.DefaultIfEmpty": ["dflt", "firstor", "lastor", "all", "reduce", "sum", "count"],
        "RxModel.GenTie.Scan": ["scan", "reduce", "sum", "count", "min", "max", "average"],
        "RxModel.GenTie.Distinct": ["distinct", "distinctkey", "duc", "dukc"],
        "RxModel.GenTie.Pairwise": ["pairwise"],
        "RxModel.GenTie.Buffer": ["bufcount"],
        "RxModel.GenTie.Contains": ["contains"],
        "RxModel.GenTie.Collect": ["collect"],
    }

    def cases(self, tier, seed):
        rng = random.Random(seed)
        maxlen = 3 if tier == "quick" else 4
        variants = pg.single_variants(4)
        out = []
        for opv in variants:
            for xs in pg.scripts(maxlen):
                for term in pg.TERMS:
                    out.append(pg.case_hot(opv, xs, term))
                    out.append(pg.case_cold(opv, xs, term))
        # malformed tails over the hot form (post-terminal events)
        for opv in variants:
            for term in ("c", ["e", "7"]):
                xs = [rng.choice(pg.ALPHA) for _ in range(2)]
                tail = pg.rand_script(rng, 1, malformed=True)
                out.append(pg.case_hot(opv, xs, term, tail=tail))
        # wide family: parameters, script lengths and alphabets beyond the exhaustive ranges (magic numbers of an
        # implementation — capacities, spill thresholds, batch sizes — live there); ten times as many, restricted to
        # the operators concerned, when a tie theorem of the translator no longer checks (directed search)
        out += pg.wide_cases(rng, variants, 3000 if tier == "quick" else 30000)
        if self.focus:
            out += pg.wide_cases(rng, variants, 30000, focus=set(self.focus))
        # random chains
        n = 6000 if tier == "quick" else 60000
        for _ in range(n):
            depth = rng.randint(2, 6)
            if rng.random() < 0.5:
                src = pg.cold_sources(rng)
                evs = [["sub"]]
            else:
                src = ["hot", "0"]
                evs = [["sub"]] + pg.rand_events(rng, 1, rng.randint(0, 8))
            pipe = pg.rand_chain(rng, variants, depth, src)
            flavor = "threads" if rng.random() < 0.25 else "local"
            fields = [("pipe", [pipe])]
            if rng.random() < 0.3:
                fields = [("closure", ["1"])] + fields
            if rng.random() < 0.5:
                # same pipeline, adjacent operators applied without a box in between (monomorphic static types)
                fields = [("mono", [str(rng.choice([1, 2]))])] + fields
            out.append(Case("pipe", flavor, fields, evs, {"kind": "chain"}))
        # every ordered pair of operators applied back to back on the concrete operator types (`mono 1`):
        # the receiver of the second call has the static type of the first operator's struct
        mv = pg.mono_variants()
        hot_evs = [["sub"]] + [["emit", "0", ["n", str(v)]] for v in (1, 2, 3, 2)] + [["emit", "0", "c"]]
        for a in mv:
            for b in mv:
                out.append(Case("pipe", "local", [("mono", ["1"]), ("pipe", [b + [a + [["hot", "0"]]]])],
                                hot_evs, {"kind": "mono-pair"}))
                out.append(Case("pipe", rng.choice(["local", "threads"]),
                                [("mono", ["1"]), ("pipe", [b + [a + [["iter", "1", "2", "3"]]]])],
                                [["sub"]], {"kind": "mono-pair"}))
        return out

    def oracle(self, case, lines, model_lines=None):
        # The oracle is the Lean spec itself: by C03_operator / C03_chain / C03_pipeline the model's
        # output *is* the documented sequence, so any difference is a failing input.
        for k in range(len(case.events)):
            a, b = lines.get(k), (model_lines or {}).get(k)
            if a != b:
                return {"kind": "spec-mismatch", "event": k, "detail": f"impl={a} spec={b}"}
        return None

    def extra_coverage(self, cases, impl):
        ops = {}
        for c in cases:
            for h in pg.pipe_heads(c.field("pipe")[0]):
                ops[h] = ops.get(h, 0) + 1
        return {"operator_counts": ops}


PROP = C03()
