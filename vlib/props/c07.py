"""C07 — scheduler-moving operators preserve the source's sequence."""
import random

from .. import timegen as tg
from ..case import Case
from ..runner import Prop

OPS = ["delay", "observeon", "subscribeon", "delaysub"]


def chain_delay(pipe):
    """Sum of the `delay d` stages (minimum latency of an item) and of delaysub (subscription latency)."""
    d = 0
    node = pipe
    while isinstance(node, list) and node and isinstance(node[-1], list):
        if node[0] in ("delay", "delayat"):
            d += int(node[1])
        node = node[-1]
    return d


class C07(Prop):
    pid = "C07"
    lean_module = "RxModel.Props.C07"
    extra_modules = ("RxModel.Props.C07C", "RxModel.Props.C07C2", "RxModel.Props.C07S")
    design_ref = "DESIGN.md §6 C07"
    rule = ("chains of delay / observe_on / subscribe_on / delay_subscription (and their _at and _threads forms) "
            "mixed with synchronous operators over a hot subject or a cold source, items tagged 1,2,3…; scripts of "
            "emit / clock advance / fire-one-due-timer / poll-one-live-task / run-until-idle (FIFO) in two modes: "
            "prompt FIFO only, and arbitrary run orders. Full line compared (deliveries, live tasks, timers "
            "created, clock). Oracle on the implementation: no item before production time + delay; nothing "
            "invented or duplicated; order = source order. non-trivial = a task was spawned and something delivered.")
    assumptions = ["virtual clock: the timer function is the harness' (never completes early); executor = harness "
                   "queue behind hook H1; `Instant`-based _at forms compared after rounding to 1 ms"]
    modelled_not_verified = "all Rust code incl. futures' async state machines; the executor is the harness', not LocalPool/ThreadPool"

    # translator tie: DelayObserver / ObserveOnObserver (compiler-expanded, translated), both flavours, in closed form:
    # one scheduled task per notification with the configured delay, handle appended, error of delay forwarded at
    # once; task bodies = one call on the operator's own slot; wiring of actual_subscribe pinned
    tie_modules = {
        "RxModel.GenTie.TimeSources": ["subscribeon"],          # subscribe_on: one task, no delay; the task subscribes the source
        "RxModel.GenTie.DelaySubscription": ["delaysub"],
        "RxModel.GenTie.TimeSourcesModel": ["subscribeon", "delaysub"],
        # forward simulations: generated delay / observe_on observers against Stage.onNotif of the chain model
        "RxModel.GenTie.TimeOpsModel": ["delay", "observeon"],   # the scheduling events = the calls of TW.subscribeFrom      # delay_subscription: the same task with the configured delay
        "RxModel.GenTie.Delay": ["delay"],
        "RxModel.GenTie.DelayThreads": ["delay"],
        "RxModel.GenTie.ObserveOn": ["observeon"],
        "RxModel.GenTie.ObserveOnThreads": ["observeon"],
        "RxModel.GenTie.WiringDelay": ["delay"],
        "RxModel.GenTie.WiringDelayThreads": ["delay"],
        "RxModel.GenTie.WiringObserveOn": ["observeon"],
        "RxModel.GenTie.WiringObserveOnThreads": ["observeon"],
    }

    def cases(self, tier, seed):
        rng = random.Random(seed + 7)
        out = []
        n = 6000 if tier == "quick" else 60000
        for i in range(n):
            src = tg.sources(rng, ["hot", "hot", "iter", "create"])
            ops = OPS if rng.random() < 0.8 else OPS + ["debounce", "buftime"]
            pipe = tg.chain(rng, src, ops, rng.randint(1, 3), p_sync=0.25)
            mode = "fifo" if i % 2 == 0 else "mixed"
            evs = tg.events(rng, tg.hist_len(rng, 3, 14), hot=(src[0] == "hot"), mode=mode,
                            unsub_p=0.03)
            fl = "threads" if rng.random() < 0.35 else "local"
            out.append(Case("time", fl, [("pipe", [pipe])], evs, {"kind": mode}))
        # the _at forms: requested timer durations
        for d in (0, 5, 50):
            for head in ("delayat", "delaysubat"):
                for fl in ("local", "threads"):
                    if head == "delaysubat" and fl == "threads":
                        continue
                    out.append(Case("time", fl, [("pipe", [[head, str(d), ["hot", "0"]]])],
                                    [["sub"], ["run"], ["emit", "0", ["n", "1"]], ["run"], ["q", "timers"],
                                     ["adv", str(d)], ["run"]], {"kind": "at-forms"}))
        out = tg.with_units(seed, out)
        # feedback loops (field `fb`): the subscriber, on receiving v > 0, pushes v - 1 into the source from INSIDE
        # its callback; every hop goes through a scheduler task, so this is ordinary use of delay / observe_on
        # (count-down, polling loops).  poll / fire / adv only: one delivery per polling event.
        for head in (["delay", "0"], ["delay", "2"], ["observeon"], ["delay", "1", ["observeon"]],
                     ["observeon", ["delay", "2"]]):
            for pre in ([], ["map", "id"], ["tap"], ["filter", "true"]):
                for post in ([], ["map", "id"], ["tap"]):
                    for m in (1, 2, 3):
                        for fl in ("local", "threads"):
                            node = (pre + [["hot", "0"]]) if pre else ["hot", "0"]
                            stages = [head[:-1], head[-1]] if isinstance(head[-1], list) else [head]
                            for st in reversed(stages):
                                node = st + [node]
                            if post:
                                node = post + [node]
                            evs = [["sub"], ["emit", "0", ["n", str(m)]]]
                            for _ in range((m + 2) * len(stages)):
                                evs += [["poll", "0"], ["adv", "2"], ["fire", "0"], ["poll", "0"], ["poll", "0"]]
                            out.append(Case("time", fl, [("fb", ["1"]), ("pipe", [node])], evs,
                                            {"kind": "feedback", "m": m}))
        # a stage DIRECTLY behind delay / observe_on whose own downstream ends early (take k): that stage has not been
        # unsubscribed, it is still owed every item and the terminal of the source — counted by a tap
        for mover in (["delay", "0"], ["delay", "2"], ["observeon"]):
            for k in (1, 2):
                for n_items in (2, 3, 5):
                    # (a source that FAILS owes only a prefix: delay forwards the error at once, ahead of queued items)
                    for term in ("c", None):
                        for fl in ("local", "threads"):
                            pipe = ["take", str(k), ["tap", mover + [["hot", "0"]]]]
                            evs = [["sub"]]
                            for i in range(n_items):
                                evs += [["emit", "0", ["n", str(i + 1)]]]
                                if i % 2 == 0:
                                    evs += [["adv", "2"], ["run"]]
                            if term is not None:
                                evs += [["emit", "0", term]]
                            evs += [["adv", "5"], ["run"], ["q", "tap"]]
                            out.append(Case("time", fl, [("pipe", [pipe])], evs, {"kind": "starved-stage", "n": n_items}))
        # delay / observe_on on two REAL OS threads (suite `coop`, shared with C02): the tie of the step model under
        # C07S_at_most_once — an emitter / the executor / unsubscribe() preempted at every lock acquisition; oracle on the
        # implementation: only source items, none more often than it was emitted
        from .. import coopgen as cg
        for c in cg.mover_cases(tier, seed):
            d = c.copy()
            d.meta = {"kind": "coop-mover"}
            out.append(d)
        out += cg.mover_pair_cases(tier)
        return out

    def starved_oracle(self, case, lines):
        if any(e[0] == "emit" and isinstance(e[2], list) and e[2][0] == "e" for e in case.events):
            return None
        n = sum(1 for e in case.events if e[0] == "emit" and isinstance(e[2], list) and e[2][0] == "n")
        # only complete schedules are judged: no live task left before the query
        last = next((lines.get(k) or "" for k in range(len(case.events) - 2, -1, -1)
                     if (lines.get(k) or "").startswith("o=")), "")
        if " live=0 " not in last + " ":
            return None
        for k, e in enumerate(case.events):
            b = lines.get(k) or ""
            if b in ("PANIC", "HANG"):
                return {"kind": b.lower(), "event": k, "detail": b}
            if e[:2] == ["q", "tap"] and b.startswith("tap="):
                got = [int(x) for x in b[5:-1].split(",") if x]
                if got and got[0] != n:
                    return {"kind": "stage-starved", "event": k,
                            "detail": f"the stage directly behind the scheduler-moving operator saw {got[0]} of the "
                                      f"source's {n} items although every task has run ({b})"}
        return None

    def _is_starved_shape(self, case):
        f = case.field("pipe")
        try:
            return (f[0][0] == "take" and f[0][2][0] == "tap" and f[0][2][1][0] in ("delay", "observeon")
                    and f[0][2][1][-1][0] == "hot" and case.events[-1][:2] == ["q", "tap"]
                    and ["run"] in case.events[-3:] and not case.field("fb"))
        except Exception:
            return False

    def compare_from(self, case):
        if case.suite == "coop":
            from .. import coopgen as cg
            return 0 if cg.modelled(case) else len(case.events)
        return 0

    def oracle(self, case, lines, model_lines=None):
        if case.suite == "coop":
            from .. import coopgen as cg
            return cg.once_oracle(case, lines)
        if self._is_starved_shape(case):
            f = self.starved_oracle(case, lines)
            if f:
                return f
        if case.field("fb"):
            # every value of the count-down arrives, in order, exactly once
            got = []
            for k in range(len(case.events)):
                b = lines.get(k)
                if b in ("PANIC", "HANG"):
                    return {"kind": b.lower(), "event": k, "detail": b}
                if b and b.startswith("o="):
                    outs, _ = tg.parse_suffix(b)
                    got += [o for o in outs if o.startswith("N")]
            m = next((int(e[2][1]) for e in case.events if e[0] == "emit" and isinstance(e[2], list)
                      and e[2][0] == "n"), None)
            if m is None:
                return None
            # (only complete schedules are judged — a shrunk case that no longer polls often enough proves nothing)
            nst = sum(1 for h in self._heads(case.field("pipe")[0]) if h in ("delay", "observeon"))
            if sum(1 for e in case.events if e[0] == "poll") < 3 * (m + 2) * nst or \
                    sum(1 for e in case.events if e[0] == "fire") < (m + 2) * nst:
                return None
            want = [f"N{v}" for v in range(m, -1, -1)]
            if got != want:
                return {"kind": "feedback-chain-broken", "event": len(case.events) - 1,
                        "detail": f"the subscriber fed {m}, {m}-1, … back into the source: delivered {got}, expected {want}"}
            return None
        pipe = case.field("pipe")[0]
        only_moving = all(h in ("delay", "delayat", "observeon", "subscribeon", "delaysub", "delaysubat",
                                "hot", "iter", "create", "map", "tap")
                          for h in self._heads(pipe))
        d = chain_delay(pipe)
        emitted_at = {}
        order = []
        fifo = all(e[0] not in ("fire", "poll") for e in case.events)
        t = 0
        seen = []
        terms = []
        for k, e in enumerate(case.events):
            b = lines.get(k)
            if b is None:
                continue
            if b == "PANIC":
                return {"kind": "panic", "event": k, "detail": b}
            if b.startswith("timers="):
                if case.meta.get("kind") == "at-forms" or pipe[0] in ("delayat", "delaysubat"):
                    want = int(pipe[1])
                    got = [int(x) for x in b[8:-1].split(",") if x]
                    if got and abs(got[0] - want) > 1:
                        return {"kind": "at-duration", "event": k,
                                "detail": f"requested timer durations {got}, instant is {want} ms ahead"}
                continue
            outs, kv = tg.parse_suffix(b)
            t = kv.get("t", t)
            if e[0] == "emit" and isinstance(e[2], list) and e[2][0] == "n":
                emitted_at.setdefault(e[2][1], t)
                order.append(e[2][1])
            if not only_moving:
                continue
            for o in outs:
                if o.startswith("N"):
                    v = o[1:]
                    if pipe_has_map(pipe):
                        continue
                    if v in emitted_at and t < emitted_at[v] + d:
                        return {"kind": "early", "event": k,
                                "detail": f"item {v} produced at {emitted_at[v]} delivered at {t}, delay {d}"}
                    if v in seen:
                        return {"kind": "duplicate", "event": k, "detail": o}
                    seen.append(v)
                elif o.startswith("E") or o == "C":
                    terms.append(o)
        if only_moving and not pipe_has_map(pipe) and self._src(pipe) == "hot":
            # completeness: the source completed, nobody unsubscribed, every task has run
            evs = case.events
            comp = [k for k, e in enumerate(evs) if e[0] == "emit" and e[2] == "c"]
            bad_tail = any(e[0] == "unsub" or (e[0] == "emit" and isinstance(e[2], list) and e[2][0] == "e")
                           for e in evs)
            last = lines.get(len(evs) - 1, "")
            _, kv = tg.parse_suffix(last) if last.startswith("o=") else ([], {})
            if comp and not bad_tail and kv.get("live") == 0:
                before = [e[2][1] for e in evs[:comp[0]]
                          if e[0] == "emit" and isinstance(e[2], list) and e[2][0] == "n"]
                subscribed_late = any(h in ("subscribeon", "delaysub", "delaysubat") for h in self._heads(pipe))
                if not subscribed_late and sorted(seen) != sorted(before):
                    kind = "lost-items-fifo" if fifo else "lost-items-nonfifo"
                    return {"kind": kind, "event": len(evs) - 1,
                            "detail": f"source completed after {before}, delivered {seen}"}
            # "followed by the source's terminal": the source terminated (completion or error), nobody
            # unsubscribed, every task has run -> the terminal must have arrived (any run order)
            first_term = next((e[2] for e in evs if e[0] == "emit" and (e[2] == "c" or
                               (isinstance(e[2], list) and e[2][0] == "e"))), None)
            subscribed_late = any(h in ("subscribeon", "delaysub", "delaysubat") for h in self._heads(pipe))
            if (first_term is not None and not any(e[0] == "unsub" for e in evs) and kv.get("live") == 0
                    and not subscribed_late and evs and evs[0][0] == "sub"):
                wantt = "C" if first_term == "c" else "E" + str(first_term[1])
                if terms != [wantt]:
                    return {"kind": "terminal-lost", "event": len(evs) - 1,
                            "detail": f"source terminated with {wantt}, every task has run, terminals delivered: {terms}"}
            want = [v for v in order if v in seen]
            if seen != want:
                kind = "order-violated-fifo" if fifo else "order-violated-nonfifo"
                return {"kind": kind, "event": len(case.events) - 1,
                        "detail": f"delivered {seen}, source order {want}"}
        return None

    def _heads(self, pipe):
        hs = []
        node = pipe
        while isinstance(node, list) and node:
            hs.append(node[0])
            if isinstance(node[-1], list) and node[0] not in ("iter", "create"):
                node = node[-1]
            else:
                break
        return hs

    def _src(self, pipe):
        return self._heads(pipe)[-1]

    def signature(self, case, failure):
        if case.suite == "coop":
            from .. import coopgen as cg
            return cg.signature(case, failure)
        hs = [h for h in self._heads(case.field("pipe")[0]) if h not in ("hot", "iter", "create")]
        if failure["kind"].endswith("-nonfifo"):
            # the finding is about the per-notification tasks of these two operators
            hs = [("delay" if h == "delayat" else h) for h in hs if h in ("observeon", "delay", "delayat")]
        return f"{failure['kind']}|time|{','.join(sorted(set(hs)))}"

    def shrink_candidates(self, case):
        if case.suite == "coop":
            from .. import coopgen as cg
            return cg.shrink_candidates(case)
        return tg.time_shrink(case)

    def nontrivial(self, case, lines):
        if case.suite == "coop":
            from .. import coopgen as cg
            return cg.nontrivial(case, lines)
        for b in lines.values():
            outs, kv = tg.parse_suffix(b)
            if outs and kv.get("tm", 0) + kv.get("live", 0) >= 0:
                return True
        return False


def pipe_has_map(pipe):
    node = pipe
    while isinstance(node, list) and node:
        if node[0] == "map":
            return True
        if isinstance(node[-1], list):
            node = node[-1]
        else:
            break
    return False


PROP = C07()
