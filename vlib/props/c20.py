"""C20 — group_by sends every item to exactly one group, in order."""
import itertools
import random

from .. import sx
from ..case import Case
from ..runner import Prop

ALPHA = [0, 1, 2, 3]
KEYS = ["const0", "id", "mod2", "mod3"]
KEYFN = {
    "div2": lambda v: v // 2,
    "div3": lambda v: v // 3,
    "const0": lambda v: 0,
    "id": lambda v: v,
    "mod2": lambda v: v % 2,
    "mod3": lambda v: v % 3,
}
TERMS = [None, "c", ["e", "7"]]


def emit(n):
    return ["emit", n]


def mk_case(key, xs, term, flavor="local", tail=(), skip=(), otake=None, kind="exh"):
    fields = [("key", [key])]
    if skip:
        fields.append(("skip", [str(k) for k in skip]))
    if otake is not None:
        fields.append(("otake", [str(otake)]))
    evs = [emit(sx.N(x)) for x in xs]
    if term is not None:
        evs.append(emit(term))
    evs += list(tail)
    return Case("groupby", flavor, fields, evs, {"kind": kind})


def dedup(ks):
    out = []
    for k in ks:
        if k not in out:
            out.append(k)
    return out


def parse_tokens(body):
    """`o=G0;g0:N4;g1:C;C` -> list of tokens:
    ('G', key) | ('g', key, 'N', v) | ('g', key, 'C'|'E', e) | ('T', 'C'|'E', e)"""
    if body is None or not body.startswith("o="):
        return None
    toks = []
    for t in [x for x in body[2:].split(";") if x]:
        if t[0] == "G":
            toks.append(("G", int(t[1:])))
        elif t[0] == "g":
            k, _, n = t[1:].partition(":")
            if n[0] == "N":
                toks.append(("g", int(k), "N", int(n[1:])))
            elif n[0] == "E":
                toks.append(("g", int(k), "E", int(n[1:])))
            else:
                toks.append(("g", int(k), "C", None))
        elif t[0] == "E":
            toks.append(("T", "E", int(t[1:])))
        elif t == "C":
            toks.append(("T", "C", None))
        else:
            return None
    return toks


class C20(Prop):
    pid = "C20"
    lean_module = "RxModel.Props.C20"
    design_ref = "DESIGN.md §6 C20"
    rule = ("bounded-exhaustive: every item script over {0,1,2,3} up to the tier's length x key functions "
            "{const0,id,mod2,mod3} x terminal {none,complete,error} x {Subject, SubjectThreads} as the group "
            "subject, a probe subscribed to every group while it is announced; plus random longer scripts "
            "(7..14) with post-terminal events, groups left without subscriber (`skip`), group probes "
            "unsubscribing (`gunsub`), the outer subscription unsubscribing, and `take n` on the outer "
            "stream. Terminal fan-out (HashMap drain order) is compared sorted. Non-trivial = at least one "
            "delivery; distinct = distinct (fields, events) text.")
    assumptions = [
        "items are small non-negative integers; the discriminator is a pure function from the named family "
        "(Lean Driver/Fns.lean = Rust harness/src/val.rs); theorems quantify over every `key : Val -> Val`",
        "group subscribers attach during the announcement (the suite's outer probe does that) and never re-enter the source",
        "the HashMap drain order is a parameter of the model (theorems hold for every permutation); the check compares the fan-out sorted",
    ]
    modelled_not_verified = ("src/ops/group_by.rs and the Subject of src/subject.rs are hand transcriptions "
                             "(Ops/GroupBy.lean), validated only on the generated cases; std HashMap is "
                             "abstracted as an association list with an arbitrary drain order")

    # ------------------------------------------------------------------ cases
    # translator tie: GroupByObserver (compiler-expanded src/ops/group_by.rs, translated) against the routing skeleton of
    # the model: key evaluated once, lookup by equality, announcement before the first item, terminal fan-out
    tie_modules = {
        "RxModel.GenTie.GroupBy": [],
    }

    def cases(self, tier, seed):
        rng = random.Random(seed)
        maxlen = 6 if tier == "quick" else 7
        out = []
        for n in range(maxlen + 1):
            for xs in itertools.product(ALPHA, repeat=n):
                for key in KEYS:
                    for term in TERMS:
                        out.append(mk_case(key, list(xs), term, "local"))
                        out.append(mk_case(key, list(xs), term, "threads"))
        # a STATEFUL key function (harness field `seqkey m`: the n-th call answers n / m) over the items 0,1,2,… in
        # order: coincides with the pure key `div<m>` of the model and of this oracle iff the library calls the key
        # function exactly once per item, in order; every case ends with the call count (`q kc`)
        for m in (2, 3):
            for n in range(0, 8):
                for term in TERMS:
                    for fl in ("local", "threads"):
                        for extra in ([], [["gunsub", "0"]], [["unsub"]]):
                            c = mk_case(f"div{m}", list(range(n)), term, fl, tail=[["q", "kc"]], kind="seqkey")
                            c.fields.append(("seqkey", [str(m)]))
                            if extra and n >= 2:
                                c.events = c.events[: n // 2 + 1] + extra + c.events[n // 2 + 1:]
                            elif extra:
                                continue
                            out.append(c)
        # NEIGHBOURS: a silent subscriber joins the source subject (`join`) or the subject of a group (`gjoin k`) somewhere in
        # the history — the subjects' own bookkeeping (chamber -> live list) must not cost the groups their items or their
        # terminal, in particular behind `take n` of the stream of groups (the outer side has finished early; seed C20-8)
        rngN = random.Random(seed + 2020)
        for i in range(1500 if tier == "quick" else 15000):
            c = self.rand_case(rngN, wide=(i % 10 == 0))
            if i % 2 == 0 and not c.field("otake") and not c.field("skip"):
                c.fields.append(("otake", [str(rngN.randint(1, 2))]))
            evs = list(c.events)
            for _ in range(rngN.randint(1, 3)):
                pos = rngN.randint(0, max(0, len(evs) - 1))
                evs.insert(pos, ["join"] if rngN.random() < 0.6 else ["gjoin", str(rngN.choice(range(4)))])
            c.events = evs
            c.meta = dict(c.meta, kind="neighbour")
            out.append(c)
        nrand = 6000 if tier == "quick" else 60000
        for _ in range(nrand):
            out.append(self.rand_case(rng))
        for _ in range(nrand // 6):
            out.append(self.rand_case(rng, wide=True))
        return out

    def rand_case(self, rng, wide=False):
        key = rng.choice(KEYS)
        flavor = rng.choice(["local", "threads"])
        n = rng.randint(30, 70) if wide else rng.randint(3, 14)
        alpha = ALPHA if rng.random() < 0.7 else list(range(0, 8))
        if wide:    # many groups alive together, long streams
            alpha = list(range(-3, 20))
        r = rng.random()
        skip, otake, kind = (), None, "rand"
        if r < 0.25:
            skip = tuple(sorted(set(rng.choice(range(4)) for _ in range(rng.randint(1, 2)))))
            kind = "rand-skip"
        elif r < 0.40:
            otake = rng.randint(1, 3)
            kind = "rand-otake"
        evs = []
        for _ in range(n):
            q = rng.random()
            if q < 0.78:
                evs.append(emit(sx.N(rng.choice(alpha))))
            elif q < 0.86 and kind != "rand-otake":
                evs.append(["gunsub", str(rng.choice(range(4)))])
                kind = "rand-gunsub" if kind == "rand" else kind
            elif q < 0.90:
                evs.append(["unsub"])
            elif q < 0.96:
                evs.append(emit("c"))
            else:
                evs.append(emit(["e", str(rng.randint(1, 9))]))
        if rng.random() < 0.5:
            evs.append(emit(rng.choice(["c", ["e", "5"]])))
        if rng.random() < 0.5:          # post-terminal tail
            for _ in range(rng.randint(1, 3)):
                evs.append(emit(rng.choice([sx.N(rng.choice(alpha)), "c", ["e", "8"]])))
        c = mk_case(key, [], None, flavor, tail=evs + [["q", "kc"]], skip=skip, otake=otake, kind=kind)
        return c

    # ----------------------------------------------------------------- oracle
    def oracle(self, case, lines, model_lines=None):
        key = KEYFN[case.field("key")[0]]
        skip = set(int(x) for x in (case.field("skip") or []))
        ot = case.field("otake")
        otake = int(ot[0]) if ot else None
        evtoks = []
        kcs = []
        for i in range(len(case.events)):
            b = lines.get(i)
            if b == "PANIC":
                return {"kind": "panic", "event": i, "detail": "panic in the implementation"}
            if case.events[i][0] == "q":
                kcs.append((i, b))
                evtoks.append([])
                continue
            t = parse_tokens(b)
            if t is None:
                return {"kind": "bad-output", "event": i, "detail": repr(b)}
            evtoks.append(t)

        # --- what the input script says -------------------------------------
        items = []            # (event index, value) delivered by the live source
        term = None           # (event index, 'C'|'E', e)
        dead_from = None      # first event index after which nothing may be observed
        unsub_at = None
        gunsub_at = {}        # key -> event index of its first gunsub
        for i, ev in enumerate(case.events):
            if ev[0] == "emit":
                if term is not None or unsub_at is not None:
                    continue
                n = ev[1]
                if n == "c":
                    term = (i, "C", None)
                elif n[0] == "e":
                    term = (i, "E", int(n[1]))
                else:
                    items.append((i, int(n[1])))
            elif ev[0] == "unsub":
                if unsub_at is None and term is None:
                    unsub_at = i
            elif ev[0] == "gunsub":
                # only a group that exists has a subscription to give up
                if int(ev[1]) in [key(v) for _, v in items]:
                    gunsub_at.setdefault(int(ev[1]), i)
        # the key function runs exactly once per item that reaches group_by (it may be stateful: `FnMut`)
        for i, b in kcs:
            want = sum(1 for j, _ in items if j < i)
            if b != f"kc={want}":
                return {"kind": "key-calls", "event": i,
                        "detail": f"{b}: the key function was called that often for {want} items"}
        keys = dedup([key(v) for _, v in items])
        seen_keys = keys if otake is None else keys[:otake]      # announcements the outer probe receives
        attached = [k for k in seen_keys if k not in skip]

        def listening(k, i):
            return k in attached and not (k in gunsub_at and gunsub_at[k] < i)

        flat_toks = [(i, t) for i, ts in enumerate(evtoks) for t in ts]

        # C20_groups: one announcement per distinct key, first-appearance order
        got_keys = [t[1] for _, t in flat_toks if t[0] == "G"]
        if got_keys != seen_keys:
            return {"kind": "groups", "event": 0, "detail": f"announced {got_keys}, expected {seen_keys}"}
        # announcement precedes the group's first delivery, and comes with the item that created it
        first_ev = {}
        for i, v in items:
            first_ev.setdefault(key(v), i)
        pos = {}
        for j, (i, t) in enumerate(flat_toks):
            if t[0] == "G":
                pos[t[1]] = j
                if first_ev.get(t[1]) != i:
                    return {"kind": "groups", "event": i, "detail": f"group {t[1]} announced at event {i}"}
        for j, (i, t) in enumerate(flat_toks):
            if t[0] == "g" and (t[1] not in pos or pos[t[1]] > j):
                return {"kind": "groups", "event": i, "detail": f"delivery to group {t[1]} before its announcement"}

        # C20_routing: each group's log = the items of its key, in order, once
        all_keys = set(k for k in range(-1, 16))
        for k in sorted(all_keys | set(keys)):
            got = [t[3] for _, t in flat_toks if t[0] == "g" and t[1] == k and t[2] == "N"]
            exp = [v for i, v in items if key(v) == k and listening(k, i)]
            if got != exp:
                return {"kind": "routing", "event": 0, "detail": f"group {k} got {got}, expected {exp}"}
        # every delivery happens during the event that carries the item
        for i, t in flat_toks:
            if t[0] == "g" and t[2] == "N":
                ev = case.events[i]
                if not (ev[0] == "emit" and isinstance(ev[1], list) and ev[1][0] == "n" and int(ev[1][1]) == t[3]):
                    return {"kind": "routing", "event": i, "detail": f"item {t[3]} delivered during event {i}"}

        # C20_flatten: merging the groups in arrival order reproduces the source
        got = [t[3] for _, t in flat_toks if t[0] == "g" and t[2] == "N"]
        exp = [v for i, v in items if listening(key(v), i)]
        if got != exp:
            return {"kind": "flatten", "event": 0, "detail": f"merged groups {got}, source {exp}"}

        # C20_terminal: the source terminal once to every group and to the outer stream
        gterms = [(i, t) for i, t in flat_toks if t[0] == "g" and t[2] != "N"]
        oterms = [(i, t) for i, t in flat_toks if t[0] == "T"]
        took = otake is not None and len(keys) >= otake      # take(n) completed the outer stream itself
        if term is None:
            if gterms:
                return {"kind": "terminal", "event": gterms[0][0], "detail": "group terminated without source terminal"}
            exp_outer = []
        else:
            ti, tk, te = term
            exp_g = sorted((k, tk, te) for k in attached if listening(k, ti))
            got_g = sorted((t[1], t[2], t[3]) for _, t in gterms)
            if got_g != exp_g:
                return {"kind": "terminal", "event": ti,
                        "detail": f"group terminals {got_g}, expected {exp_g}"}
            if any(i != ti for i, _ in gterms):
                return {"kind": "terminal", "event": ti, "detail": "group terminal outside the terminal event"}
            exp_outer = [] if took else [(ti, ("T", tk, te))]
        if took:
            # take(n): `C` right after the n-th announcement
            ni = first_ev[keys[otake - 1]]
            exp_outer = [(ni, ("T", "C", None))]
        if oterms != exp_outer:
            return {"kind": "terminal", "event": 0, "detail": f"outer terminals {oterms}, expected {exp_outer}"}
        if term is not None and not took:
            ts = evtoks[term[0]]
            if not ts or ts[-1][0] != "T":
                return {"kind": "terminal", "event": term[0], "detail": "outer terminal is not delivered last"}

        # nothing after the terminal / after unsubscribe
        lim = min([x for x in (term[0] if term else None, unsub_at) if x is not None], default=None)
        if lim is not None:
            for i in range(lim + 1, len(case.events)):
                if evtoks[i]:
                    return {"kind": "post-terminal", "event": i, "detail": f"output after the end: {lines.get(i)}"}
        return None

    def signature(self, case, failure):
        var = "otake" if case.field("otake") else "plain"
        return f"{failure['kind']}|groupby|{var}"

    def shrink_candidates(self, case):
        cands = []
        for i in range(len(case.events) - 1, -1, -1):
            c = case.copy()
            del c.events[i]
            cands.append(c)
        for k in ("skip",):
            if case.field(k):
                c = case.copy()
                c.fields = [(kk, v) for kk, v in c.fields if kk != k]
                cands.append(c)
        ot = case.field("otake")
        if ot and int(ot[0]) > 1:
            c = case.copy()
            c.set_field("otake", [str(int(ot[0]) - 1)])
            cands.append(c)
        if case.flavor == "threads":
            c = case.copy()
            c.flavor = "local"
            cands.append(c)
        kf = case.field("key")[0]
        if kf != "id":
            c = case.copy()
            c.set_field("key", ["id"])
            cands.append(c)
        # smaller values
        for i, ev in enumerate(case.events):
            if ev[0] == "emit" and isinstance(ev[1], list) and ev[1][0] == "n" and int(ev[1][1]) > 0:
                c = case.copy()
                c.events[i] = ["emit", ["n", str(int(ev[1][1]) - 1)]]
                cands.append(c)
        return cands

    def extra_coverage(self, cases, impl):
        by = {}
        for c in cases:
            k = f"{c.field('key')[0]}/{c.flavor}"
            by[k] = by.get(k, 0) + 1
        return {"key_flavor_counts": by}


PROP = C20()
