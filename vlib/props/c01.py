"""C01 — items, then at most one terminal, then nothing (suite `pipe`)."""
import importlib
import random
import re

from .. import pipegen as pg
from ..case import Case
from ..runner import Prop

KIND = re.compile(r"N(\([^;]*\)|[^;]*)")


def kinds(body):
    """`o=N5;N(p 1 2);C` -> `NNC`; other bodies unchanged (time-suite suffix ` live= tm= t=` dropped)."""
    if not body.startswith("o="):
        return body
    if " live=" in body:
        from .. import timegen as tg
        outs, _ = tg.parse_suffix(body)
        return "o=" + "".join(t[0] for t in outs if t)
    out = []
    for tok in body[2:].split(";"):
        if tok:
            out.append(tok[0])
    return "o=" + "".join(out)


def gen_cases(rng, tier, variants, n_random):
    out = []
    # depth-1 over every operator variant with malformed tails, hot source
    for opv in variants:
        for term in ("c", ["e", "7"]):
            for _ in range(2):
                xs = [rng.choice(pg.ALPHA) for _ in range(rng.randint(0, 3))]
                tail = pg.rand_script(rng, rng.randint(0, 2), malformed=True)
                out.append(pg.case_hot(opv, xs, term, tail=tail))
    for k in pg.TWO:
        for _ in range(60):
            evs = [["sub"]] + pg.rand_events(rng, 2, rng.randint(2, 9), malformed=0.6)
            out.append(Case("pipe", rng.choice(["local", "threads"]),
                            [("pipe", [[k, ["hot", "0"], ["hot", "1"]]])], evs,
                            {"kind": "two-input-malformed", "op": k}))
    for _ in range(n_random):
        nhot = rng.randint(1, 3)
        pipe = pg.rand_tree(rng, variants, rng.randint(1, 5), nhot)
        evs = [["sub"]] + pg.rand_events(rng, nhot, rng.randint(0, 12), malformed=0.4)
        fl = "threads" if rng.random() < 0.4 else "local"
        fields = [("pipe", [pipe])]
        if rng.random() < 0.3:
            # subscribe the way users do: .on_error(f).on_complete(g).subscribe(h)
            fields = [("closure", ["1"])] + fields
        out.append(Case("pipe", fl, fields, evs, {"kind": "random-tree"}))
    return out


class C01(Prop):
    pid = "C01"
    lean_module = "RxModel.Props.C01"
    extra_modules = ("RxModel.Props.C01C", "RxModel.Props.C01M")
    design_ref = "DESIGN.md §6 C01"
    # translator tie (DESIGN II.7): the closure observer behind `subscribe(|v| ..)` — one call per item, none per terminal
    tie_modules = {"RxModel.GenTie.SubscribeItem": [], "RxModel.GenTie.RcObserver": []}
    # … and every operator machine the grammar theorems of C01 quantify over is tied to its generated counterpart: the ties
    # of C03 (single-input operators, sources, derived layer) and of C04 (two-input operators) are obligations here too
    try:
        from .c03 import C03 as _C03
        from .c04 import C04 as _C04
        tie_modules = dict(tie_modules, **{k: v for k, v in _C03.tie_modules.items()}, **{k: v for k, v in _C04.tie_modules.items()})
    except Exception:       # pragma: no cover
        pass
    rule = ("random pipelines (depth<=5, <=3 hot subjects, cold sources incl. create with malformed scripts, "
            "all single-input variants, start_with, the 8 two-input combinators; local and _threads) x event "
            "scripts with post-terminal events and repeated terminals; plus every operator variant at depth 1 "
            "with malformed tails. Compared under the kind projection (N/E/C per event). Oracle on the "
            "implementation alone: the whole probe log matches N*(E|C)?. non-trivial = probe received something.")
    assumptions = ["merge_all, share, group_by are covered by their own suites (the Lean theorem C01_grammar "
                   "quantifies over the Pipe type of RxModel/Pipe/World.lean, C01C_chain_grammar over the chain "
                   "worlds of RxModel/Sched/Chain.lean)"]
    modelled_not_verified = "all Rust code; Rust move semantics is what makes un-shared observers unreachable after their terminal"

    def cases(self, tier, seed):
        rng = random.Random(seed)
        out = gen_cases(rng, tier, pg.single_variants(3), 20000 if tier == "quick" else 200000)
        # chains with scheduler-using operators and time / async sources (theorem C01C_chain_grammar over the
        # chain model): the populations of C07, C08, C09 and C16 plus hot chains with malformed tails
        from .. import timegen as tg
        for name in ("c07", "c08", "c09", "c16"):
            try:
                owner = importlib.import_module(f"vlib.props.{name}").PROP
                cs = owner.cases("quick", seed)
                # cases their owner judges by its oracle alone (no model) are judged by the grammar oracle alone here
                for c in cs:
                    if owner.compare_from(c):
                        c.fields = [("nomodel", ["1"])] + list(c.fields)
            except Exception as ex:            # pragma: no cover
                print(f"note: C01 skips the {name} population: {ex}")
                continue
            cs = [c for c in cs if c.suite == "time"]
            rng.shuffle(cs)
            for c in cs[: 1500 if tier == "quick" else 6000]:
                c.meta = {"kind": "time-" + name}
                out.append(c)
        for i in range(3000 if tier == "quick" else 30000):
            pipe = tg.chain(rng, ["hot", "0"], list(tg.TIME_OPS), rng.randint(1, 3), p_sync=0.35)
            evs = tg.events(rng, rng.randint(3, 14), hot=True, mode="mixed" if i % 2 else "fifo", unsub_p=0.03,
                            term_p=0.3)
            # post-terminal events through the subject
            for _ in range(rng.randint(0, 3)):
                evs.insert(rng.randint(1, len(evs)), ["emit", "0", rng.choice([["n", "9"], "c", ["e", "5"]])])
            out.append(Case("time", rng.choice(["local", "threads"]), [("pipe", [pipe])], evs,
                            {"kind": "time-malformed"}))
        # the same histories with some emissions made from ANOTHER OS thread (event `temit`, thread-safe flavour, users'
        # closure subscription): behaviour must not depend on which thread delivers a notification (seed C01-8 keyed the
        # grammar on the ThreadId of the subscription)
        rngT = random.Random(seed + 101)
        extra = []
        for c in out:
            if c.suite == "pipe" and c.flavor == "threads" and len(extra) < (1500 if tier == "quick" else 15000) \
                    and any(e[0] == "emit" for e in c.events):
                d = c.copy()
                d.events = [(["temit"] + list(e[1:])) if (e[0] == "emit" and rngT.random() < 0.6) else list(e) for e in d.events]
                if not any(f == "closure" for f, _ in d.fields) and rngT.random() < 0.6:
                    d.fields = [("closure", ["1"])] + list(d.fields)
                d.meta = dict(c.meta, kind="other-thread")
                extra.append(d)
        out += extra
        # an error type WITHOUT payload (`Subject<Val, ()>`, harness field `uniterr`), the subscriber's three closures glued on in
        # either order: the grammar must not depend on what the error type is (seed C01-9 completed the downstream after the
        # error handler when size_of::<Err>() == 0).  The model is the same hot pipeline; an error prints as E0.
        rngU = random.Random(seed + 102)
        for i in range(400 if tier == "quick" else 4000):
            evs = [["sub"]]
            for _ in range(rngU.randint(1, 7)):
                r = rngU.random()
                if r < 0.55:
                    evs.append(["emit", "0", ["n", str(rngU.randint(0, 9))]])
                elif r < 0.75:
                    evs.append(["emit", "0", ["e", "0"]])
                elif r < 0.92:
                    evs.append(["emit", "0", "c"])
                else:
                    evs.append(["unsub"])
            mapped = i % 3 == 0
            pipe = ["map", "add1", ["hot", "0"]] if mapped else ["hot", "0"]
            fields = [("uniterr", [("ec", "ce")[i % 2]]), ("closure", ["1"])] + ([("umap", ["1"])] if mapped else []) \
                + [("pipe", [pipe])]
            fl = ("local", "threads")[(i // 2) % 2]
            if fl == "local" and i % 5 < 2:
                # the subscriber's ITEM closure fails on one of the items (harness field `npanic v`, contained by
                # catch_unwind): it stays subscribed, and its one terminal is still the only one (seed C01-11 made the
                # closure observer report finished after a panic, and on_complete fire on an error over a finished downstream)
                vals = [int(e[2][1]) + (1 if mapped else 0) for e in evs if e[0] == "emit" and isinstance(e[2], list) and e[2][0] == "n"]
                if vals:
                    fields = [("npanic", [str(rngU.choice(vals))])] + fields
            out.append(Case("pipe", fl, fields, evs, {"kind": "unit-error"}))
        # the subscriber's error handler FAILS after it has been told (harness field `epanic`: it panics; the emitting call is
        # wrapped in catch_unwind, execution goes on): the error was that subscriber's terminal — nothing may follow it
        # (seed C01-10: a drop guard in on_error completed the downstream while the handler's panic unwound)
        rngP = random.Random(seed + 103)
        for i in range(300 if tier == "quick" else 3000):
            shape = i % 4
            pipe = [["hot", "0"], ["map", "add1", ["hot", "0"]], ["merge", ["hot", "0"], ["hot", "1"]],
                    ["filter", "true", ["merge", ["hot", "0"], ["hot", "1"]]]][shape]
            evs = [["sub"]]
            for _ in range(rngP.randint(1, 7)):
                r = rngP.random()
                src = str(rngP.randrange(2)) if shape >= 2 else "0"
                if r < 0.5:
                    evs.append(["emit", src, ["n", str(rngP.randint(0, 9))]])
                elif r < 0.8:
                    evs.append(["emit", src, ["e", str(rngP.randint(1, 9))]])
                else:
                    evs.append(["emit", src, "c"])
            out.append(Case("pipe", "local", [("epanic", ["1"]), ("closure", ["1"]), ("pipe", [pipe])], evs,
                            {"kind": "handler-panics"}))
        out = tg.with_units(seed, out)
        # merge_all / group_by / share (theorems C01M_* over their own models): a sample of the populations of
        # C05, C20 and C11, full lines compared, grammar oracle per delivered stream
        for name, cap in (("c05", 2500), ("c20", 2500), ("c11", 2500)):
            try:
                owner = importlib.import_module(f"vlib.props.{name}").PROP
                cs = [c for c in owner.cases("quick", seed) if not owner.compare_from(c)]
            except Exception as ex:            # pragma: no cover
                print(f"note: C01 skips the {name} population: {ex}")
                continue
            cs = [c for c in cs if c.suite in ("flatten", "groupby", "share")]
            rng.shuffle(cs)
            for c in cs[: cap if tier == "quick" else cap * 4]:
                c.meta = {"kind": "multicast-" + name}
                out.append(c)
        # two REAL threads at lock granularity (suite `coop`, see C10): the thread-safe combinators fed from two
        # threads — the GLOBAL delivery order seen by the one subscriber must still be items* terminal?
        from .. import coopgen as cg
        cs = cg.sync_cases(tier, seed)
        rng.shuffle(cs)
        out += cs[: 5000 if tier == "quick" else 40000]
        return out

    def _multicast_oracle(self, case, lines):
        """flatten: one log `o=`; groupby: `G<k>` announcements (items of the outer stream) and `g<k>:<notif>`
        per group, outer terminals bare; share: `d=<label>:<notif>;…`, a label is re-used by a later `sub`."""
        logs = {}
        if case.suite == "share":
            # the harness prints deliveries per probe LABEL; a `sub k` while label k is still held would put two
            # probes under one label (C01M_share_label_statement is refuted by exactly that aliasing): the
            # per-subscription theorem C01M_share_grammar is checked on the histories where labels are unique
            held = set()
            for e in case.events:
                if e[0] == "sub":
                    if e[1] in held:
                        return None
                    held.add(e[1])
                elif e[0] == "unsub":
                    held.discard(e[1])
        for k, e in enumerate(case.events):
            b = lines.get(k)
            if b is None:
                continue
            if b in ("PANIC", "RELOCK", "HANG"):
                # a stuck merge_all is C05's finding, not a grammar violation
                return None
            toks = []
            if case.suite == "share":
                if e[0] == "sub":
                    logs.pop("s" + e[1], None)         # a new subscription under this label
                if b.startswith("d="):
                    for t in b[2:].split(" ")[0].split(";"):
                        if t:
                            lab, _, n = t.partition(":")
                            toks.append(("s" + lab, n[0]))
            elif b.startswith("o="):
                for t in b[2:].split(" ")[0].split(";") if case.suite == "groupby" else b[2:].split(";"):
                    if not t:
                        continue
                    if case.suite == "groupby" and t[0] == "G":
                        toks.append(("outer", "N"))
                    elif case.suite == "groupby" and t[0] == "g":
                        lab, _, n = t.partition(":")
                        toks.append((lab, n[0]))
                    else:
                        toks.append(("outer", t[0]))
            for lab, ch in toks:
                logs[lab] = logs.get(lab, "") + ch
                if not re.fullmatch(r"N*[EC]?", logs[lab]):
                    return {"kind": "grammar", "event": k, "detail": f"stream {lab}: kinds = {logs[lab]}"}
        return None

    def shrink_candidates(self, case):
        if case.suite == "coop":
            from .. import coopgen as cg
            return cg.shrink_candidates(case)
        if case.field("realtimer"):
            return []      # (without its `take` a zero-period interval never comes back)
        if case.suite in ("flatten", "groupby", "share"):
            out = []
            for i in range(len(case.events)):
                c = case.copy()
                del c.events[i]
                out.append(c)
            return out
        return super().shrink_candidates(case)

    def signature(self, case, failure):
        if case.suite == "coop":
            from .. import coopgen as cg
            return cg.signature(case, failure)
        if case.suite in ("flatten", "groupby", "share"):
            return f"{failure['kind']}|{case.suite}"
        return super().signature(case, failure)

    def project(self, body):
        return kinds(body)

    def compare_from(self, case):
        if case.suite == "coop":
            return len(case.events)
        # two subscriptions of one pipeline value (field `twosubs`) have no model: the oracle decides
        if case.field("twosubs") or case.field("nomodel"):
            return len(case.events)
        # pipelines with a flattening node (C16's inner-producer family) have no chain model either: grammar oracle only
        f = case.field("pipe")
        from .. import timegen as tgm
        if f and tgm._heads_of(f[0], set()) & {"flatmap", "concatmap", "mergemap"}:
            return len(case.events)
        return 0

    def oracle(self, case, lines, model_lines=None):
        if case.suite == "coop":
            from .. import coopgen as cg
            return cg.sync_oracle(case, lines)
        if case.suite in ("flatten", "groupby", "share"):
            return self._multicast_oracle(case, lines)
        logs = ["", ""]
        for k in range(len(case.events)):
            b = lines.get(k)
            if b is None:
                continue
            if b == "PANIC":
                return {"kind": "panic", "event": k, "detail": "implementation panicked"}
            if b.startswith("o="):
                # `o=… o2=… live=…` (twosubs): the grammar holds for each subscription's own log
                head, sep, rest = b.partition(" live=")
                a, has2, b2 = head.partition(" o2=")
                for i, part in enumerate([a + sep + rest] + (["o=" + b2 + sep + rest] if has2 else [])):
                    logs[i] += kinds(part)[2:]
                    if not re.fullmatch(r"N*[EC]?", logs[i]):
                        return {"kind": "grammar", "event": k,
                                "detail": f"probe log kinds of subscription {i + 1} = {logs[i]}"}
        return None


PROP = C01()
