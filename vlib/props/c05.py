"""C05 — flattening (merge_all(n), concat_all, flatten, flat_map, concat_map): every inner item
once, inner order kept, concurrency limit, completion, no panic / re-lock.

Suite `flatten` (harness/src/suites/flatten_suite.rs, lean/RxModel/Driver/SuiteFlatten.lean).
The oracle is computed from the case alone (python, below) and evaluated on the implementation's
own output; it does not look at the Lean model."""
import itertools
import os
import random
from collections import deque

from ..case import Case
from ..runner import Prop

# Which model the driver runs for the correspondence check: "code" = src/ops/merge_all.rs as it
# is (the deferred subscription runs under the borrow), "fixed" = the repaired code.  Flip to
# "fixed" in the round that repairs /repo (DESIGN §7 finding 5).
MODEL_VARIANT = os.environ.get("VERIF_C05_MODEL", "fixed")

STUCK = ("PANIC", "RELOCK", "HANG")


# ------------------------------------------------------------------ case building
def cold(k, n, fin):
    """k-th inner of the table: n items 10(k+1)+1.., fin in {"c", "-", ["e", x]}."""
    return ["cold", [str(10 * (k + 1) + i + 1) for i in range(n)], fin]


def hot(j):
    return ["hot", str(j)]


def mk_case(limit, inners, events, flavor="local", via=None, kind="gen"):
    fields = [("limit", [str(limit)])]
    if via and via != "mergeall":
        fields.append(("via", [via]))
    if MODEL_VARIANT != "code":
        fields.append(("model", [MODEL_VARIANT]))
    fields.append(("inners", list(inners)))
    return Case("flatten", flavor, fields, events, {"kind": kind})


def interleavings(seqs):
    """All merges of the given sequences (each keeps its own order)."""
    seqs = [s for s in seqs if s]
    if not seqs:
        yield []
        return
    for i, s in enumerate(seqs):
        rest = seqs[:i] + [s[1:]] + seqs[i + 1:]
        for tail in interleavings(rest):
            yield [s[0]] + tail


def count_interleavings(lens):
    import math
    n = math.factorial(sum(lens))
    for l in lens:
        n //= math.factorial(l)
    return n


def random_interleaving(rng, seqs):
    seqs = [list(s) for s in seqs if s]
    out = []
    while seqs:
        tot = sum(len(s) for s in seqs)
        r = rng.randrange(tot)
        for s in seqs:
            if r < len(s):
                out.append(s.pop(0))
                break
            r -= len(s)
        seqs = [s for s in seqs if s]
    return out


def hot_timeline(j, nitems, term, base=0):
    evs = [["inner", str(j), ["n", str(100 * (j + 1) + base + i + 1)]] for i in range(nitems)]
    if term is not None:
        evs.append(["inner", str(j), term])
    return evs


# ------------------------------------------------------------------ reading a case
def _limit_of(case):
    via = (case.field("via") or ["mergeall"])[0]
    lim = case.field("limit")
    lim = lim[0] if lim else ("concat" if via == "concatmap" else "inf")
    if lim in ("inf", "flatten"):
        return None
    if lim == "concat":
        return 1
    return int(lim)


def _inners_of(case):
    out = []
    for e in case.field("inners") or []:
        if e[0] == "hot":
            out.append(("hot", int(e[1])))
        else:
            fin = e[2] if len(e) > 2 else "-"
            out.append(("cold", [int(x) for x in e[1]], fin))
    return out


class OutOfScope(Exception):
    pass


def reference(case):
    """Documented behaviour of merge_all(n) on an error-free history: per event the list of
    expected notifications (ints, "C").  Raises OutOfScope where the property is silent."""
    n = _limit_of(case)
    inners = _inners_of(case)
    if n == 0:
        raise OutOfScope("limit 0")
    active, buf = [], deque()
    hot_subs, hot_done = {}, set()
    st = {"outer_done": False, "done": False}
    out = []

    def check_complete():
        if st["outer_done"] and not active and not buf and not st["done"]:
            st["done"] = True
            out.append("C")

    def finish(inst):
        active.remove(inst)
        if buf:
            nxt = buf.popleft()
            active.append(nxt)
            start(nxt)
        check_complete()

    def start(inst):
        spec = inners[inst[1]]
        if spec[0] == "hot":
            if spec[1] in hot_done:
                raise OutOfScope("inner subject subscribed after its completion")
            hot_subs.setdefault(spec[1], []).append(inst)
        else:
            out.extend(spec[1])
            if spec[2] == "c":
                finish(inst)
            elif spec[2] != "-":
                raise OutOfScope("cold inner with error")

    res = []
    arrivals = 0
    for ev in case.events:
        out = []
        if ev[0] == "unsub":
            raise OutOfScope("unsubscribe")
        if ev[0] == "outer":
            if not st["outer_done"]:
                if ev[1] == "c":
                    st["outer_done"] = True
                    check_complete()
                elif ev[1][0] == "e":
                    raise OutOfScope("outer error")
                else:
                    inst = (arrivals, int(ev[1][1]))
                    arrivals += 1
                    if n is None or len(active) < n:
                        active.append(inst)
                        start(inst)
                    else:
                        buf.append(inst)
        elif ev[0] == "inner":
            j = int(ev[1])
            if j not in hot_done:
                if ev[2] == "c":
                    hot_done.add(j)
                    for inst in hot_subs.pop(j, []):
                        finish(inst)
                elif ev[2][0] == "e":
                    raise OutOfScope("inner error")
                else:
                    out.extend(int(ev[2][1]) for _ in hot_subs.get(j, []))
        res.append(out)
    return res


def parse_body(body):
    """`o=N1;N2;C` -> [1, 2, "C"]; stuck outcomes -> the word."""
    if body is None:
        return None
    if body in STUCK:
        return body
    if not body.startswith("o="):
        return body
    out = []
    for p in body[2:].split(";"):
        if not p:
            continue
        if p[0] == "N":
            try:
                out.append(int(p[1:]))
            except ValueError:
                out.append(p[1:])
        else:
            out.append(p)
    return out


def closed_form_checks(case, outs):
    """Properties of the statement, each evaluated directly on the implementation's output of an
    in-scope (error-free) history.  `outs`: per event list of notifications."""
    n = _limit_of(case)
    inners = _inners_of(case)
    arrivals = []                 # (event index, table index)
    outer_done_at = None
    hot_done_at = {}
    for t, ev in enumerate(case.events):
        if ev[0] == "outer" and outer_done_at is None:
            if ev[1] == "c":
                outer_done_at = t
            else:
                arrivals.append((t, int(ev[1][1])))
        elif ev[0] == "inner" and ev[2] == "c" and int(ev[1]) not in hot_done_at:
            hot_done_at[int(ev[1])] = t

    def incomplete(a, t):
        """arrival a has certainly not completed before event t is processed"""
        spec = inners[a[1]]
        if spec[0] == "hot":
            return not (spec[1] in hot_done_at and hot_done_at[spec[1]] < t)
        return spec[2] != "c"

    def may_run(i, t):
        if n is None:
            return True
        return sum(1 for a in arrivals[:i] if incomplete(a, t)) < n

    flat = [x for o in outs for x in o]
    # -- every item of a cold inner at most once per arrival, order kept, nothing invented
    for k, spec in enumerate(inners):
        if spec[0] != "cold" or not spec[1]:
            continue
        m = sum(1 for a in arrivals if a[1] == k)
        got = [x for x in flat if isinstance(x, int) and x in spec[1]]
        reps, rem = divmod(len(got), len(spec[1]))
        if rem or got != spec[1] * reps:
            return ("order", len(outs) - 1, f"items of cold inner {k}: {got}, its script {spec[1]}")
        if reps > m:
            return ("duplicate", len(outs) - 1, f"cold inner {k} arrived {m}x but emitted {reps}x")
    # -- limit and exactly-once for hot inners: an item is delivered once per running subscription
    done_at = next((t for t, o in enumerate(outs) if "C" in o), None)
    for t, ev in enumerate(case.events[:len(outs)]):
        if ev[0] == "inner" and ev[2] != "c" and ev[2][0] == "n":
            j = int(ev[1])
            if j in hot_done_at and hot_done_at[j] < t:
                continue
            v = int(ev[2][1])
            want = sum(1 for i, a in enumerate(arrivals)
                       if a[0] < t and inners[a[1]] == ("hot", j) and may_run(i, t))
            if done_at is not None and done_at < t:
                want = 0
            got = outs[t].count(v)
            if got > want:
                return ("limit", t, f"item {v} of hot inner {j} delivered {got}x, at most {want} "
                                    f"subscription(s) allowed by limit {n}")
            if got < want:
                return ("lost", t, f"item {v} of hot inner {j} delivered {got}x, expected {want}")
    # -- concat keeps the outer order
    if n == 1:
        hot_owner = {}
        for ev in case.events:
            if ev[0] == "inner" and isinstance(ev[2], list) and ev[2][0] == "n":
                hot_owner.setdefault(int(ev[2][1]), set()).add(int(ev[1]))

        def arrival_rank(x):
            return [i for i, a in enumerate(arrivals)
                    if (inners[a[1]][0] == "cold" and x in inners[a[1]][1])
                    or (inners[a[1]][0] == "hot" and inners[a[1]][1] in hot_owner.get(x, ()))]
        lo = 0
        for x in flat:
            if not isinstance(x, int):
                continue
            ranks = [r for r in arrival_rank(x) if r >= lo]
            if not ranks:
                return ("concat-order", len(outs) - 1, f"item {x} out of outer order in {flat}")
            lo = ranks[0]
    # -- completion exactly when the outer stream and every inner have completed
    all_done_at = None
    if outer_done_at is not None:
        ts = [outer_done_at]
        ok = True
        for a in arrivals:
            spec = inners[a[1]]
            if spec[0] == "hot":
                if spec[1] in hot_done_at:
                    ts.append(hot_done_at[spec[1]])
                else:
                    ok = False
            elif spec[2] != "c":
                ok = False
        if ok:
            all_done_at = max(ts)
    if all_done_at is not None and all_done_at >= len(outs):
        all_done_at = None
    if done_at != all_done_at:
        return ("completion", done_at if done_at is not None else all_done_at,
                f"downstream completed at event {done_at}, outer and all inners completed at {all_done_at}")
    if flat.count("C") > 1 or (done_at is not None and (outs[done_at][-1] != "C"
                                                         or any(outs[t] for t in range(done_at + 1, len(outs))))):
        return ("completion", done_at, f"something after the completion: {outs}")
    return None


# ------------------------------------------------------------------ the plugin
class C05(Prop):
    pid = "C05"
    lean_module = "RxModel.Props.C05"
    extra_modules = ("RxModel.Props.C05O",)
    design_ref = "DESIGN.md §6 C05, §7 finding 5, App. A.4"
    rule = ("suite flatten: outer = hot Subject of <= 4 inner observables, each cold (0-3 items, "
            "complete / error / no terminal; from_iter or create) or hot (a Subject); limits 1..5, inf, "
            "concat_all, flatten; via merge_all / flat_map / concat_map; both flavours. "
            "Bounded-exhaustive: every table of <= 3 inners over 6 inner kinds x limits {1,2,3,inf} x "
            "every interleaving (all of them up to a cap per shape, else a random sample) of the outer "
            "script, the hot inners' items and the completions; plus random larger histories (repeated "
            "inners, shared subjects, errors, unsubscribe, post-terminal events). Oracle (python, from the "
            "case alone, on error-free histories): reference behaviour per event; every cold item at most "
            "once per arrival and in order; a hot item delivered exactly once per subscription the limit "
            "allows (never by an inner beyond the limit); concat keeps the outer order; downstream "
            "completes exactly at the event after which the outer and all inners have completed; on every "
            "history: no PANIC / RELOCK / HANG. Non-trivial = the probe received something; distinct = "
            "distinct case text.")
    assumptions = [
        "items are small distinct integers; inner observables are cold-synchronous (emit everything "
        "inside actual_subscribe) or hot Subjects driven by the script; single-threaded histories",
        "a Subject subscribed after its own completion never calls the late subscriber (C06's domain): "
        "such histories are compared with the model but excluded from the C05 oracle",
        "usize::MAX is 2^64-1; limit 0 is outside the oracle (the code queues every inner forever; stated in Lean) but is generated for the correspondence",
    ]
    modelled_not_verified = ("all Rust code; RxModel/Ops/MergeAll.lean is a hand transcription of "
                             "src/ops/merge_all.rs (+ the Subject/Subscriber behaviour it relies on), "
                             "validated only on the generated cases; RELOCK is detected by the harness "
                             "as 'helper thread asleep and silent' (/proc thread state), not by the mutex")
    trusted_base = ["flatten_suite.rs RELOCK detection: Linux /proc/<pid>/task/<tid>/stat state S on two "
                    "consecutive polls (fallback: 2 s of silence)"]

    def corpus(self):
        """Corpus cases run against the model variant in force (the `model` field is ours)."""
        cs = super().corpus()
        for c in cs:
            c.fields = [(k, v) for k, v in c.fields if k != "model"]
            if MODEL_VARIANT != "code":
                c.fields.insert(1, ("model", [MODEL_VARIANT]))
        return cs

    # -------------------------------------------------------------- generation
    KINDS = ["c0", "c1", "c2", "o1", "hot", "hot2"]   # cold complete 0/1/2 items, cold open 1 item, hot

    def _table(self, kinds):
        """inner table + hot timelines for a tuple of kind names; each hot its own subject."""
        inners, timelines = [], []
        j = 0
        for k, kd in enumerate(kinds):
            if kd == "c0":
                inners.append(cold(k, 0, "c"))
            elif kd == "c1":
                inners.append(cold(k, 1, "c"))
            elif kd == "c2":
                inners.append(cold(k, 2, "c"))
            elif kd == "o1":
                inners.append(cold(k, 1, "-"))
            elif kd == "e1":
                inners.append(cold(k, 1, ["e", "7"]))
            elif kd == "hot":
                inners.append(hot(j))
                timelines.append(hot_timeline(j, 1, "c"))
                j += 1
            elif kd == "hot2":
                inners.append(hot(j))
                timelines.append(hot_timeline(j, 0, "c"))
                j += 1
        return inners, timelines

    # translator tie: InnerObserver / OutsideObserver of merge_all (compiler-expanded, translated) in closed form: the
    # bookkeeping skeleton of the model (limit test, FIFO queue, hand-over of the slot, completion condition), both
    # flavours; MultiSubscription.append from src/subscription.rs
    tie_modules = {
        # critical sections read off the source (rs2lean/src/holds.rs): which calls are made while which shared cell is held — the policies (P3: merge_all starts an inner observable with its state cell released)
        "RxModel.GenTie.Holds": [],
        "RxModel.GenTie.MergeAll": [],
        "RxModel.GenTie.MergeAllThreads": [],
    }

    def cases(self, tier, seed):
        rng = random.Random(seed)
        quick = tier == "quick"
        cap = 40 if quick else 400
        out = []
        flavors = ["local", "threads"]
        # ---- bounded-exhaustive small shapes
        for size in (1, 2, 3):
            for kinds in itertools.product(self.KINDS, repeat=size):
                inners, timelines = self._table(kinds)
                outer = [["outer", ["o", str(k)]] for k in range(size)] + [["outer", "c"]]
                seqs = [outer] + timelines
                total = count_interleavings([len(s) for s in seqs])
                if total <= cap:
                    ilv = list(interleavings(seqs))
                else:
                    ilv = [random_interleaving(rng, seqs) for _ in range(cap)]
                # limit 0: outside the property (every inner waits for ever) but inside the correspondence
                # and the local = threads comparison of C18
                for limit in (0, 1, 2, 3, "inf"):
                    if isinstance(limit, int) and limit > size and limit != 1:
                        continue
                    if limit == 0 and size > 2:
                        continue
                    for evs in ilv:
                        fl = flavors[len(out) % 2] if total > 6 else None
                        for f in ([fl] if fl else flavors):
                            out.append(mk_case(limit, inners, evs, f, kind="exhaustive"))
        # the operator spellings on a few shapes, all interleavings
        for kinds in [("hot", "c2"), ("hot", "hot", "c1"), ("c1", "hot", "o1"), ("hot2", "c0", "hot")]:
            inners, timelines = self._table(kinds)
            outer = [["outer", ["o", str(k)]] for k in range(len(kinds))] + [["outer", "c"]]
            for evs in itertools.islice(interleavings([outer] + timelines), 200):
                for f in flavors:
                    out.append(mk_case("concat", inners, evs, f, kind="spelling"))
                    out.append(mk_case("flatten", inners, evs, f, kind="spelling"))
                    out.append(mk_case("inf", inners, evs, f, via="flatmap", kind="spelling"))
                    out.append(mk_case("concat", inners, evs, f, via="concatmap", kind="spelling"))
        # ---- a QUEUED cold inner that errors when `InnerObserver::complete` starts it from the queue: the error
        # empties the cell, so whatever the still subscribed hot inners / the outer stream do afterwards is silent
        # (model: `alive := false` in the `.cold xs (.error e)` arm of `MergeAll.drain`; found unexercised by
        # tools/model_mutants.py: the random histories reach that arm but never continue after it)
        for nitems in (0, 1, 2):
            inners = [hot(0), hot(1), cold(2, nitems, ["e", "5"])]
            head = [["outer", ["o", "0"]], ["outer", ["o", "1"]], ["outer", ["o", "2"]], ["inner", "0", "c"]]
            for tail in ([["inner", "1", ["n", "201"]], ["inner", "1", "c"], ["outer", "c"]],
                         [["outer", ["o", "1"]], ["inner", "1", ["n", "201"]], ["outer", "c"], ["inner", "1", "c"]],
                         [["inner", "1", ["e", "7"]], ["outer", ["e", "3"]]],
                         [["outer", "c"], ["inner", "1", ["n", "201"]], ["inner", "1", "c"]]):
                for f in flavors:
                    out.append(mk_case(2, inners, head + tail, f, kind="queued-error"))
        # ---- random larger histories
        nrand = 6000 if quick else 60000
        for _ in range(nrand):
            out.append(self._random_case(rng))
        for _ in range(nrand // 6):
            out.append(self._random_case(rng, wide=True))
        # ---- MANY inners over a hot outer (17..40: bookkeeping thresholds such as "16 teardowns" — seed C05-8): a couple of
        # hot inners plus many cold ones; cold inners beyond the eighth are empty so that value ranges stay disjoint
        rng2 = random.Random(seed + 505)
        for i in range(150 if quick else 1500):
            nh = rng2.randint(1, 3)
            ncold = rng2.randint(17, 40)
            inners = [hot(j) for j in range(nh)]
            for k in range(ncold):
                inners.append(cold(nh + k, rng2.randint(0, 2) if nh + k < 8 else 0, "c"))
            order = list(range(len(inners)))
            if i % 3 == 0:
                rng2.shuffle(order)
            outer = [["outer", ["o", str(k)]] for k in order] + ([["outer", "c"]] if i % 4 else [])
            tls = [hot_timeline(j, rng2.randint(0, 3), rng2.choice(["c", "c", None])) for j in range(nh)]
            evs = random_interleaving(rng2, [outer] + tls)
            limit = rng2.choice(["inf", "flatten", "concat", 1, 2, 5, 20])
            out.append(mk_case(limit, inners, evs, "threads" if i % 5 == 0 else "local", kind="many-inners"))
        out += self.kick_cases()
        # two hot inners driven from two OS threads: inner j2 emits WHILE the subscriber is being called for an item of inner
        # j (event `rinner j n j2 n2`, thread-safe flavour).  The operator hands items over with its cell held, so the second
        # emission waits its turn: nothing is lost (seed C05-12 took the downstream observer out of the cell for the
        # duration of the call).  The model line is that of the two emissions one after the other.
        for limit in ("inf", 2, 5):
            for via_second in ((1, ["n", "2"]), (1, "c"), (0, ["n", "2"])):
                for pre in ([], [["inner", "1", ["n", "9"]]]):
                    inners = [["hot", "0"], ["hot", "1"]]
                    evs = [["outer", ["o", "0"]], ["outer", ["o", "1"]]] + pre
                    evs.append(["rinner", "0", ["n", "1"], str(via_second[0]), via_second[1]])
                    evs += [["inner", "0", ["n", "3"]], ["inner", "1", ["n", "4"]], ["inner", "0", "c"], ["inner", "1", "c"],
                            ["outer", "c"]]
                    exp = ([9] if pre else []) + [1] + ([2] if via_second[1] != "c" else []) + [3] + \
                        ([4] if via_second[1] != "c" else [])
                    c = mk_case(limit, inners, evs, "threads", kind="race")
                    c.fields.append(("expectr", [str(x) for x in sorted(exp)]))
                    out.append(c)
        return out

    def kick_cases(self):
        """The outer stream emits a further inner observable WHILE the operator is starting a queued one (inner kind
        `kickhot j h`: on subscription it pushes inner j into the outer stream, then it is hot subject h).  The late
        inner is queued like any other and started when a slot frees: every item once, completion when all have
        completed (seed C05-10 decided "the queue is drained" before the start and replaced the queue after it).
        No model for `kickhot`: the expected multiset is part of the case (field `expect`), oracle only."""
        out = []
        E = lambda *a: list(a)
        for fl in ("local", "threads"):
            for limit in (1, 2):
                for late in (["cold", ["99"], "c"], ["hot", "2"]):
                    for early_c in (False, True):
                        # inners: 0..limit-1 hot occupy the slots; K = kickhot (pushes L, then hot 5); L = the late inner
                        inners = [["hot", str(j)] for j in range(limit)]
                        K, L = limit, limit + 1
                        inners += [["kickhot", str(L), "5"], late]
                        evs = [E("outer", ["o", str(j)]) for j in range(limit)] + [E("outer", ["o", str(K)])]
                        expect = []
                        for j in range(limit):
                            evs.append(E("inner", str(j), ["n", str(10 + j)])); expect.append(10 + j)
                        if early_c:
                            evs.append(E("outer", "c"))
                        evs.append(E("inner", "0", "c"))          # hand-over: K is started, pushes L (queued)
                        evs.append(E("inner", "5", ["n", "6"])); expect.append(6)
                        evs.append(E("inner", "5", "c"))          # K completes: L is started
                        # (an outer stream that has already completed ignores the kick: no late inner then)
                        arrives = not early_c
                        if late[0] == "cold":
                            if arrives:
                                expect.append(99)
                        elif limit == 1:
                            evs.append(E("inner", "2", ["n", "7"]))
                            if arrives:
                                expect.append(7)
                            evs.append(E("inner", "2", "c"))
                        for j in range(1, limit):
                            evs.append(E("inner", str(j), "c"))
                        if late[0] == "hot" and limit == 2:
                            # (with two slots hot 2 IS subject 2 only if it is not one of the occupants: it is inner L)
                            evs.append(E("inner", "2", ["n", "7"]))
                            if arrives:
                                expect.append(7)
                            evs.append(E("inner", "2", "c"))
                        if not early_c:
                            evs.append(E("outer", "c"))
                        c = mk_case(limit, inners, evs, fl, kind="kick")
                        c.fields.append(("expect", [str(x) for x in sorted(expect)]))
                        out.append(c)
        return out

    def compare_from(self, case):
        return len(case.events) if case.field("expect") else 0

    def _random_case(self, rng, wide=False):
        # wide: many inners (queues, counters and inline capacities beyond the small ranges), long inner streams
        size = rng.randint(6, 9) if wide else rng.randint(1, 4)     # value ranges of the inners stay disjoint up to 9 x 9
        nsubj = rng.randint(2, 5) if wide else rng.randint(1, 3)
        inners = []
        err = rng.random() < 0.2
        for k in range(size):
            r = rng.random()
            if r < 0.45:
                inners.append(hot(rng.randrange(nsubj)))
            else:
                fin = rng.choice(["c", "c", "c", "-"] + ([["e", str(rng.randint(1, 9))]] if err else []))
                inners.append(cold(k, rng.randint(0, 9) if wide else rng.randint(0, 3), fin))
        limit = rng.choice([1, 1, 2, 2, 3, 4, 5, "inf", "concat", "flatten", 0] + ([7, 9, 12] if wide else []))
        via = None
        r = rng.random()
        if r < 0.15:
            via, limit = "flatmap", "inf"
        elif r < 0.3:
            via, limit = "concatmap", "concat"
        # outer script: mostly each inner once in order, sometimes repeats / shuffles
        ks = list(range(size))
        if rng.random() < 0.3:
            ks = [rng.randrange(size) for _ in range(rng.randint(1, 5) + (size if wide else 0))]
        outer = [["outer", ["o", str(k)]] for k in ks]
        r = rng.random()
        if r < 0.75:
            outer.append(["outer", "c"])
        elif err and r < 0.85:
            outer.append(["outer", ["e", "3"]])
        if rng.random() < 0.1:   # post-terminal
            outer.append(["outer", ["o", str(rng.randrange(size))]])
        timelines = []
        for j in range(nsubj):
            term = rng.choice(["c", "c", "c", None] + ([["e", str(rng.randint(1, 9))]] if err else []))
            tl = hot_timeline(j, rng.randint(0, 12) if wide else rng.randint(0, 3), term)
            if rng.random() < 0.1:   # post-terminal
                tl += hot_timeline(j, 1, rng.choice(["c", None]), base=50)
            timelines.append(tl)
        evs = random_interleaving(rng, [outer] + timelines)
        if rng.random() < 0.08:
            evs.insert(rng.randrange(len(evs) + 1), ["unsub"])
        flavor = "threads" if rng.random() < 0.4 else "local"
        return mk_case(limit, inners, evs, flavor, via=via, kind="wide" if wide else "random")

    # -------------------------------------------------------------- oracle
    def oracle(self, case, lines, model_lines=None):
        if case.field("expectr"):
            got = []
            for k in range(len(case.events)):
                b = parse_body(lines.get(k))
                if b is None or isinstance(b, str):
                    return {"kind": "stuck:" + str(b).split()[0], "event": k, "detail": f"{b} at {case.events[k]}"}
                got += [x for x in b if not isinstance(x, str)]
            want = sorted(int(x) for x in case.field("expectr"))
            if sorted(got) != want:
                return {"kind": "race-items", "event": len(case.events) - 1,
                        "detail": f"delivered {sorted(got)}, every item of the two inners once = {want}"}
            return None
        if case.field("expect"):
            got, terms = [], []
            for k in range(len(case.events)):
                b = parse_body(lines.get(k))
                if b is None or isinstance(b, str):
                    return {"kind": "stuck:" + str(b).split()[0], "event": k, "detail": f"{b} at {case.events[k]}"}
                for x in b:
                    (terms if isinstance(x, str) else got).append(x)
            want = sorted(int(x) for x in case.field("expect"))
            if sorted(got) != want:
                return {"kind": "kick-items", "event": len(case.events) - 1,
                        "detail": f"delivered {sorted(got)}, every inner's items once = {want}"}
            if terms != ["C"]:
                return {"kind": "kick-completion", "event": len(case.events) - 1,
                        "detail": f"terminals delivered: {terms}; the outer and every inner have completed"}
            return None
        outs = []
        for k in range(len(case.events)):
            b = parse_body(lines.get(k))
            if b is None:
                # the harness stops a case only at a stuck outcome (returned below, earlier event)
                return {"kind": "missing-output", "event": k, "detail": f"no line for event {k}"}
            if isinstance(b, str):
                return {"kind": "stuck:" + b.split()[0], "event": k,
                        "detail": f"{b} while processing event {k}: {case.events[k]}"}
            outs.append(b)
        try:
            ref = reference(case)
        except OutOfScope:
            return None
        bad = closed_form_checks(case, outs)
        if bad:
            return {"kind": bad[0], "event": bad[1], "detail": bad[2]}
        for k, (a, b) in enumerate(zip(outs, ref)):
            if a != b:
                return {"kind": "reference-mismatch", "event": k, "detail": f"impl={a} reference={b}"}
        return None

    def signature(self, case, failure):
        return f"{failure['kind']}|flatten"

    def nontrivial(self, case, lines):
        return any(b != "o=" for b in lines.values())

    # -------------------------------------------------------------- shrinking
    def shrink_candidates(self, case):
        if case.field("expect") or case.field("expectr"):
            return []          # the expected multiset is part of the case: it is kept as generated
        cands = []
        # drop an event
        for i in range(len(case.events) - 1, -1, -1):
            c = case.copy()
            del c.events[i]
            cands.append(c)
        inners = case.field("inners") or []
        used = {int(e[1][1]) for e in case.events if e[0] == "outer" and isinstance(e[1], list) and e[1][0] == "o"}
        # drop an unused inner (renumber the references)
        for k in range(len(inners) - 1, -1, -1):
            if k in used:
                continue
            c = case.copy()
            c.set_field("inners", inners[:k] + inners[k + 1:])
            for e in c.events:
                if e[0] == "outer" and isinstance(e[1], list) and e[1][0] == "o" and int(e[1][1]) > k:
                    e[1] = ["o", str(int(e[1][1]) - 1)]
            cands.append(c)
        # plain operator spelling, smaller limit, local flavour last (a flavour change is a different case)
        if case.field("via"):
            c = case.copy()
            c.fields = [(k, v) for k, v in c.fields if k != "via"]
            cands.append(c)
        lim = (case.field("limit") or ["inf"])[0]
        if lim in ("concat",) and not case.field("via"):
            c = case.copy()
            c.set_field("limit", ["1"])
            cands.append(c)
        if lim.isdigit() and int(lim) > 1:
            c = case.copy()
            c.set_field("limit", [str(int(lim) - 1)])
            cands.append(c)
        # simpler inners: fewer items, complete instead of error
        for k, e in enumerate(inners):
            if e[0] == "cold":
                if e[1]:
                    c = case.copy()
                    c.set_field("inners", inners[:k] + [["cold", e[1][:-1]] + e[2:]] + inners[k + 1:])
                    cands.append(c)
                if len(e) > 2 and isinstance(e[2], list):
                    c = case.copy()
                    c.set_field("inners", inners[:k] + [["cold", e[1], "c"]] + inners[k + 1:])
                    cands.append(c)
        return cands

    def extra_coverage(self, cases, impl):
        cov = {"limit": {}, "via": {}, "flavor": {}, "outcome": {"PANIC": 0, "RELOCK": 0, "HANG": 0}}
        for c in cases:
            l = (c.field("limit") or ["-"])[0]
            v = (c.field("via") or ["mergeall"])[0]
            cov["limit"][l] = cov["limit"].get(l, 0) + 1
            cov["via"][v] = cov["via"].get(v, 0) + 1
            cov["flavor"][c.flavor] = cov["flavor"].get(c.flavor, 0) + 1
            for b in impl.get(c.cid, {}).values():
                if b in cov["outcome"]:
                    cov["outcome"][b] += 1
        return {"flatten_coverage": cov, "model_variant": MODEL_VARIANT}


PROP = C05()
