"""C11 — publish/connect and share subscribe the source once and multicast (suite `share`)."""
import random

from ..case import Case
from ..runner import Prop

# Which Lean transcription the driver runs: "code" = /repo as it is, "fixed" = the repaired
# code (flip after the fix commit of finding 14).
MODEL = "code"


def N(v):
    return ["n", str(v)]


def mk_case(kind, flavor, src, events, meta):
    return Case("share", flavor, [("kind", [kind]), ("src", [src]), ("model", [MODEL])], events, meta)


def show_notif(n):
    if n == "c":
        return "C"
    if n[0] == "e":
        return "E" + str(n[1])
    return "N" + str(n[1])


class Ref:
    """The documented behaviour of publish/connect and share, as a reference semantics:
    one source subscription made at connect (publish) / at the first subscriber (share);
    every subscriber present at an emission receives it, in subscription order; once the
    last subscriber of a `share` has left, nothing is delivered and the upstream is not run."""

    def __init__(self, kind, src, never_release=False):
        self.kind = kind
        # never_release: the behaviour of the code as recorded in the known finding (the connection is kept for ever)
        self.never_release = never_release
        self.cold = [x for x in src[1:]] if src[0] == "iter" else None
        self.connected = False
        self.wired = False          # connected to the hot source while it was alive
        self.hot_done = False
        self.done = False           # the multicast has terminated
        self.released = False
        self.present = []           # [(uid, label)] in subscription order
        self.muted = set()          # labels subscribed by `subfin` (a finished, silent observer): nothing is expected for them
        self.handle = {}            # label -> uid
        self.uid = 0
        self.s = 0
        self.t = 0

    def _connect(self):
        self.connected = True
        self.s += 1
        if self.cold is not None:
            d = []
            for v in self.cold:
                self.t += 1
                d += [f"{l}:N{v}" for _, l in self.present if l not in self.muted]
            d += [f"{l}:C" for _, l in self.present if l not in self.muted]
            self.done = True
            self.present = []
            return d
        self.wired = not self.hot_done
        return []

    def step(self, ev):
        d = []
        if ev[0] == "emitj":
            # the emission; from inside subscriber k's callback for it subscriber j joins (and misses the item in flight)
            d = self.step(["emit", ev[1], ev[2]])
            if any(x.startswith(f"{ev[3]}:N") for x in d):
                d += self.step(["sub", ev[4]])
            return d
        if ev[0] in ("sub", "subfin"):
            k = int(ev[1])
            if ev[0] == "subfin":
                self.muted.add(k)
            else:
                self.muted.discard(k)
            self.uid += 1
            self.handle[k] = self.uid
            if not self.done and not self.released:
                self.present.append((self.uid, k))
            if self.kind == "share" and not self.connected:
                d = self._connect()
        elif ev[0] == "unsub":
            k = int(ev[1])
            u = self.handle.pop(k, None)
            if u is not None:
                self.present = [(x, l) for x, l in self.present if x != u]
                if self.kind == "share" and self.connected and not self.present and not self.never_release:
                    self.released = True
        elif ev[0] == "connect":
            if self.kind == "publish" and not self.connected:
                d = self._connect()
        elif ev[0] == "emit":
            n = ev[2]
            if self.cold is None and not self.hot_done:
                term = n == "c" or n[0] == "e"
                if term:
                    self.hot_done = True
                if self.wired and not self.done and not self.released:
                    if not term:
                        self.t += 1
                    d = [f"{l}:{show_notif(n)}" for _, l in self.present if l not in self.muted]
                    if term:
                        self.done = True
                        self.present = []
        return d


class C11(Prop):
    pid = "C11"
    lean_module = "RxModel.Props.C11"
    design_ref = "DESIGN.md §6 C11, §7 finding 14"
    # transcription pins (DESIGN II.7, weakest tie): the token text of the hand-transcribed files is the one the model was made from
    tie_modules = {
        "RxModel.GenTie.PinsShare": [],
        # share / publish translated: first subscribe = register then connect, later ones register only; source subscribed once
        "RxModel.GenTie.Share": [],
        # the inner subject of publish / share: what `is_empty` counts (closed subscribers are NOT pruned by an emission)
        # is what RefCountSubscription::unsubscribe decides on
        "RxModel.GenTie.Subject": [], "RxModel.GenTie.SubjectThreads": [],
        "RxModel.GenTie.Subscriber": [], "RxModel.GenTie.SubscriberThreads": [],
    }
    rule = ("bounded-exhaustive histories over {sub k, unsub k (k<3, labels introduced in order), emit next / "
            "complete / error on the hot source, connect (publish)}: every history up to the tier's length "
            "(quick: hot 6, cold 7; thorough: hot 7, cold 8), for share and publish, cold from_iter and hot "
            "subject sources behind defer(count).tap(count), local and thread-safe flavours alternating; plus "
            "random histories up to 10 events.  Non-trivial = at least one delivery; distinct = distinct case text.")
    assumptions = [
        "sequential histories; probes do not re-enter the shared observable from their callbacks",
        "a subscriber that joins a `share` after its last subscriber left receives nothing (the shared "
        "observable has released its source); the tap counter placed between source and share is the witness "
        "for 'the source is no longer driven on the shared observable's behalf'",
        "`closed`/`len` of the inner subject (publish) are compared with the model only, not judged",
    ]
    modelled_not_verified = ("src/ops/ref_count.rs, src/observable/connectable_observable.rs, src/subject.rs, "
                             "src/subscriber.rs are hand transcriptions (RxModel/Subject/Share.lean), validated "
                             "only on the generated cases")

    def corpus(self):
        # corpus files carry no `model` field: the driver runs the transcription selected by MODEL
        out = super().corpus()
        for c in out:
            c.fields = [(k, v) for k, v in c.fields if k != "model"] + [("model", [MODEL])]
        return out

    # ------------------------------------------------------------ generator
    def histories(self, kind, hot, maxlen):
        """All canonical histories up to maxlen (labels introduced in order; `sub k` only when slot k
        is free; emit values 1,2,3.. in order; at most one terminal)."""
        out = []

        def rec(evs, live, used, nemit, term, connected):
            if evs:
                out.append(list(evs))
            if len(evs) >= maxlen:
                return
            for k in range(min(used + 1, 3)):
                if k not in live:
                    rec(evs + [["sub", str(k)]], live | {k}, max(used, k + 1), nemit, term, connected)
                else:
                    rec(evs + [["unsub", str(k)]], live - {k}, used, nemit, term, connected)
            if hot and not term:
                rec(evs + [["emit", "0", N(nemit + 1)]], live, used, nemit + 1, term, connected)
                rec(evs + [["emit", "0", "c"]], live, used, nemit, True, connected)
                rec(evs + [["emit", "0", ["e", "7"]]], live, used, nemit, True, connected)
            if hot and term and not evs[-1][0] == "emit":
                # one post-terminal emission
                rec(evs + [["emit", "0", N(9)]], live, used, nemit, term, connected)
            if kind == "publish" and not connected:
                rec(evs + [["connect"]], live, used, nemit, term, True)

        rec([], frozenset(), 0, 0, False, False)
        return out

    def cases(self, tier, seed):
        rng = random.Random(seed)
        hl, cl = (6, 7) if tier == "quick" else (7, 8)
        out = []
        i = 0
        for kind in ("share", "publish"):
            for src, hot, ml in ((["hot"], True, hl), (["iter", "1", "2"], False, cl), (["iter"], False, cl - 2)):
                for h in self.histories(kind, hot, ml):
                    i += 1
                    flavors = ("local", "threads") if tier != "quick" else (("local", "threads")[i % 2],)
                    for fl in flavors:
                        out.append(mk_case(kind, fl, src, h + [["q"]], {"kind": kind + "-" + src[0]}))
        # a subscriber whose observer is ALREADY finished when it subscribes (event `subfin`: a silent probe answering
        # is_finished() = true — what a completed subject or the notifier side of a finished take_until is): for the shared
        # observable it is a subscriber like any other; the others must be served as if it were an ordinary one (seed C11-8)
        for kind in ("share", "publish"):
            for h in self.histories(kind, True, hl - 1):
                subs = [j for j, e in enumerate(h) if e[0] == "sub"]
                for j in subs[:2]:
                    h2 = [list(e) for e in h]
                    h2[j] = ["subfin", h2[j][1]]
                    i += 1
                    out.append(mk_case(kind, ("local", "threads")[i % 2], ["hot"], h2 + [["q"]], {"kind": kind + "-subfin"}))
        n = 1500 if tier == "quick" else 15000
        for _ in range(n):
            kind = rng.choice(("share", "publish"))
            hot = rng.random() < 0.7
            src = ["hot"] if hot else ["iter"] + [str(x) for x in range(1, rng.randint(1, 4))]
            evs, live, val = [], set(), 0
            for _ in range(rng.randint(3, 10)):
                r = rng.random()
                if r < 0.3:
                    k = rng.randrange(3)
                    if k in live and rng.random() < 0.9:
                        continue
                    evs.append(["sub", str(k)])
                    live.add(k)
                elif r < 0.55:
                    k = rng.randrange(3)
                    evs.append(["unsub", str(k)])
                    live.discard(k)
                elif r < 0.85:
                    val += 1
                    evs.append(["emit", "0", N(val)])
                elif r < 0.9:
                    evs.append(["emit", "0", rng.choice(["c", ["e", "7"]])])
                elif r < 0.97:
                    evs.append(["connect"])
                else:
                    evs.append(["q"])
            out.append(mk_case(kind, rng.choice(("local", "threads")), src, evs + [["q"]],
                               {"kind": "random-" + kind}))
        # churn around a subscriber that has finished by itself: it joins (as an ordinary or as a finished observer), items
        # flow, others join and leave BETWEEN two emissions, it leaves last — and a late joiner must still be served by the
        # connected multicast (seed C11-9: the subject compacted its list when newcomers moved in, became really empty,
        # and the last RefCountSubscription tore the inner subject down under a still-connected share)
        for kind in ("share", "publish"):
            for first in ("subfin", "sub"):
                for churn in (0, 1, 2):
                    for mid_emit in (False, True):
                        for leave in (True, False):
                            for fl in ("local", "threads"):
                                evs, val = ([["connect"]] if kind == "publish" else []) + [[first, "0"]], 0
                                val += 1; evs.append(["emit", "0", N(val)])
                                for _ in range(churn):
                                    evs += [["sub", "1"], ["unsub", "1"]]
                                    if mid_emit:
                                        val += 1; evs.append(["emit", "0", N(val)])
                                val += 1; evs.append(["emit", "0", N(val)])
                                if leave:
                                    evs.append(["unsub", "0"])
                                evs.append(["sub", "2"])
                                for _ in range(2):
                                    val += 1; evs.append(["emit", "0", N(val)])
                                evs += [["q"], ["emit", "0", "c"], ["q"]]
                                out.append(mk_case(kind, fl, ["hot"], evs, {"kind": kind + "-churn"}))
        # a subscriber JOINS the shared observable from inside another subscriber's callback, in the middle of a broadcast
        # (event `emitj 0 <item> k j`): the joiner waits in the inner subject's chamber — the broadcast goes on to everybody
        # listed behind k, j misses the item in flight and gets every later one (seed C11-10: the join called retain() on
        # the observers cell the broadcast holds)
        for kind in ("share", "publish"):
            for fl in ("local", "threads"):
                for others in ([], ["1"], ["1", "2"]):
                    for k in ["0"] + others[:1]:
                        j = str(len(others) + 1) if len(others) < 2 else None
                        if j is None:
                            continue
                        for churn in (False, True):
                            evs = ([["connect"]] if kind == "publish" else []) + [["sub", "0"]] + [["sub", o] for o in others]
                            evs.append(["emit", "0", N(1)])
                            if churn and others:
                                evs += [["unsub", others[-1]], ["sub", others[-1]]]
                            evs.append(["emitj", "0", N(2), k, j])
                            evs += [["emit", "0", N(3)], ["q"], ["unsub", k], ["emit", "0", N(4)], ["emit", "0", "c"], ["q"]]
                            out.append(mk_case(kind, fl, ["hot"], evs, {"kind": kind + "-join-in-callback"}))
        # interleave (the runner shrinks only the first few hundred failures)
        rng.shuffle(out)
        return out + self.lock_cases(tier, seed)

    # --------------------------------------------------------------- oracle
    def lock_cases(self, tier, seed):
        """share_threads at lock level (C10's suite `locks`, roots `share …`): the lock program of every operation,
        recorded through hook H2, against the footprint model; the oracle checks that a broadcast of the inner
        subject is ONE critical section ("every subscriber present at an emission receives it" under concurrency)."""
        out = []
        # (straight from the generator, not through C10's plugin: that one draws share cases from this one)
        from .. import locksgen as lkg
        for c in lkg.cases(tier, seed):
            r = c.field("root") if c.suite == "locks" else None
            if r and isinstance(r[0], list) and r[0] and r[0][0] == "share":
                c.meta = dict(c.meta, kind="locks-share")
                out.append(c)
        return out

    def oracle(self, case, lines, model_lines=None):
        if case.suite == "locks":
            from .c06 import PROP as c06
            return c06.lock_oracle(case, lines)
        kind = case.field("kind")[0]
        ref = Ref(kind, case.field("src")[0])
        # what the recorded finding ("share never releases its source") makes of the same history: a deviation after the
        # release is THAT finding only if it is exactly this behaviour — anything else is a different violation
        kept = Ref(kind, case.field("src")[0], never_release=True)
        for k, ev in enumerate(case.events):
            body = lines.get(k)
            if body is None:
                return {"kind": "missing-line", "event": k, "detail": ""}
            if body == "PANIC":
                return {"kind": "panic", "event": k, "detail": "panic inside the library"}
            was_released = ref.released
            exp = ref.step(ev)
            exp_kept = kept.step(ev)
            parts = dict(p.split("=", 1) for p in body.split(" "))
            if ev[0] == "q":
                s, t, d = int(parts["srcsubs"]), int(parts["tap"]), None
            else:
                s, t = int(parts["s"]), int(parts["t"])
                d = [x for x in parts["d"].split(";") if x]
            # one source subscription, made lazily
            if s != ref.s:
                if ref.s == 0:
                    kd = "eager-connect"
                elif s > 1:
                    kd = "multiple-source-subscriptions"
                else:
                    kd = "source-subscription-count"
                return {"kind": kd, "event": k, "detail": f"source subscriptions {s}, want {ref.s}"}
            if d is not None and d != exp:
                if (was_released or ref.released) and d == exp_kept:
                    kd = "release-delivery"
                elif was_released or ref.released:
                    kd = "release-other-delivery"
                elif [x for x in exp if x not in d]:
                    kd = "multicast-missing"
                elif sorted(d) == sorted(exp):
                    kd = "multicast-order"
                else:
                    kd = "multicast-extra"
                return {"kind": kd, "event": k, "detail": f"deliveries {d}, want {exp}"}
            if t != ref.t:
                rel = was_released or ref.released
                kd = ("release-upstream" if t == kept.t else "release-other-upstream") if rel else "tap-count"
                return {"kind": kd, "event": k,
                        "detail": f"upstream tap ran {t} times, want {ref.t}"
                                  + (" (all subscribers of the share have unsubscribed)" if ref.released else "")}
        return None

    def nontrivial(self, case, lines):
        if case.suite == "locks":
            return any(b.startswith("t=") and len(b) > 2 for b in lines.values())
        return any(b.startswith("d=") and not b.startswith("d= ") for b in lines.values())

    def signature(self, case, failure):
        if case.suite == "locks":
            return f"{failure['kind']}|locks-share"
        return f"{failure['kind']}|share|{case.field('kind')[0]}|{case.field('src')[0][0]}"

    def shrink_candidates(self, case):
        if case.suite == "locks":
            from .c10 import PROP as c10
            return c10.shrink_candidates(case)   # (import at call time only)
        cands = []
        if case.flavor != "local":
            c = case.copy()
            c.flavor = "local"
            cands.append(c)
        for i in range(len(case.events) - 1, -1, -1):
            c = case.copy()
            del c.events[i]
            cands.append(c)
        src = case.field("src")[0]
        if src[0] == "iter" and len(src) > 1:
            c = case.copy()
            c.set_field("src", [src[:-1]])
            cands.append(c)
        return cands

    def extra_coverage(self, cases, impl):
        kinds = {}
        for c in cases:
            if c.suite == "locks":
                kinds["locks-share"] = kinds.get("locks-share", 0) + 1
                continue
            k = f"{c.field('kind')[0]}/{c.field('src')[0][0]}/{c.flavor}"
            kinds[k] = kinds.get(k, 0) + 1
        return {"kind_counts": kinds, "model": MODEL}


PROP = C11()
