"""C10 — thread-safe variants serialise delivery and cannot deadlock (lock-level LTS)."""
import itertools
import random

from ..case import Case
from ..runner import Prop

ELEMS = ["plain", "cell", "slot", "fin"]


def lock_part(body):
    """the lock trace of a line: `t=…` (suite locks) or the ` L=…` suffix (other suites, field locktrace)"""
    if body.startswith("t="):
        return body[2:]
    i = body.find(" L=")
    return body[i + 3:] if i >= 0 else None


def strip_lock(body):
    i = body.find(" L=")
    return body[:i] if i >= 0 else body


def parse_tokens(body):
    """`t=a2[0.1],c0[0.2]` -> [('a', 2, [0,1]), ('c', 0, [0,2])]"""
    toks = []
    part = lock_part(body)
    if part is None:
        return toks
    for t in part.split(","):
        if not t:
            continue
        if t.startswith("RELOCK"):
            toks.append(("R", int(t[6:]), []))
            continue
        kind, rest = t[0], t[1:]
        n, _, held = rest.partition("[")
        held = [int(x) for x in held.rstrip("]").split(".") if x]
        toks.append((kind, int(n), held))
    return toks


class C10(Prop):
    pid = "C10"
    lean_module = "RxModel.Props.C10"
    extra_modules = ("RxModel.Props.C06S", "RxModel.Props.C02S")
    design_ref = "DESIGN.md §6 C10"
    # critical sections read off the source (rs2lean/src/holds.rs): which calls are made while which shared cell is held — the policies P1–P7 and the pinned tables the footprint model was transcribed from
    tie_modules = {
        "RxModel.GenTie.Holds": [],
        "RxModel.GenTie.HoldsPins": [],
    }
    rule = ("a SubjectThreads with 1-3 subscribers, each behind a chain (<=3) of lock-free stages (map), shared cells "
            "(merge_threads), Option slots (take_until_threads) and finalize_threads; scripts of next / is_empty-len / "
            "retain / error / complete / unsubscribe(-all); every lock acquisition of the real code is recorded "
            "through hook H2 with the set of cells held at that moment, and every subscriber callback likewise "
            "(single thread). Compared token by token with the lock program `Conc.footprint` of the same operation "
            "on the same shape (cells renamed by first acquisition). The same over trees (vlib/locksgen.py): root "
            "SubjectThreads | BehaviorSubject<_, SubjectThreads> | share_threads() over a source that emits 0-2 items "
            "(and possibly a terminal) inside connect(); subscriber chains additionally over observe_on_threads / "
            "delay_threads (H1 executor: every task poll, the pending first poll of a delay task, error forwarded "
            "at once by delay); nested subjects / behaviour subjects as observers (3 levels); operations next / "
            "error / complete / is_finished / len / retain / unsubscribe on every subject of the tree, subscribing "
            "a new chain to any of them (first and later subscription of a share, greeting of a behaviour "
            "subject), unsubscribe() of every subscription (SubscriberThreads, FinalizerSubscription, "
            "MultiSubscriptionThreads with every TaskHandle, RefCountSubscription): all chains of <= 2 stages under "
            "each root, all nestings of chains of <= 1 stage, random larger trees with random scripts; only operations "
            "whose real run has no data-dependent early exit are generated (the generator keeps the book). "
            "Oracle on the implementation trace alone: no "
            "cell is re-acquired by its holder; the held-before relation over the whole case is acyclic (so a rank "
            "exists: hypothesis of rank_deadlock_free); every callback runs with its subscriber's slot held "
            "(hypothesis of callbacks_serialised); sections are properly nested. Suite `inject`: every one-preemption "
            "interleaving `first k critical sections of A, all of B, rest of A` of two SubjectThreads operations after "
            "every short prefix (see C06), replayed on the real code through hook H2 and on the step model of "
            "Props/C06S.lean; oracle: no PANIC, no HANG (+ the C06 clauses).")
    assumptions = ["the LTS abstracts data: std::sync::Mutex, the OS scheduler and the memory model are trusted to implement it",
                   "callers do not re-enter the same pipeline from a callback (as in the property)",
                   "traces are recorded on one thread; real interleavings are covered by the LTS theorems, not replayed"]
    modelled_not_verified = ("all Rust code; guard lifetimes (temporaries living to the end of `if let` bodies) are read "
                             "from the source and validated by these traces")

    def cases(self, tier, seed):
        rng = random.Random(seed + 10)
        out = []
        chains = [[]]
        for n in (1, 2, 3):
            chains += [list(c) for c in itertools.product(ELEMS, repeat=n)]
        nsc = 600 if tier == "quick" else 6000
        for _ in range(nsc):
            k = rng.randint(1, 3)
            subs = [rng.choice(chains) for _ in range(k)]
            has_cell = any("cell" in c for c in subs)
            # the first `next` moves the subscribers from the chamber into the live list (after that the
            # lock program of every operation is data-independent until somebody leaves)
            evs = [["next", "0"]]
            for _ in range(rng.randint(1, 5)):
                evs.append(rng.choice([["next", "1"], ["next", "2"], ["size"], ["retain"]]))
            r = rng.random()
            if r < 0.4:
                evs.append(["error", "3"] if has_cell or rng.random() < 0.5 else ["complete"])
            elif r < 0.55:
                evs.append(["unsuball"])
            elif r < 0.7:
                plain_only = [u for u, c in enumerate(subs) if all(e == "plain" for e in c)]
                if plain_only:
                    evs.append(["unsub", str(rng.choice(plain_only))])
            out.append(Case("locks", "threads", [("subs", subs)], evs, {"kind": "random", "n": k}))
        # every single chain alone, full script
        for c in chains:
            term = ["error", "3"] if "cell" in c else ["complete"]
            out.append(Case("locks", "threads", [("subs", [c])],
                            [["next", "1"], ["size"], ["retain"], ["next", "2"], term], {"kind": "single-chain"}))
        # the rest of the footprint model: behaviour subjects, share / ref_count, scheduler tasks, nested subjects,
        # subscription while others exist, every unsubscribe (vlib/locksgen.py)
        from .. import locksgen as lkg
        out += lkg.cases(tier, seed)
        # lock traces of whole pipelines (field `locktrace`): merge_all_threads with subscription and
        # unsubscription, scheduler chains (observe_on/delay/debounce/… _threads) with task polls
        import importlib
        from .. import timegen as tg
        try:
            c05 = importlib.import_module("vlib.props.c05").PROP
            fl = [c for c in c05.cases("quick", seed) if c.flavor == "threads" and not c05.compare_from(c)]
            rng.shuffle(fl)
            for c in fl[: 1500 if tier == "quick" else 15000]:
                d = c.copy()
                d.fields = [("locktrace", ["1"])] + d.fields
                if rng.random() < 0.6 and not any(e[0] == "unsub" for e in d.events):
                    d.events = d.events[: rng.randint(1, len(d.events))] + [["unsub"]]
                d.meta = {"kind": "flatten-locktrace"}
                out.append(d)
        except Exception as ex:
            print(f"note: C10 skips flatten lock traces: {ex}")
        for i in range(1500 if tier == "quick" else 15000):
            src = tg.sources(rng, ["hot", "hot", "interval", "timer", "iter"])
            pipe = tg.chain(rng, src, list(tg.TIME_OPS), rng.randint(1, 3), p_sync=0.3)
            evs = tg.events(rng, rng.randint(3, 12), hot=(src[0] == "hot"),
                            mode="mixed" if i % 2 else "fifo", unsub_p=0.15)
            out.append(Case("time", "threads", [("locktrace", ["1"]), ("pipe", [pipe])], evs,
                            {"kind": "time-locktrace"}))
        # a subscriber that feeds the source of its OWN pipeline from inside its callback, every hop through a scheduler
        # task (delay_threads / observe_on_threads; the count-down family of C07): the emission is made while the
        # delivering task's handle is held — every call must still return (seed C10-9: `retain` asked every handle of the
        # composite, the one the thread was holding included)
        try:
            c07 = importlib.import_module("vlib.props.c07").PROP
            for c in c07.cases("quick", seed):
                if c.meta.get("kind") == "feedback" and c.flavor == "threads":
                    d = c.copy()
                    d.meta = {"kind": "feedback-threads"}
                    out.append(d)
        except Exception as ex:
            print(f"note: C10 skips the feedback family: {ex}")
        # lock traces of the other thread-safe suites (harness field `ltrace`, any suite): finalize_threads chains,
        # group_by over SubjectThreads, share/ref_count, the subject family — no re-lock, acyclic held-before
        for name, cap in (("c15", 1500), ("c20", 1000), ("c11", 1000), ("subject", 1000)):
            try:
                if name == "subject":
                    # (not through C06's plugin: it draws its lock-level cases from this one)
                    from .. import subjgen as sg
                    # no unsubscription from inside a callback (`sub (u k)`): C10 assumes non re-entrant callers,
                    # a subscriber closing its own slot while it is being called re-locks that slot
                    hs = [sg.rand_history(rng, rng.randint(4, 16), behavior=False) for _ in range(cap * 2)]
                    hs = [h for h in hs if not any(isinstance(x, list) and x and x[0] == "u" for op in h for x in op)]
                    cs = [sg.mk_case("subject", "threads", h, "random", rng=rng) for h in hs[:cap]]
                else:
                    owner = importlib.import_module(f"vlib.props.{name}").PROP
                    # (cases their own check judges by its oracle alone — no model — have no lock program here either)
                    cs = [c for c in owner.cases("quick", seed)
                          if c.flavor == "threads" and c.suite in ("finalize", "groupby", "share")
                          and not owner.compare_from(c)]
            except Exception as ex:            # pragma: no cover
                print(f"note: C10 skips the {name} lock traces: {ex}")
                continue
            rng.shuffle(cs)
            for c in cs[: cap if tier == "quick" else cap * 5]:
                d = c.copy()
                d.fields = [("ltrace", ["1"])] + d.fields
                d.meta = {"kind": name + "-locktrace"}
                out.append(d)
        # one-preemption interleavings of two SubjectThreads operations on the real code (no panic / no hang)
        from .. import injgen as ig
        out += ig.cases(tier, seed)
        # two real OS threads at lock granularity over the scheduler-using operators (suite `coop`, see C02):
        # no PANIC / DEADLOCK / HANG in any replayed interleaving; model = Conc/TimeSteps.lean
        # (`C02S_no_deadlock`, `C02S_mutual_exclusion`, `C02S_ranked`)
        from .. import coopgen as cg
        out += cg.cases(tier, seed)
        # … and over the synchronous thread-safe combinators (merge / zip / combine_latest / with_latest_from /
        # take_until / skip_until / sample / buffer, under and above take / map / finalize_threads): two emitters,
        # emitter vs unsubscribe(), terminal vs item / terminal / unsubscribe(), every preemption point
        out += cg.sync_cases(tier, seed)
        return out

    def compare_from(self, case):
        if case.suite == "coop":
            from .. import coopgen as cg
            return 0 if cg.modelled(case) else len(case.events)
        return 0

    def project(self, body):
        return strip_lock(body)

    def oracle(self, case, lines, model_lines=None):
        if case.suite == "inject":
            from .. import injgen as ig
            return ig.oracle(case, lines)
        if case.suite == "coop":
            from .. import coopgen as cg
            if case.meta.get("kind") == "coop-sync" or not cg.has_time_op(case):
                return cg.sync_oracle(case, lines)
            return cg.oracle(case, lines, quiet=False)
        if case.suite == "time":
            # cancellation is serialised with delivery: the poll of one task runs inside its handle's section
            from .c19 import handle_section_failure
            f = handle_section_failure(case, lines)
            if f:
                return f
        edges = set()
        slot_of = {}
        guards = {}
        called = set()
        for k in range(len(case.events)):
            b = lines.get(k)
            if b is None:
                continue
            if b == "PANIC":
                return {"kind": "panic", "event": k, "detail": b}
            for kind, n, held in parse_tokens(b):
                if kind == "R":
                    return {"kind": "relock", "event": k, "detail": f"cell {n} re-acquired by its holder: {b}"}
                if kind == "a":
                    if n in held:
                        return {"kind": "relock", "event": k, "detail": b}
                    for h in held:
                        edges.add((h, n))
                if kind == "c" and case.suite == "locks" and case.field("root"):
                    # a probe is called under a cell that guards it (hypothesis of callbacks_serialised): all its
                    # callbacks share a held cell — but the greeting of a behaviour subject, which goes to an
                    # observer no other thread can know yet: since fix ebc132b it is made with NO cell held (the value
                    # is read out first); exempt is exactly the FIRST callback ever of a subscriber, inside the
                    # `subscribe` event that creates it
                    greeting = "subscribe" in case.events[k] and n not in called
                    called.add(n)
                    if not held and not greeting:
                        return {"kind": "callback-unguarded", "event": k,
                                "detail": f"callback of subscriber {n} with no cell held: {b}"}
                    if "subscribe" not in case.events[k]:
                        g = guards.setdefault(n, set(held))
                        g &= set(held)
                        if not g:
                            return {"kind": "callback-slot-changed", "event": k,
                                    "detail": f"the callbacks of subscriber {n} have no guarding cell in common: {b}"}
                elif kind == "c" and case.suite == "locks":
                    if not held:
                        return {"kind": "callback-unguarded", "event": k,
                                "detail": f"callback of subscriber {n} with no cell held: {b}"}
                    # the subscriber's own slot: the first cell acquired under the subject's observers cell
                    s = held[1] if len(held) > 1 else held[0]
                    if slot_of.setdefault(n, s) != s:
                        return {"kind": "callback-slot-changed", "event": k,
                                "detail": f"subscriber {n} called under slot {s}, before under {slot_of[n]}"}
        # acyclicity of held-before (a rank exists)
        nodes = {x for e in edges for x in e}
        succ = {x: [b for a, b in edges if a == x] for x in nodes}
        state = {}

        def dfs(x):
            state[x] = 1
            for y in succ.get(x, []):
                if state.get(y) == 1:
                    return True
                if y not in state and dfs(y):
                    return True
            state[x] = 2
            return False
        for x in nodes:
            if x not in state and dfs(x):
                return {"kind": "lock-order-cycle", "event": 0,
                        "detail": f"held-before relation has a cycle: {sorted(edges)}"}
        return None

    def signature(self, case, failure):
        if case.suite == "inject":
            from .. import injgen as ig
            return ig.signature(case, failure)
        if case.suite == "coop":
            from .. import coopgen as cg
            return cg.signature(case, failure)
        if case.suite != "locks":
            return f"{failure['kind']}|{case.suite}"
        if case.field("root"):
            from .. import locksgen as lkg
            ops = sorted({e[2] if e[0] == "on" else e[0] for e in case.events} & {"subscribe", "unsub", "poll", "pend"})
            return f"{failure['kind']}|locks|{','.join(sorted(lkg.atoms(case.field('root'))))}|{','.join(ops)}"
        elems = sorted({e for c in case.field("subs") for e in c})
        return f"{failure['kind']}|locks|{','.join(elems)}"

    def shrink_candidates(self, case):
        cands = []
        if case.suite == "inject":
            from .. import injgen as ig
            return ig.shrink_candidates(case)
        if case.suite == "coop":
            from .. import coopgen as cg
            return cg.shrink_candidates(case)
        if case.suite != "locks":
            for i in range(len(case.events) - 1, -1, -1):
                if case.events[i][0] == "sub":
                    continue
                c = case.copy()
                del c.events[i]
                cands.append(c)
            return cands
        if case.field("root"):
            from .. import locksgen as lkg
            return lkg.shrink_candidates(case)
        for i in range(len(case.events) - 1, 0, -1):     # keep the leading `next`
            c = case.copy()
            del c.events[i]
            cands.append(c)
        subs = case.field("subs")
        if len(subs) > 1:
            for i in range(len(subs)):
                # dropping a subscriber renumbers the later ones: only valid without `unsub u`
                if any(e[0] == "unsub" for e in case.events):
                    continue
                c = case.copy()
                c.set_field("subs", subs[:i] + subs[i + 1:])
                cands.append(c)
        for i, ch in enumerate(subs):
            for j in range(len(ch)):
                c = case.copy()
                c.set_field("subs", subs[:i] + [ch[:j] + ch[j + 1:]] + subs[i + 1:])
                cands.append(c)
        return cands

    def nontrivial(self, case, lines):
        if case.suite == "inject":
            from .. import injgen as ig
            return ig.nontrivial(case, lines)
        if case.suite == "coop":
            from .. import coopgen as cg
            return cg.nontrivial(case, lines)
        return any(len(b) > 2 for b in lines.values())


PROP = C10()
