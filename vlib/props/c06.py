"""C06 — subjects deliver each item once, in order, to exactly the current subscribers
(sequential part; the interleavings of SubjectThreads are the LTS part)."""
import random

from .. import injgen as ig
from .. import subjgen as sg
from ..runner import Prop


class C06(Prop):
    pid = "C06"
    lean_module = "RxModel.Props.C06"
    extra_modules = ("RxModel.Props.C06T", "RxModel.Props.C06S")
    design_ref = "DESIGN.md §6 C06"
    rule = ("bounded-exhaustive: every sequence (length <= 4 for all five subject "
            "types; thorough: Subject <= 5) over the 15-letter alphabet {subscribe with script none | subscribe-in-"
            "callback at item 1 | at item 2 | unsubscribe subscriber 0/1/2 in callback, unsubscribe-one 0/1/2, "
            "next, error, complete, retain, unsubscribe-subject, clone (later ops go through the newest clone)} "
            "creating at most 3 subscribers; plus random histories of length 6..24 over up to 6 subscribers with "
            "random scripts and random clone routing, all five subject types. Non-trivial = at least one "
            "delivery; distinct = distinct (flavor, history) text. Suite `inject` (SubjectThreads, step model "
            "Conc/SubjectSteps.lean): 0-3 subscribers, every prefix of <= 2 (thorough: 3) plain operations, then "
            "`inj k A B` = the first k critical sections of A, all of B, the rest of A, replayed on the real code "
            "through hook H2, for every preemptible A in {next, error, complete, unsubscribe, len+is_empty}, every "
            "k in 1..sections(A)-1 and every B in {next, error, complete, unsubscribe, subscribe, unsub u, retain, "
            "size}, then an aftermath (size, next); plus random histories of 6..20 events with several `inj`.")
    assumptions = [
        "single thread; no re-entrant emission from a callback (excluded by the property)",
        "a probe unsubscribing ITSELF through its handle inside its own callback is outside the property: "
        "the local types panic (double RefCell borrow), the thread-safe ones would self-deadlock (the harness "
        "reports that as PANIC without trying); model and harness agree on PANIC and the oracle stops there",
        "the MutRef flavors' probes do not mutate the borrowed item/error",
    ]
    modelled_not_verified = ("src/subject.rs, src/subscriber.rs, src/observer.rs(impl_rc_observer): hand "
                             "transcription (Subject/Subject.lean) validated on the generated histories; "
                             "lock programs of SubjectThreads operations: Conc/Footprint.lean, compared with the H2 trace; "
                             "critical sections of SubjectThreads with data: Conc/SubjectSteps.lean, validated by "
                             "one-preemption replays on the real code (suite inject)")

    # translator tie: Subject / SubjectThreads (the compiler's own expansion of the subject macros) and the
    # Subscriber slot, generated from the current source, are the list part / the alive bit of the subject model
    tie_modules = {
        # subject.rs / behavior_subject.rs / start.rs pinned wholesale on top of their semantic ties
        "RxModel.GenTie.PinsSubject": [],
        # critical sections read off the source (rs2lean/src/holds.rs): which calls are made while which shared cell is held — the policies (P4: a subject delivers under its observers cell only, never under the chamber)
        "RxModel.GenTie.Holds": [],
        "RxModel.GenTie.Subject": [],
        "RxModel.GenTie.SubjectThreads": [],
        "RxModel.GenTie.Subscriber": [],
        "RxModel.GenTie.SubscriberThreads": [],
        "RxModel.GenTie.RcObserver": [],
    }

    def cases(self, tier, seed):
        rng = random.Random(seed)
        out = []
        big, small = (4, 4) if tier == "quick" else (5, 4)
        for fl in sg.SUBJECT_FLAVORS:
            L = big if fl == "local" else small
            for ops in sg.enum_histories(sg.SUBJECT_ALPHA, L):
                out.append(sg.mk_case("subject", fl, ops, "exhaustive"))
        n = 600 if tier == "quick" else 6000
        for fl in sg.SUBJECT_FLAVORS:
            for _ in range(n):
                ops = sg.rand_history(rng, rng.randint(6, 24), behavior=False)
                out.append(sg.mk_case("subject", fl, ops, "random", rng=rng))
        # wide histories: up to 14 subscribers alive together (inline capacities, free lists and other size
        # thresholds of an implementation lie beyond the small exhaustive ranges), 40–90 operations
        for fl in sg.SUBJECT_FLAVORS:
            for _ in range(n // 4):
                ops = sg.rand_history(rng, rng.randint(40, 90), behavior=False, maxsub=12)
                out.append(sg.mk_case("subject", fl, ops, "wide", rng=rng))
        # lock level (the premise of the C06T theorems): the lock program of every SubjectThreads operation as
        # recorded through hook H2, compared token by token with the model's (the population of C10's suite
        # `locks`); the oracle below checks the one fact the interleaving argument rests on
        try:
            import importlib
            c10 = importlib.import_module("vlib.props.c10").PROP
            for c in c10.cases(tier, seed):
                if c.suite == "locks":
                    c.meta = dict(c.meta, kind="locks-" + str(c.meta.get("kind")))
                    out.append(c)
        except Exception as ex:               # pragma: no cover
            print(f"note: C06 skips the lock-level cases: {ex}")
        # one-preemption interleavings of two operations replayed on the real SubjectThreads (hook H2) and on
        # the step model of Props/C06S.lean
        out += ig.cases(tier, seed)
        return out

    def oracle(self, case, lines, model_lines=None):
        if case.suite == "locks":
            return self.lock_oracle(case, lines)
        if case.suite == "inject":
            return ig.oracle(case, lines)
        return sg.check_history(case, lines, behavior=False)

    def lock_oracle(self, case, lines):
        """A broadcast is one critical section of the subject's `observers` cell: every callback of an
        emission runs while the emitting call still holds the cell it acquired first (otherwise a concurrent
        next / complete / unsubscribe finds the subject empty or interleaves with the broadcast)."""
        from .c10 import parse_tokens
        for k, e in enumerate(case.events):
            b = lines.get(k)
            if b is None or e[0] not in ("next", "error", "complete"):
                continue
            if b == "PANIC":
                return {"kind": "panic", "event": k, "detail": b}
            toks = parse_tokens(b)
            root = case.field("root")
            if root and root[0][0] == "behavior" and e[0] == "next":
                toks = toks[1:]              # BehaviorSubject::next stores the value (its own cell) first
            first = next((n for kind, n, held in toks if kind == "a"), None)
            for kind, n, held in toks:
                if kind == "c" and first is not None and first not in held:
                    return {"kind": "broadcast-not-atomic", "event": k,
                            "detail": f"callback of subscriber {n} runs with cells {held} held, the subject's "
                                      f"cell {first} was released before the broadcast ended: {b}"}
        return None

    def nontrivial(self, case, lines):
        if case.suite == "inject":
            return ig.nontrivial(case, lines)
        return any(not b.startswith("o= ") for b in lines.values())

    def signature(self, case, failure):
        if case.suite == "inject":
            return ig.signature(case, failure)
        return f"{failure['kind']}|{case.suite}|{case.flavor}"

    def shrink_candidates(self, case):
        if case.suite == "locks":
            from .c10 import PROP as c10
            return c10.shrink_candidates(case)
        if case.suite == "inject":
            return ig.shrink_candidates(case)
        return sg.shrink_candidates(case)

    def extra_coverage(self, cases, impl):
        fl = {}
        for c in cases:
            fl[c.flavor] = fl.get(c.flavor, 0) + 1
        panics = sum(1 for c in cases if any(b.startswith("PANIC") for b in impl.get(c.cid, {}).values()))
        return {"flavor_counts": fl, "histories_ending_in_self_unsubscribe_panic": panics}


PROP = C06()
