"""C06 — subjects deliver each item once, in order, to exactly the current subscribers
(sequential part; the interleavings of SubjectThreads are the LTS part)."""
import random

from .. import subjgen as sg
from ..runner import Prop


class C06(Prop):
    pid = "C06"
    lean_module = "RxModel.Props.C06"
    extra_modules = ("RxModel.Props.C06T",)
    design_ref = "DESIGN.md §6 C06"
    rule = ("bounded-exhaustive: every sequence (length <= 4 for all five subject "
            "types; thorough: Subject <= 5) over the 15-letter alphabet {subscribe with script none | subscribe-in-"
            "callback at item 1 | at item 2 | unsubscribe subscriber 0/1/2 in callback, unsubscribe-one 0/1/2, "
            "next, error, complete, retain, unsubscribe-subject, clone (later ops go through the newest clone)} "
            "creating at most 3 subscribers; plus random histories of length 6..24 over up to 6 subscribers with "
            "random scripts and random clone routing, all five subject types. Non-trivial = at least one "
            "delivery; distinct = distinct (flavor, history) text.")
    assumptions = [
        "single thread; no re-entrant emission from a callback (excluded by the property)",
        "a probe unsubscribing ITSELF through its handle inside its own callback is outside the property: "
        "the local types panic (double RefCell borrow), the thread-safe ones would self-deadlock (the harness "
        "reports that as PANIC without trying); model and harness agree on PANIC and the oracle stops there",
        "the MutRef flavors' probes do not mutate the borrowed item/error",
    ]
    modelled_not_verified = ("src/subject.rs, src/subscriber.rs, src/observer.rs(impl_rc_observer): hand "
                             "transcription (Subject/Subject.lean) validated on the generated histories; "
                             "lock-level behaviour of SubjectThreads is not part of this file")

    def cases(self, tier, seed):
        rng = random.Random(seed)
        out = []
        big, small = (4, 4) if tier == "quick" else (5, 4)
        for fl in sg.SUBJECT_FLAVORS:
            L = big if fl == "local" else small
            for ops in sg.enum_histories(sg.SUBJECT_ALPHA, L):
                out.append(sg.mk_case("subject", fl, ops, "exhaustive"))
        n = 600 if tier == "quick" else 6000
        for fl in sg.SUBJECT_FLAVORS:
            for _ in range(n):
                ops = sg.rand_history(rng, rng.randint(6, 24), behavior=False)
                out.append(sg.mk_case("subject", fl, ops, "random", rng=rng))
        return out

    def oracle(self, case, lines, model_lines=None):
        return sg.check_history(case, lines, behavior=False)

    def nontrivial(self, case, lines):
        return any(not b.startswith("o= ") for b in lines.values())

    def signature(self, case, failure):
        return f"{failure['kind']}|{case.suite}|{case.flavor}"

    def shrink_candidates(self, case):
        return sg.shrink_candidates(case)

    def extra_coverage(self, cases, impl):
        fl = {}
        for c in cases:
            fl[c.flavor] = fl.get(c.flavor, 0) + 1
        panics = sum(1 for c in cases if any(b.startswith("PANIC") for b in impl.get(c.cid, {}).values()))
        return {"flavor_counts": fl, "histories_ending_in_self_unsubscribe_panic": panics}


PROP = C06()
