"""C13 — cold pipelines are lazy and every subscription is independent (suite `multi`)."""
import random

from .. import pipegen as pg
from .. import sx
from ..case import Case
from ..runner import Prop


def cold_tree(rng, variants, depth):
    """pipelines over cold sources only (incl. defer / of_fn / start with call counters)."""
    if depth <= 0 or rng.random() < 0.15:
        r = rng.random()
        if r < 0.2:
            return ["offn", str(rng.choice(pg.ALPHA))]
        if r < 0.3:
            return ["start", str(rng.choice(pg.ALPHA))]
        return pg.cold_sources(rng)
    r = rng.random()
    if r < 0.15:
        # (the harness builds the deferred pipeline inside the supplier closure, so a `tap` in there would
        # get a fresh counter per subscription: a harness artefact — no taps under defer)
        return ["defer", cold_tree(rng, [v for v in variants if v[0] != "tap"], depth - 1)]
    if r < 0.35:
        k = rng.choice(pg.TWO)
        return [k, cold_tree(rng, variants, rng.randint(0, depth - 1)),
                cold_tree(rng, variants, rng.randint(0, depth - 1))]
    return rng.choice(variants) + [cold_tree(rng, variants, depth - 1)]


def has_from_iter(pipe):
    if isinstance(pipe, list) and pipe:
        if pipe[0] in ("iter", "repeat", "iterl"):
            return True
        return any(has_from_iter(x) for x in pipe[1:] if isinstance(x, list))
    return False


def lazify(rng, pipe):
    """half of the `iter` leaves become `iterl`: from_iter over a collection whose `into_iter()` is counted
    like a user closure (laziness: it must not run before a subscription, and once per subscription)"""
    if not isinstance(pipe, list) or not pipe:
        return pipe
    if pipe[0] == "iter":
        return (["iterl"] + pipe[1:]) if rng.random() < 0.5 else pipe
    if pipe[0] in pg.SOURCES:
        return pipe
    return [lazify(rng, x) if isinstance(x, list) and x and isinstance(x[0], str) and
            x[0] not in ("n", "e", "p", "l", "s", "o") else x for x in pipe]


def drop_taps_over_iter(pipe):
    """`from_iter` stops pulling once its observer is finished (fix 13); the tree model emits the
    whole sequence (the difference is invisible to every subscriber, but a `tap` above such a source
    would count fewer calls) — no tap above from_iter-based sources."""
    if not isinstance(pipe, list) or not pipe:
        return pipe
    new = [drop_taps_over_iter(x) if isinstance(x, list) and x and isinstance(x[0], str) and
           x[0] not in ("n", "e", "p", "l", "s", "o") else x for x in pipe]
    if new[0] == "tap" and has_from_iter(new):
        return new[-1]
    return new


class C13(Prop):
    pid = "C13"
    lean_module = "RxModel.Props.C13"
    design_ref = "DESIGN.md §6 C13"
    # transcription pins (DESIGN II.7, weakest tie): the token text of the hand-transcribed files is the one the model was made from
    tie_modules = {
        # the wiring ties: every piece of per-subscription state (slots, queues, composites, handler cells) is created INSIDE
        # actual_subscribe, never in the operator value that clones share (seeds C13-6, -7, -8 moved it there)
        "RxModel.GenTie.WiringBuffer": [],
        "RxModel.GenTie.WiringCombineLatest": [],
        "RxModel.GenTie.WiringCombineLatestThreads": [],
        "RxModel.GenTie.WiringDebounce": [],
        "RxModel.GenTie.WiringDelay": [],
        "RxModel.GenTie.WiringDelayThreads": [],
        "RxModel.GenTie.WiringFinalize": [],
        "RxModel.GenTie.WiringFinalizeThreads": [],
        "RxModel.GenTie.WiringMerge": [],
        "RxModel.GenTie.WiringMergeThreads": [],
        "RxModel.GenTie.WiringObserveOn": [],
        "RxModel.GenTie.WiringObserveOnThreads": [],
        "RxModel.GenTie.WiringSample": [],
        "RxModel.GenTie.WiringSampleThreads": [],
        "RxModel.GenTie.WiringSkipUntil": [],
        "RxModel.GenTie.WiringSkipUntilThreads": [],
        "RxModel.GenTie.WiringTakeUntil": [],
        "RxModel.GenTie.WiringTakeUntilThreads": [],
        "RxModel.GenTie.WiringThrottle": [],
        "RxModel.GenTie.WiringWithLatestFrom": [],
        "RxModel.GenTie.WiringWithLatestFromThreads": [],
        "RxModel.GenTie.WiringZip": [],
        "RxModel.GenTie.WiringZipThreads": [],
        "RxModel.GenTie.PinsCold": [],
    }
    rule = ("random operator trees (depth<=5) over cold sources (of, of_option, of_result, of_fn, start, from_iter, "
            "repeat, empty, never, throw, create, defer) with every stateful operator of the catalogue (take, skip, "
            "scan, distinct*, last, default_if_empty, buffer_with_count, pairwise, zip/merge/… queues); ONE pipeline "
            "value is built, then clones of it are subscribed 2-4 times: successively, and nested (a probe subscribes "
            "another clone from inside its k-th item); hot variants interleave source events between subscriptions. "
            "Compared: every tagged log, tap / closure-call counters. Oracle on the implementation: before the first "
            "subscription nothing was delivered and no closure ran; all subscriptions of a cold pipeline see the same "
            "log; of_fn/start/defer closures ran exactly (#subscriptions x #closures) times.")
    assumptions = ["hot pipelines are compared with the model only (their subscriptions legitimately see different suffixes)"]
    modelled_not_verified = "all Rust code; `Clone` of operator values (derive(Clone)) is what copies operator parameters"

    def cases(self, tier, seed):
        rng = random.Random(seed + 13)
        variants = [v for v in pg.single_variants(3) if v[0] != "tap"] + [["tap"]]
        out = []
        n = 8000 if tier == "quick" else 80000
        for i in range(n):
            pipe = lazify(rng, drop_taps_over_iter(cold_tree(rng, variants, rng.randint(1, 5))))
            evs = [["q", "counters"]]
            k = rng.randint(2, 4)
            for j in range(k):
                if rng.random() < 0.3:
                    evs.append(["sub", "nest", str(rng.randint(0, 2))])
                else:
                    evs.append(["sub"])
                if rng.random() < 0.3:
                    evs.append(["q", "counters"])
            evs.append(["q", "counters"])
            out.append(Case("multi", "threads" if rng.random() < 0.3 else "local", [("pipe", [pipe])], evs,
                            {"kind": "cold"}))
        for i in range(n // 4):
            nhot = rng.randint(1, 2)
            pipe = drop_taps_over_iter(pg.rand_tree(rng, variants, rng.randint(1, 4), nhot))
            evs = [["q", "counters"]]
            for _ in range(rng.randint(2, 8)):
                if rng.random() < 0.3:
                    # (nested subscription only for cold pipelines: with hot leaves the order in which the
                    # two subscriptions register with a subject depends on where the nesting happens)
                    evs.append(["sub"])
                else:
                    evs += pg.rand_events(rng, nhot, 1)
            evs.append(["q", "counters"])
            out.append(Case("multi", "threads" if rng.random() < 0.3 else "local", [("pipe", [pipe])], evs,
                            {"kind": "hot"}))
        # targeted: SEVERAL `tap`s whose call counts differ (an operator between them drops items; one tap on each
        # side of a two-input operator): the counter list is compared in construction order, which a single tap
        # or equal counts cannot pin down (model: `Node.taps`; found unexercised by tools/model_mutants.py)
        def created(vals, term="c"):
            return ["create"] + [sx.N(v) for v in vals] + ([term] if term else [])
        multi_tap = []
        for mid in (["take", "1"], ["skip", "1"], ["filter", "even"], ["takelast", "1"], ["first"], ["distinct"]):
            multi_tap.append(["tap"] + [mid + [["tap", created([1, 2, 2, 3])]]])
            multi_tap.append(["tap"] + [["map", "add1", mid + [["tap", ["skip", "1", ["tap", created([1, 2, 2, 3])]]]]]])
        for k in pg.TWO:
            multi_tap.append([k, ["tap", created([1, 2, 3])], ["tap", created([7])]])
            multi_tap.append([k, ["tap", created([7], None)], ["tap", ["take", "2", ["tap", created([1, 2, 3])]]]])
            multi_tap.append(["tap", [k, ["take", "1", ["tap", created([1, 2])]], ["tap", created([7, 8, 9])]]])
        for pipe in multi_tap:
            for fl in ("local", "threads"):
                out.append(Case("multi", fl, [("pipe", [pipe])],
                                [["q", "counters"], ["sub"], ["q", "counters"], ["sub"], ["q", "counters"]],
                                {"kind": "multi-tap"}))
        # targeted: ONE stateful operator over hot inputs, subscriptions of clones ALIVE TOGETHER (a later
        # subscription, or an event of one subscription's second input, must not disturb the state another
        # subscription has built up: flags, queues, counters created per subscription, not per operator value)
        singles = [v for v in variants if v[0] != "tap"]
        for i in range(n // 2):
            if i % 2 == 0:
                pipe = [rng.choice(pg.TWO), ["hot", "0"], ["hot", "1"]]
                nhot = 2
            else:
                pipe = rng.choice(singles) + [["hot", "0"]]
                nhot = 1
            if rng.random() < 0.3:
                pipe = rng.choice(singles) + [pipe]
            evs = [["sub"]]
            for _ in range(rng.randint(3, 9)):
                if rng.random() < 0.25:
                    evs.append(["sub"])
                else:
                    evs += pg.rand_events(rng, nhot, 1, malformed=0.1)
            out.append(Case("multi", "threads" if rng.random() < 0.3 else "local", [("pipe", [pipe])], evs,
                            {"kind": "hot-together"}))
        # scheduler-using operators (suite `time`, field `twosubs`): two subscriptions of clones of ONE pipeline
        # value alive together on one executor and one clock; FIFO executor only (`run`), so that each
        # subscription's own tasks keep their order whether or not the other subscription exists.  No Lean model
        # of two chain subscriptions: the oracle is the independence of the implementation from itself (solo runs)
        from .. import timegen as tg
        for i in range(n // 4):
            src = rng.choice([["hot", "0"], ["hot", "0"], ["create", sx.N(1), sx.N(2)], ["iter", "1", "2", "3"]])
            pipe = tg.chain(rng, src, ["delay", "observeon", "debounce", "throttle", "buftime", "bufcounttime",
                                       "subscribeon", "delaysub"], rng.randint(1, 2), p_sync=0.3)
            evs = [["sub"]]
            k, second, done1, done2 = 1, False, False, False
            for _ in range(rng.randint(4, 12)):
                r = rng.random()
                if not second and r < 0.3:
                    evs.append(["sub2"]); second = True
                elif r < 0.55 and src[0] == "hot":
                    evs.append(["emit", "0", sx.N(k)]); k += 1
                elif r < 0.6 and src[0] == "hot":
                    evs.append(["emit", "0", rng.choice(["c", ["e", "3"]])])
                elif r < 0.8:
                    evs.append(["adv", str(rng.choice([1, 1, 2, 3, 5]))])
                elif r < 0.93:
                    evs.append(["run"])
                elif r < 0.965 and not done1:
                    evs.append(["unsub"]); done1 = True
                elif second and not done2:
                    evs.append(["unsub2"]); done2 = True
            if not second:
                evs.insert(rng.randint(1, len(evs)), ["sub2"])
            evs += [["run"], ["adv", "6"], ["run"], ["adv", "6"], ["run"]]
            out.append(Case("time", "threads" if rng.random() < 0.3 else "local",
                            [("twosubs", ["1"]), ("pipe", [pipe])], evs, {"kind": "time-twosubs"}))
        return out

    def compare_from(self, case):
        # two chain subscriptions have no model: nothing is compared, the oracle decides
        return len(case.events) if case.field("twosubs") else 0

    @staticmethod
    def _split_two(body):
        """`o=N1 o2=N2;C live=…` -> ([N1], [N2, C])"""
        from .. import timegen as tg
        if body is None or not body.startswith("o="):
            return None
        head = body.split(" live=")[0]
        a, _, b = head.partition(" o2=")
        f = lambda t: [x for x in t.split(";") if x]
        return f(a[2:]), f(b)

    def time_oracle(self, case, lines):
        from .. import timegen as tg
        aux = case.meta.get("_aux")
        if not aux or len(aux) != 2:
            return None
        for k in range(len(case.events)):
            if lines.get(k) in ("PANIC", "HANG"):
                return {"kind": "panic", "event": k, "detail": lines.get(k)}
        for which, (drop, ren) in enumerate(((("sub2", "unsub2"), {}),
                                             (("sub", "unsub"), {"sub2": "sub", "unsub2": "unsub"}))):
            solo = aux[which]
            pos = 0
            for k, e in enumerate(case.events):
                if e[0] in drop:
                    continue
                full = self._split_two(lines.get(k))
                b = solo.get(pos)
                pos += 1
                if full is None or b is None or not b.startswith("o="):
                    continue
                alone, _ = tg.parse_suffix(b)
                mine = full[which]
                if mine != alone:
                    return {"kind": "subscriptions-interfere", "event": k,
                            "detail": f"subscription {which + 1} received {mine} in this event; alone on the same "
                                      f"history (the other subscription removed) it receives {alone}"}
        return None

    def oracle(self, case, lines, model_lines=None):
        if case.suite == "time":
            return self.time_oracle(case, lines)
        logs = {}
        nsubs = 0
        first_sub = None
        for k, e in enumerate(case.events):
            b = lines.get(k)
            if b is None:
                continue
            if b == "PANIC":
                return {"kind": "panic", "event": k, "detail": b}
            if e[0] == "sub" and first_sub is None:
                first_sub = k
            if b.startswith("tap="):
                calls = int(b.split("calls=")[1].split(" ")[0])
                taps = b.split(" ")[0][5:-1]
                if first_sub is None:
                    if calls != 0 or any(t not in ("", "0") for t in taps.split(",")):
                        return {"kind": "not-lazy", "event": k, "detail": b}
                continue
            if b.startswith("o=") and len(b) > 2:
                if first_sub is None:
                    return {"kind": "not-lazy", "event": k, "detail": b}
                for tok in b[2:].split(";"):
                    sid, _, n = tok.partition(":")
                    logs.setdefault(int(sid), []).append(n)
        aux = case.meta.get("_aux")
        if aux:
            # independence (C13_independent): subscription j of a hot pipeline sees exactly what it would have
            # seen alone — the real code run on the same history without the other subscriptions
            subs = [k for k, e in enumerate(case.events) if e == ["sub"]]
            for j, (kj, solo) in enumerate(zip(subs, aux)):
                kept = [k for k, e in enumerate(case.events) if e != ["sub"] or k == kj]
                alone = []
                for pos, k in enumerate(kept):
                    b = solo.get(pos) or ""
                    if b == "PANIC":
                        alone = None
                        break
                    if b.startswith("o=") and len(b) > 2:
                        alone += [tok.partition(":")[2] for tok in b[2:].split(";")]
                if alone is not None and logs.get(j, []) != alone:
                    return {"kind": "subscriptions-interfere", "event": kj,
                            "detail": f"subscription {j} saw {logs.get(j, [])}; alone on the same history it sees {alone}"}
        if case.meta.get("kind") == "cold":
            # every subscription (nested ones included) of a cold pipeline sees the same sequence
            total = sum(1 for e in case.events if e[0] == "sub")
            ref = logs.get(0, [])
            for sid, lg in logs.items():
                if lg != ref:
                    return {"kind": "subscriptions-differ", "event": 0,
                            "detail": f"subscription 0 saw {ref}, subscription {sid} saw {lg}"}
            # closure calls: (#subscriptions incl. nested) x (#closures)
            last = [lines.get(k) for k in range(len(case.events)) if (lines.get(k) or "").startswith("tap=")]
            if last:
                calls = int(last[-1].split("calls=")[1].split(" ")[0])
                nsub_total = max(len(logs), total) if logs else total
                # nested subscriptions that actually happened have an id >= total
                ids = set(logs) | set(range(total))
                cc = count_closures(case.field("pipe")[0])
                if calls != len(ids) * cc and all(v for v in logs.values()) and len(ids) == len(logs):
                    return {"kind": "closure-calls", "event": 0,
                            "detail": f"{calls} closure calls, {len(ids)} subscriptions x {cc} closures"}
        return None

    @staticmethod
    def _is_hot(case):
        f = case.field("pipe")
        return bool(f) and "hot" in pg.pipe_heads(f[0])

    def aux_cases(self, case):
        """For a hot pipeline with several subscriptions: the same history with only the j-th subscription
        (the events on the subjects all stay) — what that subscription would have seen ALONE."""
        if case.suite == "time":
            if not case.field("twosubs") or not any(e[0] == "sub2" for e in case.events):
                return []
            a = case.copy()
            a.meta = {"kind": "solo"}
            a.fields = [f for f in a.fields if f[0] != "twosubs"]
            a.events = [e for e in case.events if e[0] not in ("sub2", "unsub2")]
            b = case.copy()
            b.meta = {"kind": "solo"}
            b.fields = [f for f in b.fields if f[0] != "twosubs"]
            b.events = [[{"sub2": "sub", "unsub2": "unsub"}.get(e[0], e[0])] + e[1:] for e in case.events
                        if e[0] not in ("sub", "unsub")]
            return [a, b]
        subs = [k for k, e in enumerate(case.events) if e == ["sub"]]
        if len(subs) < 2 or not self._is_hot(case) or any(e[0] == "sub" and len(e) > 1 for e in case.events):
            return []
        out = []
        for j in subs:
            c = case.copy()
            c.meta = {"kind": "solo"}
            c.events = [e for k, e in enumerate(case.events) if e != ["sub"] or k == j]
            out.append(c)
        return out

    def shrink_candidates(self, case):
        cands = []
        if case.suite == "time":
            from .. import timegen as tg
            return [c for c in tg.time_shrink(case)
                    if any(e[0] == "sub" for e in c.events) and any(e[0] == "sub2" for e in c.events)]
        for c in super().shrink_candidates(case):
            if sum(1 for e in c.events if e[0] == "sub") >= 1:
                cands.append(c)
        return cands

    def nontrivial(self, case, lines):
        return any(b.startswith("o=") and len(b) > 2 for b in lines.values())


def count_closures(pipe):
    n = 0
    if isinstance(pipe, list) and pipe:
        if pipe[0] in ("offn", "start", "defer", "iterl"):
            n += 1
        for x in pipe[1:]:
            if isinstance(x, list) and x and isinstance(x[0], str) and x[0] not in ("n", "e", "p", "l", "s", "o"):
                n += count_closures(x)
    return n


PROP = C13()
