"""C18 — local and thread-safe variants are observationally equivalent."""
import importlib
import random

from .. import pipegen as pg
from .. import timegen as tg
from ..case import Case
from ..runner import Prop

TWIN = {"local": "threads", "threads": "local"}


class C18(Prop):
    pid = "C18"
    lean_module = "RxModel.Props.C18"
    design_ref = "DESIGN.md §6 C18"
    rule = ("every case is run twice, with the local and with the thread-safe types (Subject/SubjectThreads, "
            "merge/merge_threads, merge_all(_threads), zip, combine_latest, with_latest_from, take_until, skip_until, "
            "sample, delay, observe_on, finalize, share, boxed observables and subscriptions), on single-threaded "
            "histories drawn from the C01/C04 pipeline populations, the time suite, flatten, finalize, share and "
            "subject suites; the two implementation traces must be identical line by line, and each must agree with "
            "the (single) Lean model. non-trivial = something was delivered.")
    assumptions = ["thread-safe types are driven from one thread; real concurrency is C10's subject"]
    modelled_not_verified = ("all Rust code; where one macro generates both forms the model has one definition; the "
                             "hand-duplicated parts (skip_until's Cell/AtomicBool flag, Subscriber/SubscriberThreads, "
                             "box_it, MultiSubscription(Threads)) are modelled by the same definitions")

    # translator tie: the thread-safe instantiation of the macro-stamped two-input cells (and the hand-duplicated
    # ShareObserverThreads of skip_until) is the SAME model cell as the local one (GenTie/*Threads.lean)
    tie_modules = {
        # transcription pins (DESIGN II.7, weakest tie): the token text of the hand-transcribed files is the one the model was made from
        "RxModel.GenTie.PinsCells": [],
        "RxModel.GenTie.SubjectThreads": [],
        # BehaviorSubject over Subject and over SubjectThreads: ONE generic impl, both instantiations = the same model
        # (seed C18-10 gave the thread-safe instantiation an actual_subscribe of its own)
        "RxModel.GenTie.Behavior": [], "RxModel.GenTie.BehaviorThreads": [],
        "RxModel.GenTie.MergeAllThreads": [],
        "RxModel.GenTie.SubscriberThreads": [],
        "RxModel.GenTie.MergeThreads": ['merge'],
        "RxModel.GenTie.WiringMergeThreads": ['merge'],
        "RxModel.GenTie.ZipThreads": ['zip'],
        "RxModel.GenTie.WiringZipThreads": ['zip'],
        "RxModel.GenTie.CombineLatestThreads": ['combine'],
        "RxModel.GenTie.WiringCombineLatestThreads": ['combine'],
        "RxModel.GenTie.WithLatestFromThreads": ['withlatest'],
        "RxModel.GenTie.WiringWithLatestFromThreads": ['withlatest'],
        "RxModel.GenTie.TakeUntilThreads": ['takeuntil'],
        "RxModel.GenTie.WiringTakeUntilThreads": ['takeuntil'],
        "RxModel.GenTie.SkipUntilThreads": ['skipuntil'],
        "RxModel.GenTie.WiringSkipUntilThreads": ['skipuntil'],
        "RxModel.GenTie.SampleThreads": ['sample'],
        "RxModel.GenTie.WiringSampleThreads": ['sample'],
    }

    def cases(self, tier, seed):
        rng = random.Random(seed + 18)
        base = []
        from .c01 import gen_cases
        base += gen_cases(rng, tier, pg.single_variants(3), 4000 if tier == "quick" else 40000)
        for k in pg.TWO:
            for _ in range(150):
                evs = [["sub"]] + pg.rand_events(rng, 2, rng.randint(2, 9))
                base.append(Case("pipe", "local", [("pipe", [[k, ["hot", "0"], ["hot", "1"]]])], evs,
                                 {"kind": "two-input"}))
        for i in range(3000 if tier == "quick" else 30000):
            src = tg.sources(rng, ["hot", "hot", "interval", "timer", "iter"])
            pipe = tg.chain(rng, src, list(tg.TIME_OPS), rng.randint(1, 3), p_sync=0.3)
            evs = tg.events(rng, rng.randint(3, 12), hot=(src[0] == "hot"),
                            mode="mixed" if i % 2 else "fifo", unsub_p=0.05)
            base.append(Case("time", "local", [("pipe", [pipe])], evs, {"kind": "time"}))
        for modname, cap in (("c05", 3000), ("c15", 3000), ("c11", 3000), ("c06", 3000), ("c20", 2000), ("c12", 3000)):
            try:
                mod = importlib.import_module(f"vlib.props.{modname}")
                # suites that exist for the thread-safe flavour only (lock traces, preemption injection) have no twin
                # (cases their own check judges by its oracle alone have no model to be the third party here)
                cs = [c for c in mod.PROP.cases("quick", seed)
                      if c.flavor in TWIN and c.suite not in ("inject", "locks", "behaviorrace", "coop")
                      and not mod.PROP.compare_from(c)]
                rng.shuffle(cs)
                for c in cs[: cap if tier == "quick" else cap * 5]:
                    d = c.copy()
                    d.meta = {"kind": modname}
                    base.append(d)
            except Exception as ex:  # a plugin that is not there yet
                print(f"note: C18 skips {modname}: {ex}")
        out = []
        for i, c in enumerate(base):
            if c.flavor not in TWIN:
                continue
            a = c.copy(); a.flavor = "local"; a.meta = dict(c.meta, pair=i)
            b = c.copy(); b.flavor = "threads"; b.meta = dict(c.meta, pair=i)
            out += [a, b]
        return out

    def cross_oracle(self, cases, impl, model):
        pairs = {}
        for c in cases:
            p = c.meta.get("pair")
            if p is not None:
                pairs.setdefault(p, []).append(c)
        fails = []
        for p, cs in pairs.items():
            if len(cs) != 2:
                continue
            a, b = cs
            la, lb = impl.get(a.cid, {}), impl.get(b.cid, {})
            for k in range(len(a.events)):
                x, y = la.get(k), lb.get(k)
                # a stuck pipeline shows as PANIC (RefCell) in one form and RELOCK (Mutex) in the other
                nx = "STUCK" if x in ("PANIC", "RELOCK") else x
                ny = "STUCK" if y in ("PANIC", "RELOCK") else y
                if nx != ny:
                    fails.append((a, {"kind": "flavours-differ", "event": k,
                                      "detail": f"local: {x} | threads: {y}"}))
                    break
        return fails

    def oracle(self, case, lines, model_lines=None):
        return None

    def signature(self, case, failure):
        f = case.field("pipe")
        if f:
            return f"{failure['kind']}|{case.suite}|{','.join(sorted(pg.pipe_heads(f[0])))}"
        return f"{failure['kind']}|{case.suite}"

    def shrink_candidates(self, case):
        return []     # pairs are reported as found (the twin is re-created by --replay of either flavour)

    def nontrivial(self, case, lines):
        return any(b.startswith("o=") and not (b == "o=" or b.startswith("o= ")) for b in lines.values())


PROP = C18()
