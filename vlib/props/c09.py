"""C09 — rate-limiting operators never invent, duplicate or reorder items."""
import random

from .. import timegen as tg
from .. import sx
from ..case import Case
from ..runner import Prop

OPS = ["debounce", "throttle", "buftime", "bufcounttime"]


def parse_vals(outs):
    """delivered tokens -> (flat item list, list of buffers or None, terminal)"""
    items, bufs, term = [], [], None
    for o in outs:
        if o.startswith("N(l"):
            body = o[3:-1].strip()
            b = body.split() if body else []
            bufs.append(b)
            items += b
        elif o.startswith("N"):
            items.append(o[1:])
        else:
            term = o
    return items, bufs, term


def prompt_script(rng, n_items, gaps, term):
    """unit-step prompt schedule: item i is emitted, then the clock advances gap_i in single steps
    with the executor run after every step."""
    evs = [["sub"], ["run"]]
    for i in range(n_items):
        evs += [["emit", "0", sx.N(i + 1)], ["run"]]
        for _ in range(gaps[i]):
            evs += [["adv", "1"], ["run"]]
    if term is not None:
        evs += [["emit", "0", term], ["run"]]
    for _ in range(12):
        evs += [["adv", "1"], ["run"]]
    return evs


def is_prompt(events, w):
    """The schedule is a prompt unit-step one (also after shrinking): the executor runs after the subscription,
    after every emission and after every clock step, the clock moves in steps of 1, nobody fires or polls by
    hand, and the clock goes on for more than a window after the last emission."""
    if not events or events[0] != ["sub"]:
        return False
    tail = 0
    for i, e in enumerate(events):
        if e[0] in ("fire", "poll", "unsub"):
            return False
        if e[0] in ("sub", "emit", "adv"):
            if i + 1 >= len(events) or events[i + 1][0] != "run":
                return False
        if e[0] == "adv":
            if e[1] != "1":
                return False
            tail += 1
        if e[0] == "emit":
            tail = 0
    return tail > w


class C09(Prop):
    pid = "C09"
    lean_module = "RxModel.Props.C09"
    extra_modules = ("RxModel.Props.C09C", "RxModel.Props.C09S")
    design_ref = "DESIGN.md §6 C09"
    rule = ("debounce / throttle (three edge modes) / buffer_with_time / buffer_with_count_and_time over a hot subject "
            "emitting the tagged items 1,2,3,…; (a) prompt unit-step schedules with every gap pattern shorter than, "
            "equal to and longer than the window (bounded-exhaustive for <=4 items, windows {1,3}); (b) random scripts "
            "with arbitrary fire/poll orders, clock jumps, terminals and unsubscription; sample over two hot subjects. "
            "Full line compared. Oracle on the implementation: delivered items (buffers flattened) are source items, "
            "each at most once, in source order; buffers non-empty and within the count limit; on completion their "
            "concatenation is the whole source; debounce delivers item i iff the next item came later than the window "
            "(either way at equality) and always the last one on completion; throttle delivers the first item of a "
            "window at once on the leading edge.")
    assumptions = ["virtual clock; executor = harness queue (hook H1)"]
    modelled_not_verified = "all Rust code; same-instant ordering of source events vs. timers is the script's order"

    # translator tie: DebounceObserver / ThrottleObserver and their task functions (compiler-expanded, translated) in
    # closed form: candidate cell, window task, leading / trailing edges, flush on completion; wiring pinned
    tie_modules = {
        "RxModel.GenTie.Debounce": ["debounce"],
        "RxModel.GenTie.Throttle": ["throttle"],
        "RxModel.GenTie.WiringDebounce": ["debounce"],
        "RxModel.GenTie.WiringThrottle": ["throttle"],
        "RxModel.GenTie.TimeOpsModel": ["debounce", "throttle"],   # forward simulations: generated debounce / throttle observers vs Stage.onNotif (+ afterEmit)
        "RxModel.GenTie.BufferCell": ["buftime", "bufcounttime"],
        "RxModel.GenTie.WiringBuffer": ["buftime", "bufcounttime"],
    }

    def cases(self, tier, seed):
        rng = random.Random(seed + 9)
        out = []
        import itertools
        maxn = 3 if tier == "quick" else 4
        for w in (1, 3):
            gapset = [0, w - 1, w, w + 1] if w > 1 else [0, 1, 2]
            gapset = sorted(set(g for g in gapset if g >= 0))
            stages = [["debounce", str(w)], ["throttle", str(w), "l"], ["throttle", str(w), "t"],
                      ["throttle", str(w), "a"], ["buftime", str(w)], ["bufcounttime", "2", str(w)]]
            for st in stages:
                for n in range(1, maxn + 1):
                    for gaps in itertools.product(gapset, repeat=n):
                        for term in (None, "c", ["e", "7"]):
                            out.append(Case("time", "local" if len(out) % 3 else "threads",
                                            [("pipe", [st + [["hot", "0"]]])],
                                            prompt_script(rng, n, gaps, term),
                                            {"kind": "prompt", "w": w, "gaps": list(gaps)}))
                            if len(out) % 4 == 0:
                                # the same with a second subscription of a clone of the SAME pipeline value alive
                                # beside the first: each must be rate-limited as if alone
                                evs = prompt_script(rng, n, gaps, term)
                                out.append(Case("time", "local" if len(out) % 3 else "threads",
                                                [("twosubs", ["1"]), ("pipe", [st + [["hot", "0"]]])],
                                                evs[:2] + [["sub2"], ["run"]] + evs[2:],
                                                {"kind": "prompt-twosubs", "w": w, "gaps": list(gaps)}))
        # the degenerate window 0 (nothing is throttled / debounced away, but every item still goes through its
        # own scheduler task: the trailing edge delivers from the task)
        for st in (["debounce", "0"], ["throttle", "0", "l"], ["throttle", "0", "t"], ["throttle", "0", "a"]):
            for n in range(1, maxn + 1):
                for gaps in itertools.product([0, 1], repeat=n):
                    for term in (None, "c", ["e", "7"]):
                        out.append(Case("time", "local" if len(out) % 3 else "threads",
                                        [("pipe", [st + [["hot", "0"]]])],
                                        prompt_script(rng, n, gaps, term),
                                        {"kind": "prompt", "w": 0, "gaps": list(gaps)}))
        n = 4000 if tier == "quick" else 40000
        for i in range(n):
            pipe = tg.chain(rng, ["hot", "0"], OPS, rng.randint(1, 2), p_sync=0.15)
            if rng.random() < 0.08:
                # window 0 in random chains too
                pipe = self._zero_window(pipe)
            mode = "mixed" if i % 2 else "fifo"
            evs = tg.events(rng, tg.hist_len(rng, 4, 16), hot=True, mode=mode, unsub_p=0.03)
            out.append(Case("time", rng.choice(["local", "threads"]), [("pipe", [pipe])], evs, {"kind": mode}))
        # sample (sampler = second hot subject)
        for _ in range(1500 if tier == "quick" else 15000):
            evs = [["sub"]]
            k = 1
            for _ in range(rng.randint(1, 10)):
                r = rng.random()
                if r < 0.55:
                    evs.append(["emit", "0", sx.N(k)]); k += 1
                elif r < 0.9:
                    evs.append(["emit", "1", sx.N(0)])
                else:
                    evs.append(["emit", str(rng.randint(0, 1)), rng.choice(["c", ["e", "3"]])])
            out.append(Case("pipe", rng.choice(["local", "threads"]),
                            [("pipe", [["sample", ["hot", "0"], ["hot", "1"]]])], evs, {"kind": "sample"}))
        out = tg.with_units(seed, out)
        # the emitter against the window task on two REAL OS threads (suite `coop`, every preemption point of the first):
        # "for every timing of the source against the timers" (seed C09-8: throttle looked at the window before it stored
        # its candidate — the item is stranded when the window task runs in between)
        from .. import coopgen as cg
        out += cg.rate_cases(tier)
        return out

    @staticmethod
    def _zero_window(node):
        if isinstance(node, list) and node and node[0] in ("debounce", "throttle"):
            return [node[0], "0"] + [C09._zero_window(x) for x in node[2:]]
        if isinstance(node, list):
            return [C09._zero_window(x) for x in node]
        return node

    def compare_from(self, case):
        if case.suite == "coop":
            from .. import coopgen as cg
            return 0 if cg.modelled(case) else len(case.events)
        # two subscriptions of one pipeline value have no chain model: only the oracle decides
        return len(case.events) if case.field("twosubs") else 0

    def oracle(self, case, lines, model_lines=None):
        if case.suite == "coop":
            from .. import coopgen as cg
            return cg.rate_oracle(case, lines)
        if not case.field("twosubs"):
            return self._oracle1(case, lines)
        # `o=… o2=… live=…`: every clause must hold for EACH of the two subscriptions by itself
        for which in (0, 1):
            view = {}
            for k, b in lines.items():
                if b is not None and b.startswith("o="):
                    head, sep, rest = b.partition(" live=")
                    a, _, b2 = head.partition(" o2=")
                    view[k] = (a if which == 0 else "o=" + b2) + sep + rest
                else:
                    view[k] = b
            f = self._oracle1(case, view)
            if f:
                f["detail"] = f"subscription {which + 1} of 2: " + f["detail"]
                return f
        return None

    def _oracle1(self, case, lines):
        pipe = case.field("pipe")[0]
        single = pipe[0] in OPS + ["sample"] and (pipe[-1] == ["hot", "0"] or pipe[0] == "sample")
        if not single:
            return None
        emitted, emit_t = [], {}
        delivered, deliver_t = [], {}
        t = 0
        completed = False
        unsub = False
        term_kind = term_t = None
        cnt = int(pipe[1]) if pipe[0] == "bufcounttime" else None
        for k, e in enumerate(case.events):
            b = lines.get(k)
            if b is None:
                continue
            if b == "PANIC":
                return {"kind": "panic", "event": k, "detail": b}
            if not b.startswith("o="):
                continue
            outs, kv = tg.parse_suffix(b)
            t = kv.get("t", t)
            if e[0] == "unsub":
                unsub = True
            if e[0] == "emit" and e[1] == "0" and isinstance(e[2], list) and e[2][0] == "n" and not completed:
                emitted.append(e[2][1]); emit_t[e[2][1]] = t
            items, bufs, term = parse_vals(outs)
            for bf in bufs:
                if not bf:
                    return {"kind": "empty-buffer", "event": k, "detail": b}
                if cnt is not None and len(bf) > max(cnt, 1):
                    return {"kind": "buffer-too-long", "event": k, "detail": b}
            for v in items:
                if v not in emitted:
                    return {"kind": "invented", "event": k, "detail": f"{v} was never emitted"}
                if v in delivered:
                    return {"kind": "duplicate", "event": k, "detail": f"item {v} delivered twice"}
                if delivered and int(v) < int(delivered[-1]):
                    return {"kind": "reordered", "event": k, "detail": f"{v} after {delivered[-1]}"}
                delivered.append(v); deliver_t[v] = t
            if term == "C":
                completed = True
                if pipe[0] in ("buftime", "bufcounttime") and not unsub and delivered != emitted:
                    return {"kind": "buffers-lose-items", "event": k,
                            "detail": f"source {emitted}, buffers concatenate to {delivered}"}
                if pipe[0] == "debounce" and emitted and emitted[-1] not in delivered:
                    return {"kind": "debounce-last-lost", "event": k, "detail": f"{emitted[-1]} not delivered"}
            if term is not None:
                completed = True
                if term_kind is None:
                    term_kind, term_t = ("C" if term == "C" else "E"), t
        if is_prompt(case.events, int(pipe[2]) if pipe[0] == "bufcounttime" else int(pipe[1]) if pipe[0] != "sample" else 0) and not unsub:
            w = int(pipe[1]) if pipe[0] != "bufcounttime" else int(pipe[2])
            if pipe[0] == "debounce":
                for i, v in enumerate(emitted):
                    nxt = emit_t.get(emitted[i + 1]) if i + 1 < len(emitted) else None
                    if nxt is None:
                        continue
                    gap = nxt - emit_t[v]
                    if gap > w and v not in delivered:
                        return {"kind": "debounce-dropped", "event": 0,
                                "detail": f"item {v}: next item {gap} later, window {w}, not delivered"}
                    if gap < w and v in delivered:
                        return {"kind": "debounce-leaked", "event": 0,
                                "detail": f"item {v}: next item only {gap} later, window {w}, delivered"}
                    if v in delivered and deliver_t[v] != emit_t[v] + w and gap > w:
                        return {"kind": "debounce-timing", "event": 0,
                                "detail": f"item {v} emitted {emit_t[v]} delivered {deliver_t[v]} window {w}"}
            if pipe[0] == "throttle" and pipe[2] in ("l", "a") and emitted:
                v = emitted[0]
                if v not in delivered or deliver_t[v] != emit_t[v]:
                    return {"kind": "throttle-leading", "event": 0, "detail": f"first item {v} not delivered at once"}
            if pipe[0] == "throttle" and emitted and term_kind in (None, "C"):
                # the windows of a prompt schedule: an item that finds no open window opens one of length w
                # (closed by the executor at open + w, before anything emitted at that instant)
                wins = []
                for v in emitted:
                    if wins and emit_t[v] < wins[-1][0] + w:
                        wins[-1][2] = v
                    else:
                        wins.append([emit_t[v], v, v])
                want = []
                for (t0, first, last) in wins:
                    if pipe[2] in ("l", "a"):
                        want.append(first)
                        if deliver_t.get(first) != emit_t[first]:
                            return {"kind": "throttle-leading", "event": 0,
                                    "detail": f"item {first} opens the window at {t0} and is not delivered at once"}
                    if pipe[2] in ("t", "a") and not (pipe[2] == "a" and last == first):
                        want.append(last)
                        close = t0 + w if term_t is None else min(t0 + w, max(term_t, emit_t[last]))
                        if last not in delivered:
                            return {"kind": "throttle-trailing-lost", "event": 0,
                                    "detail": f"item {last} is the last of the window [{t0},{t0 + w}) and is never delivered"}
                        if deliver_t[last] != close:
                            return {"kind": "throttle-trailing-timing", "event": 0,
                                    "detail": f"item {last}: window [{t0},{t0 + w}), delivered at {deliver_t[last]}"}
                if delivered != want:
                    return {"kind": "throttle-windows", "event": 0,
                            "detail": f"windows {wins}: expected {want}, delivered {delivered}"}
        return None

    def signature(self, case, failure):
        if case.suite == "coop":
            from .. import coopgen as cg
            return cg.signature(case, failure)
        node, hs = case.field("pipe")[0], []
        while isinstance(node, list) and node:
            hs.append(node[0])
            node = node[-1] if isinstance(node[-1], list) else None
        ops = sorted(set(h for h in hs if h in OPS + ["sample"]))
        return f"{failure['kind']}|{case.suite}|{','.join(ops)}"

    def shrink_candidates(self, case):
        if case.suite == "coop":
            from .. import coopgen as cg
            return cg.shrink_candidates(case)
        if case.suite != "time":
            return super().shrink_candidates(case)
        return [c for c in tg.time_shrink(case) if c.field("pipe")[0][0] != "hot"]


PROP = C09()
