"""C19 — scheduled tasks run at most once, never early, and stay cancelled."""
import random

from .. import timegen as tg
from ..case import Case
from ..runner import Prop
from .c08 import C08


def strip_l(b):
    i = b.find(" L=")
    return b[:i] if i >= 0 else b


def handle_section_failure(case, lines):
    """thread-safe form with a lock trace: in the poll of ONE task everything after the first
    acquisition (the handle's mutex, `Remote::poll`) must happen with that cell held."""
    from .c10 import parse_tokens
    if not case.field("locktrace"):
        return None
    for k, e in enumerate(case.events):
        b = lines.get(k) or ""
        if e[0] == "poll" and " L=" in b:
            toks = parse_tokens(b)
            if toks and toks[0][0] == "a":
                h = toks[0][1]
                for kind, n, held in toks[1:]:
                    if h not in held:
                        return {"kind": "task-body-outside-handle-section", "event": k,
                                "detail": f"poll of one task: {b[b.find(' L='):]} — handle cell {h} "
                                          f"is not held at {kind}{n}{held}"}
    return None


class C19(Prop):
    pid = "C19"
    lean_module = "RxModel.Props.C19"
    extra_modules = ("RxModel.Props.C19T", "RxModel.Props.C02S")
    design_ref = "DESIGN.md §6 C19"
    # translator tie (DESIGN II.7): src/scheduler.rs itself — TaskHandle's two Subscription impls and the poll functions of
    # Remote / OnceTask / FutureTask / RepeatTask, regenerated from the compiler-expanded source on every run
    tie_modules = {"RxModel.GenTie.Scheduler": [],
                   # what is not translated of scheduler.rs (the async block of schedule(), the spawn macros, remote_handle): pinned
                   "RxModel.GenTie.PinsSched": [],
                   # what the sources and operators hand to the scheduler (task kind, delay, period) and keep of it (the handle)
                   "RxModel.GenTie.TimeSources": [], "RxModel.GenTie.TimeSourcesModel": [], "RxModel.GenTie.TimeOpsModel": [],
                   "RxModel.GenTie.DelaySubscription": []}
    rule = ("one-shot tasks (timer, delay, delay_subscription, subscribe_on, debounce/throttle windows), subscribing "
            "tasks and repeating tasks (interval, buffer_with_time) with delays from {0,1,2,5,10} on the virtual clock; "
            "cancellation (unsubscribe) injected at every phase: before the first poll, while pending on the timer, "
            "after completion; all run orders via fire-one-due-timer / poll-one-live-task / run. Full line compared "
            "(deliveries, live tasks, timers created, clock). Oracle on the implementation: a one-shot body's effect "
            "at most once and not before its delay; repeating ticks numbered consecutively; nothing after "
            "unsubscribe; cancelled tasks retire when polled.")
    assumptions = ["task bodies are observed through what they deliver to the probe; executor = harness queue (hook H1)"]
    modelled_not_verified = "all Rust code (Remote::poll, the async block of schedule(), OnceTask/RepeatTask/FutureTask)"

    def cases(self, tier, seed):
        rng = random.Random(seed + 19)
        out = []
        n = 5000 if tier == "quick" else 50000
        for i in range(n):
            src = tg.sources(rng, ["timer", "interval", "hot", "hot", "intervalat"])
            depth = rng.randint(0, 2)
            pipe = tg.chain(rng, src, ["delay", "delaysub", "subscribeon", "observeon", "debounce", "buftime"], depth, p_sync=0.15)
            mode = "mixed" if i % 3 else "fifo"
            evs = tg.events(rng, tg.hist_len(rng, 3, 14), hot=(src[0] == "hot"), mode=mode, unsub_p=0.12)
            fl = rng.choice(["local", "threads"])
            # thread-safe form: record the lock trace (hook H2) — the task body must run inside the
            # section of its handle's mutex, which is what makes unsubscribe() wait for it
            fields = ([("locktrace", ["1"])] if fl == "threads" else []) + [("pipe", [pipe])]
            out.append(Case("time", fl, fields, evs, {"kind": mode}))
        # cancellation at every phase of a single delayed one-shot / repeating task (exhaustive small)
        for src in (["timer", "7", "2"], ["interval", "2"], ["delaysub", "2", ["hot", "0"]],
                    ["delay", "2", ["hot", "0"]]):
            base = [["sub"], ["poll", "0"], ["adv", "2"], ["fire", "0"], ["poll", "0"], ["adv", "2"], ["run"]]
            if src[0] in ("delaysub", "delay"):
                base = [["sub"], ["emit", "0", ["n", "1"]], ["poll", "0"], ["adv", "2"], ["fire", "0"],
                        ["poll", "0"], ["emit", "0", ["n", "2"]], ["adv", "2"], ["run"]]
            for cut in range(1, len(base) + 1):
                evs = base[:cut] + [["unsub"]] + base[cut:] + [["adv", "5"], ["run"]]
                out.append(Case("time", "local", [("pipe", [src])], evs, {"kind": "cancel-phase"}))
        out = tg.with_units(seed, out)
        # a REPEATING task whose timer is due the moment it is re-armed (interval 0 under the rules of a real timer future,
        # harness field `realtimer`, see C08): it still runs once per period with consecutive numbers until it declines
        # (seed C19-9 consumed the ready timer in a registration poll and polled it again afterwards)
        out += C08.realtimer_cases(self)
        # a REPEATING task handed to schedule() WITH a start delay (source `dinterval d p`: public API of the scheduler that no
        # operator of the crate uses): consecutive ticks, and they keep coming (seed C19-11: the delay timer, kept and polled
        # before the task on every poll, answered Pending for ever once it had fired).  Oracle only.
        for fl in ("local", "threads"):
            for d in (0, 1, 2, 5):
                for p in (1, 2, 3):
                    for n in (None, 3):
                        src = ["dinterval", str(d), str(p)]
                        pipe = ["take", str(n), src] if n else src
                        evs = [["sub"], ["run"]]
                        for _ in range(d + 5 * p + 3):
                            evs += [["adv", "1"], ["run"]]
                        evs += [["unsub"], ["adv", str(3 * p)], ["run"]]
                        out.append(Case("time", fl, [("pipe", [pipe])], evs, {"kind": "delayed-repeat", "n": n or 0}))
        # is_closed() asked from ANOTHER OS thread while a task of the subscription is delivering (event `rq <event>`): the
        # query either waits for the handle's cell or sees the state before the poll — it must never answer `closed` for a
        # subscription that delivers afterwards (seed C19-8: try_lock, "busy" answered as closed)
        for src in (["interval", "2"], ["intervalat", "1", "2"], ["delay", "2", ["hot", "0"]], ["observeon", ["hot", "0"]],
                    ["delay", "0", ["interval", "2"]], ["map", "add1", ["interval", "2"]],
                    ["buftime", "3", ["hot", "0"]], ["debounce", "2", ["hot", "0"]]):
            hot = "hot" in str(src)
            feed = [["emit", "0", ["n", "1"]], ["emit", "0", ["n", "2"]]] if hot else []
            for pre in ([["adv", "2"]], [["adv", "2"], ["run"], ["adv", "2"]], [["adv", "4"]]):
                for racer in (["rq", "run"], ["rq", "poll", "0"]):
                    for post in ([["adv", "2"], ["run"]], [["adv", "2"], ["run"], ["unsub"], ["adv", "2"], ["run"]],
                                 [["emit", "0", ["n", "3"]], ["adv", "3"], ["run"]] if hot else [["adv", "6"], ["run"]]):
                        fire = [["fire", "0"]] if racer[1] == "poll" else []
                        evs = [["sub"]] + feed + pre + fire + [racer] + [["q", "closed"]] + post + [["q", "closed"]]
                        out.append(Case("time", "threads", [("pipe", [src])], evs, {"kind": "race-closed"}))
        # cancellation racing the executor / an emitter on two real OS threads (suite `coop`, see C02):
        # a cancelled task stays cancelled, nothing runs after `unsubscribe()` has returned
        from .. import coopgen as cg
        out += cg.cases(tier, seed)
        return out

    @staticmethod
    def _dinterval(case):
        f = case.field("pipe")
        return bool(f) and "dinterval" in tg._heads_of(f[0], set())

    def delayed_repeat_oracle(self, case, lines):
        pipe = case.field("pipe")[0]
        n = int(pipe[1]) if pipe[0] == "take" else 0
        got, after_unsub, unsub = [], [], False
        for k, e in enumerate(case.events):
            b = lines.get(k) or ""
            if b in ("PANIC", "HANG"):
                return {"kind": b.lower(), "event": k, "detail": b}
            if e[0] == "unsub":
                unsub = True
            if b.startswith("o="):
                (after_unsub if unsub else got).extend(tg.parse_suffix(b)[0])
        if after_unsub:
            return {"kind": "ran-after-cancel", "event": len(case.events) - 1, "detail": f"after unsubscribe: {after_unsub}"}
        items = [x for x in got if x.startswith("N")]
        if items != [f"N{i}" for i in range(len(items))]:
            return {"kind": "repeat-sequence", "event": len(case.events) - 1, "detail": f"ticks {items}: not 0, 1, 2, …"}
        want = n if n else 3
        if len(items) < want:
            return {"kind": "repeat-stalled", "event": len(case.events) - 1,
                    "detail": f"only {len(items)} tick(s) {items} after the start delay and five periods, every task run"}
        if n and got[n:] != ["C"]:
            return {"kind": "repeat-sequence", "event": len(case.events) - 1, "detail": f"take {n}: delivered {got}"}
        return None

    def compare_from(self, case):
        if case.field("realtimer") or self._dinterval(case):
            return len(case.events)
        if case.suite == "coop":
            from .. import coopgen as cg
            return 0 if cg.modelled(case) else len(case.events)
        return 0

    def project(self, body):
        from .c10 import strip_lock
        import re
        # the answer given to another thread in the middle of an event is not part of the sequential model
        return re.sub(r" rclosed=[01?-]", " rclosed=?", strip_lock(body))

    def oracle(self, case, lines, model_lines=None):
        if case.suite == "coop":
            from .. import coopgen as cg
            return cg.oracle(case, lines)
        if case.field("realtimer"):
            return C08.realtimer_oracle(self, case, lines)
        if self._dinterval(case):
            return self.delayed_repeat_oracle(case, lines)
        pipe = case.field("pipe")[0]
        unsub = False
        rclosed = None
        f = handle_section_failure(case, lines)
        if f:
            return f
        for k, e in enumerate(case.events):
            b = lines.get(k)
            if b is None:
                continue
            if b == "PANIC":
                return {"kind": "panic", "event": k, "detail": b}
            if not b.startswith("o="):
                continue
            outs, kv = tg.parse_suffix(strip_l(b))
            if rclosed is not None and outs:
                return {"kind": "closed-then-delivered", "event": k,
                        "detail": f"is_closed() answered true to another thread during event {rclosed}; later: {b}"}
            if kv.get("rclosed") == 1 and not unsub:
                rclosed = k
            if e[0] == "unsub":
                unsub = True
                if outs:
                    return {"kind": "delivery-during-unsubscribe", "event": k, "detail": b}
                continue
            if unsub and outs:
                return {"kind": "ran-after-cancel", "event": k, "detail": b}
        if pipe[0] in ("timer", "interval", "intervalat", "timerat"):
            return C08.oracle(self, case, lines, model_lines)
        return None

    def signature(self, case, failure):
        if case.suite == "coop":
            from .. import coopgen as cg
            return cg.signature(case, failure)
        node = case.field("pipe")[0]
        hs = []
        while isinstance(node, list) and node:
            hs.append(node[0])
            node = node[-1] if isinstance(node[-1], list) and node[0] not in ("iter", "create") else None
        return f"{failure['kind']}|time|{','.join(sorted(set(hs)))}"

    def shrink_candidates(self, case):
        if case.suite == "coop":
            from .. import coopgen as cg
            return cg.shrink_candidates(case)
        if case.field("realtimer"):
            return []
        return tg.time_shrink(case)


PROP = C19()
