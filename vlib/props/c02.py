"""C02 — nothing after unsubscribe() returns (suite `pipe`, synchronous catalogue)."""
import random

from .. import pipegen as pg
from ..case import Case
from ..runner import Prop
from .c01 import gen_cases
from .. import timegen as tg


class C02(Prop):
    pid = "C02"
    lean_module = "RxModel.Props.C02"
    extra_modules = ("RxModel.Props.C02T", "RxModel.Props.C02C", "RxModel.Props.C02M")
    design_ref = "DESIGN.md §6 C02"
    rule = ("the C01 case population with `unsub` injected at every position of the event script, followed by "
            "the rest of the script and extra events on every hot input; plus linear chains with every scheduler-using "
            "operator (delay, observe_on, subscribe_on, delay_subscription, debounce, throttle, buffer_with_time, "
            "buffer_with_count_and_time, interval, timer) on the virtual clock, unsubscribed at a random point and "
            "then driven further (clock, timers, tasks in FIFO and arbitrary order). Compared after the cut only. Oracle on "
            "the implementation alone: every event after the cut delivers nothing. non-trivial = something was "
            "delivered before the cut.")
    assumptions = ["scheduler-using operators: linear chains on the virtual clock (suite `time`), correspondence + oracle"]
    modelled_not_verified = "all Rust code"

    def cases(self, tier, seed):
        rng = random.Random(seed + 2)
        base = gen_cases(rng, tier, pg.single_variants(3), 6000 if tier == "quick" else 60000)
        out = []
        for c in base:
            n = len(c.events)
            cuts = range(1, n + 1) if n <= 6 else sorted(rng.sample(range(1, n + 1), 4))
            for cut in cuts:
                d = c.copy()
                tail = [["emit", str(i), rng.choice([["n", "3"], "c", ["e", "5"]])] for i in range(3)]
                d.events = c.events[:cut] + [["unsub"]] + c.events[cut:] + tail
                d.meta = dict(c.meta, cut=cut)
                out.append(d)
        # scheduler-using operators: unsubscribe at a random point, then let time pass and the executor run
        n = 5000 if tier == "quick" else 50000
        for i in range(n):
            src = tg.sources(rng, ["hot", "hot", "interval", "timer", "iter", "intervalat"])
            pipe = tg.chain(rng, src, list(tg.TIME_OPS), rng.randint(1, 3), p_sync=0.25)
            mode = "mixed" if i % 2 else "fifo"
            evs = tg.events(rng, rng.randint(2, 10), hot=(src[0] == "hot"), mode=mode)
            cut = rng.randint(1, len(evs))
            tail = [["adv", str(rng.choice([1, 5, 10]))], ["run"], ["emit", "0", ["n", "99"]], ["adv", "20"], ["run"]]
            evs = evs[:cut] + [["unsub"]] + evs[cut:] + tail
            fl = rng.choice(["local", "threads"])
            fields = ([("locktrace", ["1"])] if fl == "threads" else []) + [("pipe", [pipe])]
            out.append(Case("time", fl, fields, evs, {"kind": "time-" + mode, "cut": cut}))
        return out

    def _cut(self, case):
        for k, e in enumerate(case.events):
            if e[0] == "unsub":
                return k
        return len(case.events)

    def compare_from(self, case):
        return self._cut(case)

    def project(self, body):
        from .c10 import strip_lock
        return strip_lock(body)

    def oracle(self, case, lines, model_lines=None):
        # thread-safe form: unsubscribe() can only wait for a running task if the task body runs
        # inside the section of its handle's mutex (lock trace through hook H2)
        from .c19 import handle_section_failure
        f = handle_section_failure(case, lines)
        if f:
            return f
        cut = self._cut(case)
        for k in range(cut, len(case.events)):
            b = lines.get(k)
            if b is None:
                continue
            if b == "PANIC":
                return {"kind": "panic", "event": k, "detail": "implementation panicked"}
            if b.startswith("o=") and not (b == "o=" or b.startswith("o= ")):
                return {"kind": "delivery-after-unsubscribe", "event": k, "detail": b}
        return None

    def nontrivial(self, case, lines):
        cut = self._cut(case)
        return any(not (lines.get(k, "o=") == "o=" or lines.get(k, "o=").startswith("o= ")) for k in range(cut))

    def shrink_candidates(self, case):
        cands = tg.time_shrink(case) if case.suite == "time" else super().shrink_candidates(case)
        return [c for c in cands if any(e[0] == "unsub" for e in c.events)]

    def signature(self, case, failure):
        if case.suite != "time":
            return super().signature(case, failure)
        node, hs = case.field("pipe")[0], []
        while isinstance(node, list) and node:
            hs.append(node[0])
            node = node[-1] if isinstance(node[-1], list) and node[0] not in ("iter", "create") else None
        ops = sorted(set(h for h in hs if h in tg.TIME_OPS))
        return f"{failure['kind']}|time|{','.join(ops)}"


PROP = C02()
