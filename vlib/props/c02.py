"""C02 — nothing after unsubscribe() returns (suite `pipe`, synchronous catalogue)."""
import random

from .. import pipegen as pg
from ..case import Case
from ..runner import Prop
from .c01 import gen_cases


class C02(Prop):
    pid = "C02"
    lean_module = "RxModel.Props.C02"
    extra_modules = ("RxModel.Props.C02T",)
    design_ref = "DESIGN.md §6 C02"
    rule = ("the C01 case population with `unsub` injected at every position of the event script, followed by "
            "the rest of the script and extra events on every hot input. Compared after the cut only. Oracle on "
            "the implementation alone: every event after the cut delivers nothing. non-trivial = something was "
            "delivered before the cut.")
    assumptions = ["synchronous catalogue here; scheduler-using operators are checked by the time-operator suites"]
    modelled_not_verified = "all Rust code"

    def cases(self, tier, seed):
        rng = random.Random(seed + 2)
        base = gen_cases(rng, tier, pg.single_variants(3), 6000 if tier == "quick" else 60000)
        out = []
        for c in base:
            n = len(c.events)
            cuts = range(1, n + 1) if n <= 6 else sorted(rng.sample(range(1, n + 1), 4))
            for cut in cuts:
                d = c.copy()
                tail = [["emit", str(i), rng.choice([["n", "3"], "c", ["e", "5"]])] for i in range(3)]
                d.events = c.events[:cut] + [["unsub"]] + c.events[cut:] + tail
                d.meta = dict(c.meta, cut=cut)
                out.append(d)
        return out

    def _cut(self, case):
        for k, e in enumerate(case.events):
            if e[0] == "unsub":
                return k
        return len(case.events)

    def compare_from(self, case):
        return self._cut(case)

    def project(self, body):
        return body

    def oracle(self, case, lines, model_lines=None):
        cut = self._cut(case)
        for k in range(cut, len(case.events)):
            b = lines.get(k)
            if b is None:
                continue
            if b == "PANIC":
                return {"kind": "panic", "event": k, "detail": "implementation panicked"}
            if b.startswith("o=") and b != "o=":
                return {"kind": "delivery-after-unsubscribe", "event": k, "detail": b}
        return None

    def nontrivial(self, case, lines):
        cut = self._cut(case)
        return any(lines.get(k, "o=") not in ("o=",) for k in range(cut))

    def shrink_candidates(self, case):
        return [c for c in super().shrink_candidates(case) if any(e[0] == "unsub" for e in c.events)]


PROP = C02()
