"""C02 — nothing after unsubscribe() returns (suite `pipe`, synchronous catalogue)."""
import random

from .. import pipegen as pg
from ..case import Case
from ..runner import Prop
from .c01 import gen_cases
from .. import timegen as tg
from .. import coopgen as cg


MULTICAST = ("flatten", "groupby", "share")


class C02(Prop):
    pid = "C02"
    lean_module = "RxModel.Props.C02"
    extra_modules = ("RxModel.Props.C02T", "RxModel.Props.C02C", "RxModel.Props.C02M", "RxModel.Props.C02S")
    design_ref = "DESIGN.md §6 C02"
    # translator tie (DESIGN II.7): src/scheduler.rs itself — TaskHandle's two Subscription impls and the poll functions of
    # Remote / OnceTask / FutureTask / RepeatTask, regenerated from the compiler-expanded source on every run
    tie_modules = {"RxModel.GenTie.Scheduler": [], "RxModel.GenTie.PinsSched": [], "RxModel.GenTie.PinsCore": [],
                   # every task an operator schedules leaves its handle in the composite the subscription tears down, and a late
                   # handle appended to an unsubscribed composite is cancelled at once: the ties of the operators that schedule
                   "RxModel.GenTie.Subscription": [], "RxModel.GenTie.Delay": [], "RxModel.GenTie.DelayThreads": [],
                   "RxModel.GenTie.ObserveOn": [], "RxModel.GenTie.ObserveOnThreads": [], "RxModel.GenTie.Debounce": [],
                   "RxModel.GenTie.Throttle": [], "RxModel.GenTie.MergeAll": [], "RxModel.GenTie.MergeAllThreads": [],
                   "RxModel.GenTie.TimeOpsModel": [], "RxModel.GenTie.WiringDelay": [], "RxModel.GenTie.WiringObserveOn": [],
                   "RxModel.GenTie.WiringDebounce": [], "RxModel.GenTie.WiringThrottle": [], "RxModel.GenTie.WiringBuffer": []}
    rule = ("the C01 case population with `unsub` injected at every position of the event script, followed by "
            "the rest of the script and extra events on every hot input; plus linear chains with every scheduler-using "
            "operator (delay, observe_on, subscribe_on, delay_subscription, debounce, throttle, buffer_with_time, "
            "buffer_with_count_and_time, interval, timer) on the virtual clock, unsubscribed at a random point and "
            "then driven further (clock, timers, tasks in FIFO and arbitrary order). Compared after the cut only. Oracle on "
            "the implementation alone: every event after the cut delivers nothing. non-trivial = something was "
            "delivered before the cut. Suite `coop` (thread-safe flavour, two REAL OS threads scheduled at lock "
            "granularity through hook H2, step model Conc/TimeSteps.lean): for debounce / throttle / delay / observe_on / "
            "buffer_with_time(+count) over a hot source, after each of 8 prefixes (0-2 items, timer armed / fired / "
            "delivered), every `par k A B` with A in {next, complete, error, poll, run}, B in {unsubscribe, next} and "
            "A = unsubscribe, B in {next, poll, run, complete}, for EVERY preemption point k of A (B blocks while A holds "
            "the cell it needs), followed by adv / run / emit / adv / run; plus random scripts with several `par` and "
            "two-stage chains. Compared verbatim with the model (deliveries, R marker, executed schedule, per-thread lock "
            "tokens) for the four modelled operators; oracle on the implementation alone: nothing is delivered after the "
            "marker R (= unsubscribe() returned), no PANIC / DEADLOCK / HANG.")
    assumptions = ["scheduler-using operators: linear chains on the virtual clock (suite `time`), correspondence + oracle"]
    modelled_not_verified = "all Rust code"

    def cases(self, tier, seed):
        rng = random.Random(seed + 2)
        base = gen_cases(rng, tier, pg.single_variants(3), 6000 if tier == "quick" else 60000)
        out = []
        for c in base:
            n = len(c.events)
            cuts = range(1, n + 1) if n <= 6 else sorted(rng.sample(range(1, n + 1), 4))
            for cut in cuts:
                d = c.copy()
                tail = [["emit", str(i), rng.choice([["n", "3"], "c", ["e", "5"]])] for i in range(3)]
                d.events = c.events[:cut] + [["unsub"]] + c.events[cut:] + tail
                d.meta = dict(c.meta, cut=cut)
                out.append(d)
        # scheduler-using operators: unsubscribe at a random point, then let time pass and the executor run
        n = 5000 if tier == "quick" else 50000
        for i in range(n):
            src = tg.sources(rng, ["hot", "hot", "interval", "timer", "iter", "intervalat"])
            pipe = tg.chain(rng, src, list(tg.TIME_OPS), rng.randint(1, 3), p_sync=0.25)
            mode = "mixed" if i % 2 else "fifo"
            evs = tg.events(rng, tg.hist_len(rng, 2, 10), hot=(src[0] == "hot"), mode=mode)
            cut = rng.randint(1, len(evs))
            tail = [["adv", str(rng.choice([1, 5, 10]))], ["run"], ["emit", "0", ["n", "99"]], ["adv", "20"], ["run"]]
            evs = evs[:cut] + [["unsub"]] + evs[cut:] + tail
            fl = rng.choice(["local", "threads"])
            fields = ([("locktrace", ["1"])] if fl == "threads" else []) + [("pipe", [pipe])]
            out.append(Case("time", fl, fields, evs, {"kind": "time-" + mode, "cut": cut}))
        # a later task finishes before an earlier one (legal for any executor), another notification arrives,
        # then unsubscribe: every task still pending must be cancelled whatever bookkeeping the operator did
        # in between (delay / observe_on keep one handle per notification in a shared composite)
        for head in (["observeon"], ["delay", "0"], ["delay", "2"]):
            for k in (2, 3):
                for j in range(1, k):
                    for nxt in (["emit", "0", ["n", "9"]], ["emit", "0", "c"], None):
                        for fl in ("local", "threads"):
                            evs = [["sub"]] + [["emit", "0", ["n", str(i + 1)]] for i in range(k)]
                            if head == ["delay", "2"]:
                                evs += [["run"], ["adv", "2"], ["fire", str(j)]]
                            evs += [["poll", str(j)]]
                            if nxt:
                                evs.append(nxt)
                            cut = len(evs)
                            evs += [["unsub"], ["run"], ["adv", "5"], ["run"], ["emit", "0", ["n", "99"]], ["run"]]
                            pipe = head + [["hot", "0"]]
                            if rng.random() < 0.3:
                                pipe = ["map", "add1", pipe]
                            out.append(Case("time", fl, [("pipe", [pipe])], evs,
                                            {"kind": "time-overtake", "cut": cut}))
        # degenerate windows: debounce / throttle with window 0 (every item still goes through its own scheduler task),
        # several items before the executor gets a turn, unsubscribe, THEN the executor runs: every task that was
        # scheduled must have been cancelled (seed C02-9: a zero-length window counted as over at once, the next item's
        # handle overwrote the pending one in the shared cell without cancelling it)
        for st in (["debounce", "0"], ["throttle", "0", "t"], ["throttle", "0", "a"], ["throttle", "0", "l"],
                   ["debounce", "1"], ["throttle", "1", "t"], ["throttle", "1", "a"]):
            for k in (1, 2, 3, 4):
                for mid in ([], [["poll", "0"]], [["run"]], [["adv", "1"]]):
                    for fl in ("local", "threads"):
                        evs = [["sub"]]
                        for i in range(k):
                            evs.append(["emit", "0", ["n", str(i + 1)]])
                            if i == 0:
                                evs += mid
                        cut = len(evs)
                        evs += [["unsub"], ["run"], ["adv", "3"], ["run"], ["emit", "0", ["n", "99"]], ["adv", "3"], ["run"]]
                        pipe = st + [["hot", "0"]]
                        if (k + len(mid)) % 3 == 0:
                            pipe = ["map", "add1", pipe]
                        out.append(Case("time", fl, [("pipe", [pipe])], evs, {"kind": "time-zero-window", "cut": cut}))
        # a two-input operator inside a time chain, its second input being its own source (another hot subject, an
        # interval): unsubscribing must also end that second subscription / cancel its task, and a terminal of the
        # second input must be handled where the chain model handles it (`TW.deliverNotifiers`, `unsubFrom` of an
        # `op2n` stage; found unexercised by tools/model_mutants.py: no generator put a hot subject there and none
        # unsubscribed with an interval there)
        rng2 = random.Random(seed + 202)      # own stream: the populations above and below stay what they were
        for i in range(n // 8):
            k = rng2.choice(pg.TWO)
            main = tg.chain(rng2, ["hot", "0"], list(tg.TIME_OPS), rng2.randint(0, 2), p_sync=0.4)
            nsrc = rng2.choice([["hot", "1"], ["hot", "1"], ["interval", str(rng2.choice([1, 3]))]])
            pipe = [k, main, nsrc]
            if rng2.random() < 0.5:
                pipe = tg.chain(rng2, pipe, list(tg.TIME_OPS), 1, p_sync=0.5)
            evs = [["sub"], ["run"]]
            nxt = 1
            for _ in range(rng2.randint(2, 9)):
                r = rng2.random()
                if r < 0.3:
                    evs.append(["emit", "0", ["n", str(nxt)]]); nxt += 1
                elif r < 0.55 and nsrc[0] == "hot":
                    evs.append(["emit", "1", ["n", str(50 + nxt)]]); nxt += 1
                elif r < 0.62 and nsrc[0] == "hot":
                    evs.append(["emit", "1", rng2.choice(["c", ["e", "4"]])])
                elif r < 0.67:
                    evs.append(["emit", "0", rng2.choice(["c", ["e", "3"]])])
                else:
                    evs.append(["adv", str(rng2.choice([1, 1, 3]))])
                evs.append(["run"])
            cut = rng2.randint(2, len(evs))
            tail = [["adv", "1"], ["run"], ["emit", "0", ["n", "99"]], ["run"]] + \
                   ([["emit", "1", ["n", "98"]], ["run"]] if nsrc[0] == "hot" else []) + [["adv", "20"], ["run"]]
            evs = evs[:cut] + [["unsub"]] + evs[cut:] + tail
            fl = rng2.choice(["local", "threads"])
            fields = ([("locktrace", ["1"])] if fl == "threads" else []) + [("pipe", [pipe])]
            out.append(Case("time", fl, fields, evs, {"kind": "time-two-input", "cut": cut}))
        # two real threads at lock granularity (suite `coop`): the emitter / the executor against unsubscribe()
        out += cg.cases(tier, seed)
        # the same with REAL blocking (event `ru <event>`: another OS thread calls unsubscribe() while the probe is inside a
        # delivery of that event; no cooperative scheduler in between, a try_lock really fails)
        for pipe in (["hot", "0"], ["map", "add1", ["hot", "0"]], ["filter", "true", ["hot", "0"]],
                     ["merge", ["hot", "0"], ["hot", "1"]], ["scan", "add", "0", ["hot", "0"]]):
            for tail in ([["emit", "0", "c"]], [["emit", "0", ["e", "5"]]], [["emit", "0", ["n", "8"]], ["emit", "0", "c"]],
                         [["emit", "0", ["n", "8"]]]):
                for pre in ([], [["emit", "0", ["n", "1"]]]):
                    evs = [["sub"]] + pre + [["ru", "emit", "0", ["n", "7"]]] + tail
                    out.append(Case("time", "threads", [("pipe", [pipe])], evs, {"kind": "race-unsub"}))
        # unsubscribe() arriving WHILE a delivery to that very subscriber is in flight on another thread (the subscriber's
        # callback is a yield point, `pyield`), over pipelines WITHOUT a scheduler: the unsubscribing thread waits for the
        # subscriber's cell; after it has returned neither an item nor a TERMINAL is delivered (seed C02-12: a try_lock in
        # Subscriber::unsubscribe raised a flag that only the item path honoured)
        for pipe in (["hot", "0"], ["map", "add1", ["hot", "0"]], ["filter", "true", ["hot", "0"]],
                     ["take", "9", ["hot", "0"]], ["fin", ["hot", "0"]]):
            for tail in ([["emit", "0", "c"]], [["emit", "0", ["e", "5"]]], [["emit", "0", ["n", "8"]], ["emit", "0", "c"]]):
                for pre in ([], [["emit", "0", ["n", "1"]]]):
                    for k in range(0, 7):
                        c = cg.mk(pipe, pre + [["par", str(k), ["emit", "0", ["n", "7"]], ["unsub"]]] + tail, "coop-bare")
                        c.fields = [("pyield", ["1"])] + c.fields
                        out.append(c)
        # merge_all / group_by / share (theorems C02M_* over their own models): the histories of the C05 / C20 /
        # C11 populations that unsubscribe somewhere; full lines compared from the first unsubscription on
        import importlib
        for name, cap in (("c05", 2500), ("c20", 2500), ("c11", 2500)):
            try:
                owner = importlib.import_module(f"vlib.props.{name}").PROP
                cs = [c for c in owner.cases("quick", seed) if not owner.compare_from(c)]
            except Exception as ex:            # pragma: no cover
                print(f"note: C02 skips the {name} population: {ex}")
                continue
            cs = [c for c in cs if c.suite in MULTICAST and any(e[0] in ("unsub", "gunsub") for e in c.events)]
            rng.shuffle(cs)
            for c in cs[: cap if tier == "quick" else cap * 4]:
                c.meta = {"kind": "multicast-" + name}
                out.append(c)
        # the OUTER stream of merge_all hands out an inner synchronously while it is being subscribed and stays live
        # (harness field `outer0 k`: subject.start_with([inner k])): whatever the operator keeps of its subscriptions,
        # unsubscribe() must still reach the outer source — an inner that emits at subscription, handed out afterwards,
        # delivers nothing (seed C02-11 truncated the teardown list to its first entry, assuming that one is the outer's)
        from .c05 import mk_case as mk5
        for limit in ("inf", 1, 2):
            for first in (["cold", ["10", "11"], "c"], ["cold", [], "c"], ["cold", ["10"]]):
                for fl in ("local", "threads"):
                    inners = [first, ["hot", "1"], ["cold", ["20"], "c"], ["cold", ["30", "31"]]]
                    for mid in ([["outer", ["o", "1"]], ["inner", "1", ["n", "5"]]],
                                [["outer", ["o", "1"]], ["inner", "1", ["n", "5"]], ["inner", "1", "c"], ["outer", ["o", "1"]]],
                                [["outer", ["o", "2"]], ["outer", ["o", "1"]]],
                                []):
                        evs = mid + [["unsub"], ["outer", ["o", "2"]], ["outer", ["o", "3"]], ["inner", "1", ["n", "6"]],
                                     ["outer", "c"]]
                        c = mk5(limit, inners, evs, fl, kind="outer0")
                        c.fields = [("outer0", ["0"])] + c.fields
                        c.meta = {"kind": "multicast-outer0"}
                        out.append(c)
        # merge_all with a finite limit: a queued inner that completes INSIDE its own subscription is started from a
        # finishing inner's `complete`, a long-lived inner waits behind it (and is started re-entrantly); then the
        # merged stream is unsubscribed and the long-lived inner emits again (seed C02-7: its subscription had been
        # dropped from the teardown list by the hand-over)
        from . import c05 as m5
        for L in (1, 2, 3):
            for ncold in (1, 2, 3):
                for nlate in (1, 2):
                    for outer_c in (False, True):
                        for fl in ("local", "threads"):
                            inners = [m5.hot(j) for j in range(L)]
                            inners += [m5.cold(L + i, (i + ncold) % 3, "c") for i in range(ncold)]
                            inners += [m5.hot(L + j) for j in range(nlate)]
                            evs = [["outer", ["o", str(k)]] for k in range(len(inners))]
                            if outer_c:
                                evs.append(["outer", "c"])
                            evs += m5.hot_timeline(0, 1, "c")                      # frees a slot: the hand-over chain runs
                            evs += m5.hot_timeline(L, 1, None)                     # the late hot inner delivers
                            evs.append(["unsub"])
                            for j in range(L + nlate):
                                evs += m5.hot_timeline(j, 1, None, base=70)        # nothing may arrive any more
                            c = m5.mk_case(L, inners, evs, fl, kind="handover")
                            c.meta = {"kind": "multicast-c05-handover"}
                            out.append(c)
        rng5 = random.Random(seed + 205)
        for i in range(1500 if tier == "quick" else 15000):
            c = m5.PROP._random_case(rng5, wide=(i % 6 == 0))
            evs = [e for e in c.events if e[0] != "unsub"]
            nsubj = 1 + max([int(e[1]) for e in evs if e[0] == "inner"] + [0])
            cut = rng5.randint(max(1, len(evs) // 2), len(evs))
            tail = []
            for j in range(nsubj):
                tail += m5.hot_timeline(j, 1, None, base=80)
            c.events = evs[:cut] + [["unsub"]] + evs[cut:] + tail
            c.meta = {"kind": "multicast-c05-late-unsub"}
            out.append(c)
        return out

    def _multicast_oracle(self, case, lines):
        """Nothing reaches a stream after ITS unsubscription has returned.  flatten: `unsub` silences the merged
        stream; groupby: `unsub` silences everything, `gunsub k` group k (if the group existed by then — before
        that there is no subscription to end: C02M_groupby_gunsub_statement is refuted by exactly that);
        share: `unsub k` silences label k until a later `sub k` (histories where a label is re-used while held
        are skipped: C02M_share_label_statement)."""
        dead = set()
        seen_groups = set()
        held = set()
        if case.suite == "share":
            h = set()
            for e in case.events:
                if e[0] == "sub":
                    if e[1] in h:
                        return None
                    h.add(e[1])
                elif e[0] == "unsub":
                    h.discard(e[1])
        for k, e in enumerate(case.events):
            b = lines.get(k)
            if b is None:
                continue
            if b in ("PANIC", "RELOCK", "HANG"):
                return None     # stuck merge_all: C05's finding
            toks = []
            if case.suite == "share":
                if e[0] == "sub":
                    dead.discard("s" + e[1])
                if b.startswith("d="):
                    toks = [("s" + t.partition(":")[0], t) for t in b[2:].split(" ")[0].split(";") if t]
            elif b.startswith("o="):
                body = b[2:].split(" ")[0] if case.suite == "groupby" else b[2:]
                for t in body.split(";"):
                    if not t:
                        continue
                    if case.suite == "groupby" and t[0] == "g":
                        toks.append((t.partition(":")[0], t))
                    else:
                        toks.append(("outer", t))
            for lab, t in toks:
                if lab in dead or "*" in dead:
                    return {"kind": "delivery-after-unsubscribe", "event": k, "detail": f"stream {lab}: {t} in {b}"}
                seen_groups.add(lab)
            if e[0] == "unsub":
                dead.add("s" + e[1] if case.suite == "share" else "*")
            elif e[0] == "gunsub" and ("g" + e[1]) in seen_groups:
                dead.add("g" + e[1])
        return None

    def _cut(self, case):
        for k, e in enumerate(case.events):
            if e[0] in ("unsub", "gunsub", "ru"):
                return k
        return len(case.events)

    def compare_from(self, case):
        if case.suite == "coop":
            return 0 if cg.modelled(case) else len(case.events)
        return self._cut(case)

    def project(self, body):
        from .c10 import strip_lock
        return strip_lock(body)

    def oracle(self, case, lines, model_lines=None):
        if case.suite == "coop":
            return cg.oracle(case, lines)
        if case.suite in MULTICAST:
            return self._multicast_oracle(case, lines)
        # thread-safe form: unsubscribe() can only wait for a running task if the task body runs
        # inside the section of its handle's mutex (lock trace through hook H2)
        from .c19 import handle_section_failure
        f = handle_section_failure(case, lines)
        if f:
            return f
        cut = self._cut(case)
        if cut < len(case.events) and case.events[cut][0] == "ru":
            cut += 1       # (`ru`: the delivery of that event is legitimate, the unsubscription returns after it)
        for k in range(cut, len(case.events)):
            b = lines.get(k)
            if b is None:
                continue
            if b == "PANIC":
                return {"kind": "panic", "event": k, "detail": "implementation panicked"}
            if b.startswith("o=") and not (b == "o=" or b.startswith("o= ")):
                return {"kind": "delivery-after-unsubscribe", "event": k, "detail": b}
        return None

    def nontrivial(self, case, lines):
        if case.suite == "coop":
            return cg.nontrivial(case, lines)
        if case.suite in MULTICAST:
            return any(b.startswith(("o=", "d=")) and b[2:3] not in ("", " ") for b in lines.values())
        cut = self._cut(case)
        return any(not (lines.get(k, "o=") == "o=" or lines.get(k, "o=").startswith("o= ")) for k in range(cut))

    def shrink_candidates(self, case):
        if case.suite == "coop":
            return cg.shrink_candidates(case)
        if case.suite in MULTICAST:
            out = []
            for i in range(len(case.events)):
                c = case.copy()
                del c.events[i]
                out.append(c)
            return out
        cands = tg.time_shrink(case) if case.suite == "time" else super().shrink_candidates(case)
        return [c for c in cands if any(e[0] == "unsub" for e in c.events)]

    def signature(self, case, failure):
        if case.suite == "coop":
            return cg.signature(case, failure)
        if case.suite in MULTICAST:
            return f"{failure['kind']}|{case.suite}"
        if case.suite != "time":
            return super().signature(case, failure)
        node, hs = case.field("pipe")[0], []
        while isinstance(node, list) and node:
            hs.append(node[0])
            node = node[-1] if isinstance(node[-1], list) and node[0] not in ("iter", "create") else None
        ops = sorted(set(h for h in hs if h in tg.TIME_OPS))
        return f"{failure['kind']}|time|{','.join(ops)}"


PROP = C02()
