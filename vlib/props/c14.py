"""C14 — conversions and completion status report the real outcome and never hang
(sequential part: suite `convert`; the waiter/producer race of complete_status is
proved in the lock-level LTS)."""
import itertools
import random
import re

from ..case import Case
from ..runner import Prop

# Which Lean transcription the driver runs: "code" = /repo as it is,
# "fixed" = the repaired code (flip after the fix commits of findings 2 and 3).
MODEL = "fixed"

KINDS = ("future", "stream", "collectfuture", "status")


def N(v):
    return ["n", str(v)]


def E(e):
    return ["e", str(e)]


def emit(n):
    return ["emit", "0", n]


POLL = ["poll"]
QST = ["q", "status"]
SUB = ["sub"]
DROP = ["drop"]


def drop_ok(case):
    """Event `drop` (the future / stream under test is dropped while its observer still sits in the source
    subject).  Outside the property and not generated: a dropped STREAM whose source emits another ITEM before
    its terminal — `ObservableStreamObserver::next` expects the send (a panic that predates every fix)."""
    if case.field("kind")[0] != "stream":
        return True
    dropped = False
    for ev in case.events:
        if ev[0] == "drop":
            dropped = True
        elif ev[0] == "emit":
            n = ev[2]
            if n == "c" or n[0] == "e":
                return True
            if dropped:
                return False
    return True

# kind statustake: what sits between complete_status() and the probe, and the source in front of it
CUTTERS_QUICK = (["id"], ["take", "0"], ["take", "1"], ["take", "2"], ["first"],
                 ["takewhile", "lt2"], ["takewhilei", "lt2"])
CUTTERS_MORE = (["take", "3"], ["takewhile", "lt3"], ["takewhile", "false"], ["takewhilei", "gt1"],
                ["takewhile", "true"])


def mk_case(kind, flavor, events, meta):
    return Case("convert", flavor, [("kind", [kind]), ("model", [MODEL])], events, meta)


def mk_take_case(flavor, src, cutter, events, meta=None):
    return Case("convert", flavor, [("kind", ["statustake"]), ("src", [src]), ("cutter", [cutter]),
                                    ("model", [MODEL])], events, meta or {"kind": "statustake"})


def mk_wait_case(src, cutter, pre, term, flavor="threads"):
    return Case("convert", flavor, [("kind", ["statuswait"]), ("src", [src]), ("cutter", [cutter]),
                                    ("pre", list(pre)), ("model", [MODEL])], [["term", term]],
                {"kind": "statuswait-cut"})


def src_head(case):
    f = case.field("src")
    return f[0][0] if f else None


def source_history(case, upto=None):
    """(items, terminal) the hot source has delivered before event index `upto`
    (the subject swallows everything after its first terminal)."""
    items, term = [], None
    evs = case.events if upto is None else case.events[:upto]
    if src_head(case) == "iter":
        # from_iter: the source runs to its end (and completes) inside the subscription
        return items, (("c", None) if any(ev[0] == "sub" for ev in evs) else None)
    for ev in evs:
        if ev[0] != "emit" or term is not None:
            continue
        n = ev[2]
        if n == "c":
            term = ("c", None)
        elif n[0] == "e":
            term = ("e", int(n[1]))
        else:
            items.append(n[1])
    return items, term


def show_val(v):
    if isinstance(v, list):
        return "(" + " ".join(show_val(x) for x in v) + ")"
    return str(v)


def future_expected(kind, items, term):
    """Set of accepted `poll=Ready(..)` bodies once the source has terminated."""
    if kind == "collectfuture":
        if term[0] == "c":
            return {"Ok((l" + "".join(" " + show_val(v) for v in items) + "))"}
        return {f"SrcErr({term[1]})"}
    if term[0] == "c":
        if not items:
            return {"Err(Empty)"}
        if len(items) == 1:
            return {f"Ok({show_val(items[0])})"}
        return {"Err(MultipleValues)"}
    # source error.  DECISION (DESIGN §7): after items the code answers MultipleValues, the docs
    # say nothing: both that and the error are accepted; without items it must be the error.
    if not items:
        return {f"SrcErr({term[1]})"}
    return {f"SrcErr({term[1]})", "Err(MultipleValues)"}


def stream_expected(items, term):
    out = [f"Some(Ok({show_val(v)}))" for v in items]
    if term is not None:
        if term[0] == "e":
            out.append(f"Some(Err({term[1]}))")
        out.append("None")
    return out


class C14(Prop):
    pid = "C14"
    lean_module = "RxModel.Props.C14"
    extra_modules = ("RxModel.Props.C14T", "RxModel.Props.C14K", "RxModel.Props.C14D")
    design_ref = "DESIGN.md §6 C14, §7 findings 2, 3"
    # translator tie (DESIGN II.7): to_stream / to_future — the channel observers and the poll functions of the receiving
    # side, from the compiler-expanded source; with `future_outcome_*`: what to_future resolves to for EVERY history
    tie_modules = {"RxModel.GenTie.Conversions": [],
                   "RxModel.GenTie.CompleteStatus": [],     # complete_status: observer, queries, StatusFuture::poll in closed form
                   # transcription pins (DESIGN II.7, weakest tie): the token text of the hand-transcribed files is the one the model was made from
                   "RxModel.GenTie.PinsConvert": [],
    }
    rule = ("bounded-exhaustive: kind in {to_future, to_stream, collect+to_future, complete_status} x "
            "flavor {local, threads} x source script (0..k distinct items, then complete / error / neither; "
            "k = 3 quick, 4 thorough) x every subset of the gaps before/between/after the source events "
            "receiving one poll (thorough: 0..2 polls per gap for k <= 3) + a tail of polls long enough to "
            "drain; plus post-terminal source events and repeated items; status: flag queries in every gap. "
            "statustake: source {hot Subject, create (producer calls the Subscriber), from_iter(1..=k)} x cutter "
            "{none, take 0..2, first, take_while/_inclusive lt2; thorough: + take 3, lt3, false, true, gt1} between "
            "complete_status() and the probe x flavor x script (0..3 items, then complete / error / neither, "
            "post-terminal calls) x every subset of the gaps receiving a poll, flag queries in alternate gaps; "
            "statuswait with a cutter: items that let the cutter finish, THEN the waiter parks, then the terminal. "
            "drop: every kind x flavor x script (0..2 items, complete / error, post-terminal events) x the consumer "
            "(future / stream) dropped in every gap, a poll before it or not: no source event may panic "
            "afterwards, later polls are not made (status: unaffected). "
            "Non-trivial = some poll was Ready / some flag query was answered; distinct = distinct case text.")
    assumptions = [
        "sequential histories only: source calls and polls happen on one thread (the waiter/producer race of "
        "complete_status is the LTS part of C14)",
        "StatusFuture is private: `poll` of kind status is `is_closed()` followed by `wait_for_end` when closed",
        "a future is not polled again after Ready, a stream not after None: such polls are generated but not judged",
        "to_future on [item.., error]: MultipleValues and the error are both accepted (DESIGN §7 decision)",
        "statustake: 'the source has terminated' = the hot subject / the producer of create has been called with its "
        "first terminal, from_iter has been subscribed; the oracle judges the flag queries and the polls after that "
        "point whatever the downstream cutter did",
    ]
    modelled_not_verified = ("src/ops/{future,stream,collect,complete_status}.rs, the Subject/Subscriber slot and "
                             "futures-channel's unbounded mpsc (incl. the receiver's Drop: RxModel/Conv/Dropped.lean) are hand "
                             "transcriptions (RxModel/Conv/Convert.lean); take / take_while / "
                             "Subject's terminal fan-out / create / from_iter below complete_status: "
                             "RxModel/Conv/StatusTake.lean, "
                             "validated only on the generated cases")

    def corpus(self):
        # corpus files carry no `model` field: the driver runs the transcription selected by MODEL
        out = super().corpus()
        for c in out:
            c.fields = [(k, v) for k, v in c.fields if k != "model"] + [("model", [MODEL])]
        return out

    # ------------------------------------------------------------ generator
    def cases(self, tier, seed):
        rng = random.Random(seed)
        kmax = 3 if tier == "quick" else 4
        out = []
        # wait_for_end racing with the producer at the hooked yield point (H3): the producer's
        # terminal runs exactly between the waiter's flag check and its waker registration
        out.append(Case("convert", "threads", [("kind", ["statusrace"]), ("model", [MODEL])],
                        [["race", "c"], ["race", E(3)], ["race", "c"]], {"kind": "statusrace"}))
        # the waiter already parked (flag checked, waker registered, asleep) when the producer terminates from
        # another thread: completion, error, item + completion
        out.append(Case("convert", "threads", [("kind", ["statuswait"]), ("model", [MODEL])],
                        [["term", "c"], ["term", E(3)], ["term", N(1)], ["term", E(7)]], {"kind": "statuswait"}))
        scripts = []
        for k in range(kmax + 1):
            items = [N(i + 1) for i in range(k)]
            for term in (None, "c", E(7)):
                scripts.append((items, term, []))
        # repeated items, post-terminal events
        for term in ("c", E(7)):
            for tail in ([N(9)], ["c"], [E(8)], [N(9), E(8), "c"]):
                scripts.append(([N(1)], term, tail))
                scripts.append(([], term, tail))
        scripts.append(([N(2), N(2)], "c", []))
        scripts.append(([N(0), N(-1), N(0)], E(-3), []))
        for kind in KINDS:
            for flavor in ("local", "threads"):
                for items, term, tail in scripts:
                    src = [emit(n) for n in items] + ([emit(term)] if term else []) + [emit(n) for n in tail]
                    gaps = len(src) + 1
                    drain = [POLL] * (len(items) + 3)
                    per_gap = (0, 1)
                    if tier != "quick" and gaps <= 5:
                        per_gap = (0, 1, 2)
                    for counts in itertools.product(per_gap, repeat=gaps):
                        evs = []
                        for g in range(gaps):
                            evs += [POLL] * counts[g]
                            if kind == "status" and (sum(counts) + g) % 2 == 0:
                                evs.append(QST)
                            if g < len(src):
                                evs.append(src[g])
                        evs += drain
                        if kind == "status":
                            evs.append(QST)
                        out.append(mk_case(kind, flavor, evs, {"kind": kind}))
        out += self.take_cases(tier, rng)
        out += self.drop_cases(tier, rng)
        # two tasks taking turns on one future / stream (harness field `twowakers`: the polls alternate between two
        # long-lived wakers A, B, A, …): the one to be woken is the waker of the LAST poll (seed C14-11 remembered the
        # first waker and skipped the re-registration when it came back)
        for kind in ("future", "collectfuture", "stream"):
            for flavor in ("local", "threads"):
                for npolls in (1, 2, 3, 4, 5):
                    for pre in ([], [emit(N(1))]):
                        for term in ([emit(N(2)), emit("c")], [emit("c")], [emit(E(7))]):
                            evs = [POLL] * npolls + pre + ([POLL] if pre and kind == "stream" else []) + term + [POLL, POLL]
                            c = mk_case(kind, flavor, evs, {"kind": kind + "-twowakers"})
                            c.fields = [("twowakers", ["1"])] + c.fields
                            out.append(c)
        # random longer histories
        n = 400 if tier == "quick" else 4000
        for _ in range(n):
            kind = rng.choice(KINDS)
            evs = []
            for _ in range(rng.randint(1, 12)):
                r = rng.random()
                if r < 0.4:
                    evs.append(POLL)
                elif r < 0.8:
                    evs.append(emit(N(rng.choice([0, 1, 2, -1]))))
                elif r < 0.88:
                    evs.append(emit("c"))
                elif r < 0.96:
                    evs.append(emit(E(rng.choice([3, 4]))))
                else:
                    evs.append(QST)
            evs += [POLL] * rng.randint(0, 4)
            out.append(mk_case(kind, rng.choice(("local", "threads")), evs, {"kind": "random-" + kind}))
        # wide histories: bursts of 20..150 items queued before the consumer polls, a lagging consumer, then the
        # terminal (batch sizes, yield budgets and queue capacities of an implementation lie beyond the short scripts)
        for _ in range(n // 2):
            kind = rng.choice(KINDS)
            evs = []
            k = 0
            for _ in range(rng.randint(1, 4)):
                if rng.random() < 0.4:
                    evs += [POLL] * rng.randint(1, 3)
                for _ in range(rng.choice([20, 33, 40, 65, 130, 150])):
                    k += 1
                    evs.append(emit(N(k % 7)))
                evs += [POLL] * rng.choice([0, 1, 5, 40])
            r = rng.random()
            if r < 0.45:
                evs.append(emit("c"))
            elif r < 0.9:
                evs.append(emit(E(3)))
            evs += [POLL] * (k + 3)
            if kind == "status":
                evs.append(QST)
            out.append(mk_case(kind, rng.choice(("local", "threads")), evs, {"kind": "wide-" + kind}))
        # interleave the kinds (the runner shrinks only the first few hundred failures)
        by = {}
        for c in out:
            by.setdefault(c.field("kind")[0], []).append(c)
        mixed = []
        for tup in itertools.zip_longest(*by.values()):
            mixed += [c for c in tup if c is not None]
        return mixed

    def drop_cases(self, tier, rng):
        """The consumer (future / stream) is dropped while its observer still sits in the source subject; the
        source goes on and terminates: nothing may panic (the subject hands its terminal to every subscriber,
        also to one that reports is_finished() = sender.is_closed())."""
        out = []
        scripts = []
        for k in range(3):
            for term in ("c", E(7)):
                for tail in ([], [N(9), "c", E(8)]):
                    scripts.append(([N(i + 1) for i in range(k)], term, tail))
        for kind in KINDS:
            for flavor in ("local", "threads"):
                for items, term, tail in scripts:
                    src = [emit(n) for n in items] + [emit(term)] + [emit(n) for n in tail]
                    for at in range(len(src) + 1):
                        for pre_poll in (False, True):
                            evs = []
                            for g, e in enumerate(src):
                                if g == at:
                                    evs += ([POLL] if pre_poll else []) + [DROP]
                                evs.append(e)
                            if at == len(src):
                                evs += ([POLL] if pre_poll else []) + [DROP]
                            evs += [POLL] + ([QST] if kind == "status" else [])
                            c = mk_case(kind, flavor, evs, {"kind": "drop-" + kind})
                            if drop_ok(c):
                                out.append(c)
        n = 100 if tier == "quick" else 1000
        for _ in range(n):
            kind = rng.choice(KINDS)
            evs = []
            for _ in range(rng.randint(1, 10)):
                r = rng.random()
                if r < 0.25:
                    evs.append(POLL)
                elif r < 0.6:
                    evs.append(emit(N(rng.choice([0, 1, 2]))))
                elif r < 0.72:
                    evs.append(emit("c"))
                elif r < 0.84:
                    evs.append(emit(E(rng.choice([3, 4]))))
                else:
                    evs.append(DROP)
            if DROP not in evs:
                evs.insert(rng.randint(0, len(evs)), DROP)
            evs.append(rng.choice((emit("c"), emit(E(5)))))
            c = mk_case(kind, rng.choice(("local", "threads")), evs, {"kind": "random-drop-" + kind})
            if drop_ok(c):
                out.append(c)
        return out

    def take_cases(self, tier, rng):
        """complete_status() whose downstream can finish before the source does."""
        out = []
        cutters = list(CUTTERS_QUICK) + (list(CUTTERS_MORE) if tier != "quick" else [])
        kmax = 3 if tier == "quick" else 4
        scripts = []
        for k in range(kmax + 1):
            for term in (None, "c", E(7)):
                scripts.append(([N(i + 1) for i in range(k)], term, []))
        for term in ("c", E(7)):
            for tail in ([N(9)], ["c"], [E(8)], [N(9), E(8), "c"]):
                scripts.append(([N(1), N(2)], term, tail))
        scripts.append(([N(2), N(2), N(1)], "c", []))
        scripts.append(([N(0), N(-1), N(5)], E(-3), []))
        for src in (["hot"], ["create"]):
            for cutter in cutters:
                for flavor in ("local", "threads"):
                    for items, term, tail in scripts:
                        evs_src = [emit(n) for n in items] + ([emit(term)] if term else []) + [emit(n) for n in tail]
                        gaps = len(evs_src) + 1
                        if gaps <= 6:
                            placements = list(itertools.product((0, 1), repeat=gaps))
                        else:
                            placements = [tuple(rng.choice((0, 1)) for _ in range(gaps)) for _ in range(24)]
                            placements += [(0,) * gaps, (1,) * gaps]
                        for counts in placements:
                            evs = []
                            for g in range(gaps):
                                evs += [POLL] * counts[g]
                                if (sum(counts) + g) % 2 == 0:
                                    evs.append(QST)
                                if g < len(evs_src):
                                    evs.append(evs_src[g])
                            evs += [POLL, QST]
                            out.append(mk_take_case(flavor, src, cutter, evs))
        # from_iter: polls / queries before and after the subscription; a second `sub` and stray emits do nothing
        for k in ((0, 1, 2, 3, 5) if tier == "quick" else (0, 1, 2, 3, 4, 5, 8)):
            for cutter in cutters:
                for flavor in ("local", "threads"):
                    for pre in ([], [POLL], [QST], [POLL, QST], [emit(N(4)), POLL]):
                        for post in ([POLL, QST], [QST, POLL, SUB, QST], [emit("c"), QST, POLL]):
                            out.append(mk_take_case(flavor, ["iter", str(k)], cutter, pre + [SUB] + post))
                    out.append(mk_take_case(flavor, ["iter", str(k)], cutter, [POLL, QST, emit("c"), POLL, QST]))
        # the waiter is parked AFTER the cutter has finished (or not), then the terminal arrives
        wait_cutters = (["id"], ["take", "1"], ["take", "2"], ["takewhile", "lt2"])
        for cutter in wait_cutters:
            for pre in ([], [N(1), N(2)]):
                for term in ("c", E(3)):
                    out.append(mk_wait_case(["hot"], cutter, pre, term))
                for term in ("c", E(3), N(5)):
                    out.append(mk_wait_case(["create"], cutter, pre, term))
        for cutter in (["id"], ["take", "0"], ["take", "1"], ["take", "2"], ["takewhilei", "lt2"]):
            for k in (0, 3):
                out.append(mk_wait_case(["iter", str(k)], cutter, [], "c"))
        # random longer histories
        n = 300 if tier == "quick" else 3000
        for _ in range(n):
            src = rng.choice((["hot"], ["create"], ["create"], ["iter", str(rng.randint(0, 6))]))
            cutter = rng.choice(cutters)
            evs = []
            for _ in range(rng.randint(1, 12)):
                r = rng.random()
                if r < 0.3:
                    evs.append(POLL)
                elif r < 0.7:
                    evs.append(emit(N(rng.choice([0, 1, 2, 3, -1]))))
                elif r < 0.78:
                    evs.append(emit("c"))
                elif r < 0.86:
                    evs.append(emit(E(rng.choice([3, 4]))))
                elif r < 0.92:
                    evs.append(SUB)
                else:
                    evs.append(QST)
            evs += [POLL, QST]
            out.append(mk_take_case(rng.choice(("local", "threads")), src, cutter, evs,
                                    {"kind": "random-statustake"}))
        return out

    # --------------------------------------------------------------- oracle
    def oracle_take(self, case, lines):
        """statustake, on the implementation's output alone: once the source's first terminal has been emitted
        `q status` says closed with the right completed / error bits and `poll` is Ready; before it the status is
        running and `poll` Pending — whatever the cutter did to the downstream."""
        plain = case.field("cutter")[0][0] == "id"
        for k, ev in enumerate(case.events):
            body = lines.get(k)
            if body is None:
                if any(b == "PANIC" for b in lines.values()):
                    return {"kind": "panic", "event": k, "detail": "case stopped by a panic"}
                return {"kind": "missing-line", "event": k, "detail": ""}
            if body == "PANIC":
                return {"kind": "panic", "event": k, "detail": "panic inside the library"}
            items, term = source_history(case, k)
            if ev[0] == "emit":
                if plain and src_head(case) != "iter":
                    exp = ""
                    if term is None:
                        n = ev[2]
                        exp = "C" if n == "c" else ("E" + n[1] if n[0] == "e" else "N" + show_val(n[1]))
                    if body != "o=" + exp:
                        return {"kind": "status-downstream", "event": k, "detail": f"got {body} want o={exp}"}
                continue
            if ev[0] == "sub":
                continue
            if ev[0] == "q":
                want = "closed=%d completed=%d error=%d" % (term is not None, bool(term and term[0] == "c"),
                                                            bool(term and term[0] == "e"))
                if body != want:
                    return {"kind": "status-flag", "event": k,
                            "detail": f"source terminal {term}: got {body} want {want}"}
                continue
            want = "poll=Ready" if term is not None else "poll=Pending"
            if body != want:
                kd = "pending-after-termination" if term is not None else "ready-before-termination"
                return {"kind": kd, "event": k, "detail": f"source terminal {term}: got {body}"}
        return None

    def project(self, body):
        # the status queries made around a parked waiter are judged by the oracle, the model line is `wait=…` alone
        i = body.find(" q=")
        return body[:i] if i >= 0 and body.startswith("wait=") else body

    def oracle(self, case, lines, model_lines=None):
        kind = case.field("kind")[0]
        if kind == "statustake":
            return self.oracle_take(case, lines)
        if kind in ("statusrace", "statuswait"):
            for k in range(len(case.events)):
                b = lines.get(k) or ""
                if b.split(" ")[0] != "wait=returned":
                    return {"kind": "lost-wakeup", "event": k,
                            "detail": f"wait_for_end did not return although the source has terminated: {lines.get(k)}"}
                if " q=" in b:
                    # is_completed / error_occur / is_closed asked by another thread WHILE the waiter is parked (the
                    # source still running) and after the end: "reports completed or error exactly when the source has
                    # terminated" (seed C14-10: a PARKED state of the flag read as completed)
                    pre, post = b.split(" q=")[1].split("/")
                    ev = case.events[k]
                    err = isinstance(ev[1], list) and ev[1][0] == "e"
                    want = "011" if err else "101"
                    if pre != "000":
                        return {"kind": "status-before-terminal", "event": k,
                                "detail": f"completed/error/closed = {pre} while the source is still running (a waiter is parked)"}
                    if post != want:
                        return {"kind": "status-after-terminal", "event": k,
                                "detail": f"completed/error/closed = {post} after {ev}, want {want}"}
            return None
        done = False          # future resolved / stream ended / consumer dropped: later polls are not judged
        yielded = 0
        parked = False        # the last poll answered Pending and nothing has woken the poller since
        for k, ev in enumerate(case.events):
            body = lines.get(k)
            if body is None:
                if any(b == "PANIC" for b in lines.values()):
                    return {"kind": "panic", "event": k, "detail": "case stopped by a panic"}
                return {"kind": "missing-line", "event": k, "detail": ""}
            if body == "PANIC":
                return {"kind": "panic", "event": k,
                        "detail": f"panic inside the library at {ev}" +
                                  (" (the consumer had been dropped)" if DROP in case.events[:k] else "")}
            if ev[0] == "drop":
                if body != "dropped":
                    return {"kind": "bad-line", "event": k, "detail": body}
                if kind != "status":
                    done = True
                continue
            items, term = source_history(case, k)
            if ev[0] == "emit" and kind != "status" and not done and body.startswith("w="):
                # a consumer that polled, got Pending and parked must be WOKEN by the source event that makes it
                # ready (stream: any item or the terminal; future: the terminal) — otherwise it stays pending for
                # ever although nobody polls it by hand (`w` = wake-ups of the poller's waker during this event)
                makes_ready = term is None and (kind == "stream" or ev[2] == "c" or
                                                (isinstance(ev[2], list) and ev[2][0] == "e"))
                if parked and makes_ready:
                    if body == "w=0":
                        return {"kind": "lost-wakeup", "event": k,
                                "detail": f"the consumer was parked (last poll Pending); {ev} made it ready but did not wake it"}
                    parked = False
            if ev[0] == "emit":
                if kind == "status":
                    # the downstream of complete_status sees the source unchanged
                    exp = ""
                    if term is None:
                        n = ev[2]
                        exp = "C" if n == "c" else ("E" + n[1] if n[0] == "e" else "N" + show_val(n[1]))
                    if body != "o=" + exp:
                        return {"kind": "status-downstream", "event": k, "detail": f"got {body} want o={exp}"}
                continue
            if ev[0] == "q":
                if kind != "status":
                    continue
                want = "closed=%d completed=%d error=%d" % (term is not None, bool(term and term[0] == "c"),
                                                            bool(term and term[0] == "e"))
                if body != want:
                    return {"kind": "status-flag", "event": k, "detail": f"got {body} want {want}"}
                continue
            # poll
            if kind == "status":
                want = "poll=Ready" if term is not None else "poll=Pending"
                if body != want:
                    kd = "pending-after-termination" if term is not None else "ready-before-termination"
                    return {"kind": kd, "event": k, "detail": f"got {body}"}
                continue
            if body.endswith("Pending"):
                parked = True
            elif body.startswith("poll="):
                parked = False
            if done:
                if DROP in case.events[:k] and body != "na":
                    return {"kind": "bad-line", "event": k, "detail": f"poll of a dropped consumer: {body}"}
                continue
            if kind in ("future", "collectfuture"):
                if body == "poll=Pending":
                    if term is not None:
                        return {"kind": "pending-after-termination", "event": k,
                                "detail": f"source terminated with {term}, items {items}; poll is Pending"}
                    continue
                m = re.fullmatch(r"poll=Ready\((.*)\)", body)
                if not m:
                    return {"kind": "bad-line", "event": k, "detail": body}
                if term is None:
                    return {"kind": "ready-before-termination", "event": k, "detail": body}
                if m.group(1) not in future_expected(kind, items, term):
                    return {"kind": "wrong-result", "event": k,
                            "detail": f"got {m.group(1)} want one of {sorted(future_expected(kind, items, term))}"}
                done = True
                continue
            # stream
            exp = stream_expected(items, term)
            avail = exp[yielded:]
            if body == "next=Pending":
                if avail:
                    kd = "pending-after-termination" if term is not None else "pending-with-item-queued"
                    return {"kind": kd, "event": k, "detail": f"next should be {avail[0]}"}
                continue
            got = body[len("next="):]
            if not avail or got != avail[0]:
                return {"kind": "wrong-result", "event": k,
                        "detail": f"got {got} want {avail[0] if avail else 'Pending'}"}
            yielded += 1
            if got == "None":
                done = True
        return None

    def nontrivial(self, case, lines):
        return any(("Ready" in b) or ("Some(" in b) or ("None" in b) or b.startswith("closed=")
                   for b in lines.values())

    def signature(self, case, failure):
        src = src_head(case)
        return f"{failure['kind']}|convert|{case.field('kind')[0]}" + (f"/{src}" if src else "")

    def shrink_candidates(self, case):
        cands = []
        if case.flavor != "local":
            c = case.copy()
            c.flavor = "local"
            cands.append(c)
        for i in range(len(case.events) - 1, -1, -1):
            c = case.copy()
            del c.events[i]
            if drop_ok(c):
                cands.append(c)
        # a smaller cutter / iterator / fewer items before the waiter parks
        cut = case.field("cutter")
        if cut and cut[0][0] == "take" and int(cut[0][1]) > 1:
            c = case.copy()
            c.set_field("cutter", [["take", str(int(cut[0][1]) - 1)]])
            cands.append(c)
        src = case.field("src")
        if src and src[0][0] == "iter" and int(src[0][1]) > 0:
            c = case.copy()
            c.set_field("src", [["iter", str(int(src[0][1]) - 1)]])
            cands.append(c)
        pre = case.field("pre")
        if pre:
            for i in range(len(pre)):
                c = case.copy()
                c.set_field("pre", pre[:i] + pre[i + 1:])
                cands.append(c)
        return cands

    def extra_coverage(self, cases, impl):
        kinds = {}
        for c in cases:
            k = c.field("kind")[0] + "/" + c.flavor
            kinds[k] = kinds.get(k, 0) + 1
        return {"kind_counts": kinds, "model": MODEL}


PROP = C14()
