"""C14 — conversions and completion status report the real outcome and never hang
(sequential part: suite `convert`; the waiter/producer race of complete_status is
proved in the lock-level LTS)."""
import itertools
import random
import re

from ..case import Case
from ..runner import Prop

# Which Lean transcription the driver runs: "code" = /repo as it is,
# "fixed" = the repaired code (flip after the fix commits of findings 2 and 3).
MODEL = "fixed"

KINDS = ("future", "stream", "collectfuture", "status")


def N(v):
    return ["n", str(v)]


def E(e):
    return ["e", str(e)]


def emit(n):
    return ["emit", "0", n]


POLL = ["poll"]
QST = ["q", "status"]


def mk_case(kind, flavor, events, meta):
    return Case("convert", flavor, [("kind", [kind]), ("model", [MODEL])], events, meta)


def source_history(case, upto=None):
    """(items, terminal) the hot source has delivered before event index `upto`
    (the subject swallows everything after its first terminal)."""
    items, term = [], None
    evs = case.events if upto is None else case.events[:upto]
    for ev in evs:
        if ev[0] != "emit" or term is not None:
            continue
        n = ev[2]
        if n == "c":
            term = ("c", None)
        elif n[0] == "e":
            term = ("e", int(n[1]))
        else:
            items.append(n[1])
    return items, term


def show_val(v):
    if isinstance(v, list):
        return "(" + " ".join(show_val(x) for x in v) + ")"
    return str(v)


def future_expected(kind, items, term):
    """Set of accepted `poll=Ready(..)` bodies once the source has terminated."""
    if kind == "collectfuture":
        if term[0] == "c":
            return {"Ok((l" + "".join(" " + show_val(v) for v in items) + "))"}
        return {f"SrcErr({term[1]})"}
    if term[0] == "c":
        if not items:
            return {"Err(Empty)"}
        if len(items) == 1:
            return {f"Ok({show_val(items[0])})"}
        return {"Err(MultipleValues)"}
    # source error.  DECISION (DESIGN §7): after items the code answers MultipleValues, the docs
    # say nothing: both that and the error are accepted; without items it must be the error.
    if not items:
        return {f"SrcErr({term[1]})"}
    return {f"SrcErr({term[1]})", "Err(MultipleValues)"}


def stream_expected(items, term):
    out = [f"Some(Ok({show_val(v)}))" for v in items]
    if term is not None:
        if term[0] == "e":
            out.append(f"Some(Err({term[1]}))")
        out.append("None")
    return out


class C14(Prop):
    pid = "C14"
    lean_module = "RxModel.Props.C14"
    extra_modules = ("RxModel.Props.C14T",)
    design_ref = "DESIGN.md §6 C14, §7 findings 2, 3"
    rule = ("bounded-exhaustive: kind in {to_future, to_stream, collect+to_future, complete_status} x "
            "flavor {local, threads} x source script (0..k distinct items, then complete / error / neither; "
            "k = 3 quick, 4 thorough) x every subset of the gaps before/between/after the source events "
            "receiving one poll (thorough: 0..2 polls per gap for k <= 3) + a tail of polls long enough to "
            "drain; plus post-terminal source events and repeated items; status: flag queries in every gap. "
            "Non-trivial = some poll was Ready / some flag query was answered; distinct = distinct case text.")
    assumptions = [
        "sequential histories only: source calls and polls happen on one thread (the waiter/producer race of "
        "complete_status is the LTS part of C14)",
        "StatusFuture is private: `poll` of kind status is `is_closed()` followed by `wait_for_end` when closed",
        "a future is not polled again after Ready, a stream not after None: such polls are generated but not judged",
        "to_future on [item.., error]: MultipleValues and the error are both accepted (DESIGN §7 decision)",
    ]
    modelled_not_verified = ("src/ops/{future,stream,collect,complete_status}.rs, the Subject/Subscriber slot and "
                             "futures-channel's unbounded mpsc are hand transcriptions (RxModel/Conv/Convert.lean), "
                             "validated only on the generated cases")

    def corpus(self):
        # corpus files carry no `model` field: the driver runs the transcription selected by MODEL
        out = super().corpus()
        for c in out:
            c.fields = [(k, v) for k, v in c.fields if k != "model"] + [("model", [MODEL])]
        return out

    # ------------------------------------------------------------ generator
    def cases(self, tier, seed):
        rng = random.Random(seed)
        kmax = 3 if tier == "quick" else 4
        out = []
        # wait_for_end racing with the producer at the hooked yield point (H3): the producer's
        # terminal runs exactly between the waiter's flag check and its waker registration
        out.append(Case("convert", "threads", [("kind", ["statusrace"]), ("model", [MODEL])],
                        [["race", "c"], ["race", E(3)], ["race", "c"]], {"kind": "statusrace"}))
        # the waiter already parked (flag checked, waker registered, asleep) when the producer terminates from
        # another thread: completion, error, item + completion
        out.append(Case("convert", "threads", [("kind", ["statuswait"]), ("model", [MODEL])],
                        [["term", "c"], ["term", E(3)], ["term", N(1)], ["term", E(7)]], {"kind": "statuswait"}))
        scripts = []
        for k in range(kmax + 1):
            items = [N(i + 1) for i in range(k)]
            for term in (None, "c", E(7)):
                scripts.append((items, term, []))
        # repeated items, post-terminal events
        for term in ("c", E(7)):
            for tail in ([N(9)], ["c"], [E(8)], [N(9), E(8), "c"]):
                scripts.append(([N(1)], term, tail))
                scripts.append(([], term, tail))
        scripts.append(([N(2), N(2)], "c", []))
        scripts.append(([N(0), N(-1), N(0)], E(-3), []))
        for kind in KINDS:
            for flavor in ("local", "threads"):
                for items, term, tail in scripts:
                    src = [emit(n) for n in items] + ([emit(term)] if term else []) + [emit(n) for n in tail]
                    gaps = len(src) + 1
                    drain = [POLL] * (len(items) + 3)
                    per_gap = (0, 1)
                    if tier != "quick" and gaps <= 5:
                        per_gap = (0, 1, 2)
                    for counts in itertools.product(per_gap, repeat=gaps):
                        evs = []
                        for g in range(gaps):
                            evs += [POLL] * counts[g]
                            if kind == "status" and (sum(counts) + g) % 2 == 0:
                                evs.append(QST)
                            if g < len(src):
                                evs.append(src[g])
                        evs += drain
                        if kind == "status":
                            evs.append(QST)
                        out.append(mk_case(kind, flavor, evs, {"kind": kind}))
        # random longer histories
        n = 400 if tier == "quick" else 4000
        for _ in range(n):
            kind = rng.choice(KINDS)
            evs = []
            for _ in range(rng.randint(1, 12)):
                r = rng.random()
                if r < 0.4:
                    evs.append(POLL)
                elif r < 0.8:
                    evs.append(emit(N(rng.choice([0, 1, 2, -1]))))
                elif r < 0.88:
                    evs.append(emit("c"))
                elif r < 0.96:
                    evs.append(emit(E(rng.choice([3, 4]))))
                else:
                    evs.append(QST)
            evs += [POLL] * rng.randint(0, 4)
            out.append(mk_case(kind, rng.choice(("local", "threads")), evs, {"kind": "random-" + kind}))
        # interleave the kinds (the runner shrinks only the first few hundred failures)
        by = {}
        for c in out:
            by.setdefault(c.field("kind")[0], []).append(c)
        mixed = []
        for tup in itertools.zip_longest(*by.values()):
            mixed += [c for c in tup if c is not None]
        return mixed

    # --------------------------------------------------------------- oracle
    def oracle(self, case, lines, model_lines=None):
        kind = case.field("kind")[0]
        if kind in ("statusrace", "statuswait"):
            for k in range(len(case.events)):
                if lines.get(k) != "wait=returned":
                    return {"kind": "lost-wakeup", "event": k,
                            "detail": f"wait_for_end did not return although the source has terminated: {lines.get(k)}"}
            return None
        done = False          # future resolved / stream ended: later polls are not judged
        yielded = 0
        for k, ev in enumerate(case.events):
            body = lines.get(k)
            if body is None:
                if any(b == "PANIC" for b in lines.values()):
                    return {"kind": "panic", "event": k, "detail": "case stopped by a panic"}
                return {"kind": "missing-line", "event": k, "detail": ""}
            if body == "PANIC":
                return {"kind": "panic", "event": k, "detail": "panic inside the library"}
            items, term = source_history(case, k)
            if ev[0] == "emit":
                if kind == "status":
                    # the downstream of complete_status sees the source unchanged
                    exp = ""
                    if term is None:
                        n = ev[2]
                        exp = "C" if n == "c" else ("E" + n[1] if n[0] == "e" else "N" + show_val(n[1]))
                    if body != "o=" + exp:
                        return {"kind": "status-downstream", "event": k, "detail": f"got {body} want o={exp}"}
                continue
            if ev[0] == "q":
                if kind != "status":
                    continue
                want = "closed=%d completed=%d error=%d" % (term is not None, bool(term and term[0] == "c"),
                                                            bool(term and term[0] == "e"))
                if body != want:
                    return {"kind": "status-flag", "event": k, "detail": f"got {body} want {want}"}
                continue
            # poll
            if kind == "status":
                want = "poll=Ready" if term is not None else "poll=Pending"
                if body != want:
                    kd = "pending-after-termination" if term is not None else "ready-before-termination"
                    return {"kind": kd, "event": k, "detail": f"got {body}"}
                continue
            if done:
                continue
            if kind in ("future", "collectfuture"):
                if body == "poll=Pending":
                    if term is not None:
                        return {"kind": "pending-after-termination", "event": k,
                                "detail": f"source terminated with {term}, items {items}; poll is Pending"}
                    continue
                m = re.fullmatch(r"poll=Ready\((.*)\)", body)
                if not m:
                    return {"kind": "bad-line", "event": k, "detail": body}
                if term is None:
                    return {"kind": "ready-before-termination", "event": k, "detail": body}
                if m.group(1) not in future_expected(kind, items, term):
                    return {"kind": "wrong-result", "event": k,
                            "detail": f"got {m.group(1)} want one of {sorted(future_expected(kind, items, term))}"}
                done = True
                continue
            # stream
            exp = stream_expected(items, term)
            avail = exp[yielded:]
            if body == "next=Pending":
                if avail:
                    kd = "pending-after-termination" if term is not None else "pending-with-item-queued"
                    return {"kind": kd, "event": k, "detail": f"next should be {avail[0]}"}
                continue
            got = body[len("next="):]
            if not avail or got != avail[0]:
                return {"kind": "wrong-result", "event": k,
                        "detail": f"got {got} want {avail[0] if avail else 'Pending'}"}
            yielded += 1
            if got == "None":
                done = True
        return None

    def nontrivial(self, case, lines):
        return any(("Ready" in b) or ("Some(" in b) or ("None" in b) or b.startswith("closed=")
                   for b in lines.values())

    def signature(self, case, failure):
        return f"{failure['kind']}|convert|{case.field('kind')[0]}"

    def shrink_candidates(self, case):
        cands = []
        if case.flavor != "local":
            c = case.copy()
            c.flavor = "local"
            cands.append(c)
        for i in range(len(case.events) - 1, -1, -1):
            c = case.copy()
            del c.events[i]
            cands.append(c)
        return cands

    def extra_coverage(self, cases, impl):
        kinds = {}
        for c in cases:
            k = c.field("kind")[0] + "/" + c.flavor
            kinds[k] = kinds.get(k, 0) + 1
        return {"kind_counts": kinds, "model": MODEL}


PROP = C14()
