"""C12 — BehaviorSubject hands every new subscriber the current value first
(sequential part; the store/broadcast race of the thread-safe form is the LTS part)."""
import random

from .. import subjgen as sg
from ..runner import Prop


class C12(Prop):
    pid = "C12"
    lean_module = "RxModel.Props.C12"
    extra_modules = ("RxModel.Props.C12T",)
    design_ref = "DESIGN.md §6 C12"
    rule = ("bounded-exhaustive: every sequence of length <= 4 (thorough: 5) over {subscribe (6 script forms incl. "
            "subscribe-in-callback and unsubscribe-other-in-callback), unsubscribe-one 0/1/2, next, next_by add1, "
            "next_by mul2, error, complete, unsubscribe-subject, clone} creating at most 3 subscribers, both "
            "BehaviorSubject<_, Subject> and BehaviorSubject<_, SubjectThreads>; plus random histories of length "
            "6..24 with random clone routing and peeks. Non-trivial = at least one delivery.")
    assumptions = [
        "single thread; no re-entrant emission from a callback",
        "items are small integers; next_by closures from the named family (add/mul/const/neg)",
        "the greeting item does not consume a probe script action (it is delivered before the subscription exists)",
    ]
    modelled_not_verified = ("src/subject/behavior_subject.rs, src/behavior.rs: hand transcription "
                             "(Subject/Behavior.lean) validated on the generated histories")

    def cases(self, tier, seed):
        rng = random.Random(seed)
        out = []
        L = 4 if tier == "quick" else 5
        for fl in sg.BEHAVIOR_FLAVORS:
            for ops in sg.enum_histories(sg.BEHAVIOR_ALPHA, L if fl == "local" else L - 1):
                out.append(sg.mk_case("behavior", fl, ops, "exhaustive", init=42))
        n = 1000 if tier == "quick" else 10000
        for fl in sg.BEHAVIOR_FLAVORS:
            for _ in range(n):
                ops = sg.rand_history(rng, rng.randint(6, 24), behavior=True)
                out.append(sg.mk_case("behavior", fl, ops, "random", init=rng.randint(-3, 50), rng=rng))
        # the two-producer interleaving store1, store2, broadcast2, broadcast1 of C12_race_counterexample,
        # replayed on the real BehaviorSubject<_, SubjectThreads> through hook H2
        from ..case import Case
        out.append(Case("behaviorrace", "threads", [], [["race"]], {"kind": "race-replay"}))
        return out

    def oracle(self, case, lines, model_lines=None):
        if case.suite == "behaviorrace":
            for k in range(len(case.events)):
                b = lines.get(k, "")
                if not b.startswith("log="):
                    continue
                log, _, peek = b[4:].partition(" peek=")
                last = log.split(";")[-1] if log else ""
                if last != "N" + peek:
                    return {"kind": "latest-not-last-delivered", "event": k,
                            "detail": f"deliveries {log}: delivered last {last}, most recent value {peek}"}
            return None
        return sg.check_history(case, lines, behavior=True)

    def nontrivial(self, case, lines):
        return any(not b.startswith("o= ") for b in lines.values())

    def signature(self, case, failure):
        return f"{failure['kind']}|{case.suite}|{case.flavor}"

    def shrink_candidates(self, case):
        return [] if case.suite == "behaviorrace" else sg.shrink_candidates(case)

    def extra_coverage(self, cases, impl):
        fl = {}
        for c in cases:
            fl[c.flavor] = fl.get(c.flavor, 0) + 1
        return {"flavor_counts": fl}


PROP = C12()
