"""C12 — BehaviorSubject hands every new subscriber the current value first
(sequential part; the store/broadcast race of the thread-safe form is the LTS part)."""
import random

from .. import subjgen as sg
from ..runner import Prop


class C12(Prop):
    pid = "C12"
    lean_module = "RxModel.Props.C12"
    extra_modules = ("RxModel.Props.C12T",)
    design_ref = "DESIGN.md §6 C12"
    rule = ("bounded-exhaustive: every sequence of length <= 4 (thorough: 5) over {subscribe (6 script forms incl. "
            "subscribe-in-callback and unsubscribe-other-in-callback), unsubscribe-one 0/1/2, next, next_by add1, "
            "next_by mul2, error, complete, unsubscribe-subject, clone} creating at most 3 subscribers, both "
            "BehaviorSubject<_, Subject> and BehaviorSubject<_, SubjectThreads>; plus random histories of length "
            "6..24 with random clone routing and peeks; family greetpeek (both flavours): the same histories with every greeted subscriber reading the value back from inside its greeting. Non-trivial = at least one delivery.")
    assumptions = [
        "single thread; no re-entrant emission from a callback",
        "items are small integers; next_by closures from the named family (add/mul/const/neg)",
        "the greeting item does not consume a probe script action (it is delivered before the subscription exists)",
    ]
    modelled_not_verified = ("src/subject/behavior_subject.rs, src/behavior.rs: hand transcription "
                             "(Subject/Behavior.lean) validated on the generated histories")

    # translator tie: BehaviorSubject over Subject / SubjectThreads (compiler-expanded source, translated) is the
    # BState of the model: store first, then broadcast; greeting = the stored value; peek reads the cell
    tie_modules = {
        # subject.rs / behavior_subject.rs / start.rs pinned wholesale on top of their semantic ties
        "RxModel.GenTie.PinsSubject": [],
        # critical sections read off the source (rs2lean/src/holds.rs): which calls are made while which shared cell is held — the policies (P1: BehaviorSubject::next makes no call under its value cell)
        "RxModel.GenTie.Holds": [],
        "RxModel.GenTie.Behavior": [],
        "RxModel.GenTie.BehaviorThreads": [],
    }

    def cases(self, tier, seed):
        rng = random.Random(seed)
        out = []
        L = 4 if tier == "quick" else 5
        for fl in sg.BEHAVIOR_FLAVORS:
            for ops in sg.enum_histories(sg.BEHAVIOR_ALPHA, L if fl == "local" else L - 1):
                out.append(sg.mk_case("behavior", fl, ops, "exhaustive", init=42))
        n = 1000 if tier == "quick" else 10000
        for fl in sg.BEHAVIOR_FLAVORS:
            for _ in range(n):
                ops = sg.rand_history(rng, rng.randint(6, 24), behavior=True)
                out.append(sg.mk_case("behavior", fl, ops, "random", init=rng.randint(-3, 50), rng=rng))
        for fl in sg.BEHAVIOR_FLAVORS:
            for _ in range(n // 4):
                ops = sg.rand_history(rng, rng.randint(40, 90), behavior=True, maxsub=12)
                out.append(sg.mk_case("behavior", fl, ops, "wide", init=rng.randint(-3, 50), rng=rng))
        # family greetpeek: every greeted subscriber reads the current value back through a clone from inside its
        # greeting callback (a pure read, no model event); it must not panic or block and must answer the greeted value.
        # (This family found the greeting-under-the-value-cell defect of the thread-safe flavour, DESIGN II.3.)
        for fl in sg.BEHAVIOR_FLAVORS:
            for ops in sg.enum_histories(sg.BEHAVIOR_ALPHA, L - 1):
                c = sg.mk_case("behavior", fl, ops, "greetpeek", init=42)
                c.fields.append(("greetpeek", []))
                out.append(c)
            for _ in range(n // 4):
                ops = sg.rand_history(rng, rng.randint(6, 24), behavior=True)
                c = sg.mk_case("behavior", fl, ops, "greetpeek", init=rng.randint(-3, 50), rng=rng)
                c.fields.append(("greetpeek", []))
                out.append(c)
        # the two-producer interleaving store1, store2, broadcast2, broadcast1 of C12_race_counterexample,
        # replayed on the real BehaviorSubject<_, SubjectThreads> through hook H2
        from ..case import Case
        out.append(Case("behaviorrace", "threads", [], [["race"]], {"kind": "race-replay"}))
        # two REAL threads at lock granularity on one BehaviorSubject<_, SubjectThreads> (suite `coop`, field
        # `behavior`): producer vs producer, producer vs subscribe, producer vs peek, terminal vs producer — for every
        # preemption point of the first thread; then peek, a late subscriber, one more item, peek
        def em(n):
            return ["emit", "0", n]
        pairs = [(em(["n", "1"]), em(["n", "2"])), (em(["n", "1"]), ["sub"]), (["sub"], em(["n", "1"])),
                 (em(["n", "1"]), ["peek"]), (em("c"), em(["n", "2"])), (em(["n", "1"]), em(["e", "3"])),
                 (em(["e", "3"]), ["sub"])]
        for pre in ([], [em(["n", "7"])]):
            for a, b in pairs:
                for k in range(0, 8):
                    evs = [["sub"]] + pre + [["par", str(k), a, b], ["peek"], ["sub"], em(["n", "9"]), ["peek"]]
                    out.append(Case("coop", "threads", [("behavior", ["0"]), ("pipe", [["hot", "0"]])], evs,
                                    {"kind": "coop-behavior"}))
        return out

    def compare_from(self, case):
        return len(case.events) if case.suite == "coop" else 0

    @staticmethod
    def coop_oracle(case, lines):
        """On the implementation's own lines.  Tokens: `<probe>:<notif>` deliveries, `P<v>` peek answers."""
        logs = {}           # probe -> delivered notifications
        joined_at = {}      # probe -> number of items emitted before it joined (sequential joins only)
        emitted = []        # items passed to next, in script order (par: both)
        dead = False
        nprobe = 0
        last_peek = None
        for k, ev in enumerate(case.events):
            b = lines.get(k)
            if b is None:
                continue
            for w in ("PANIC", "DEADLOCK", "HANG", "RELOCK"):
                if b.startswith(w):
                    return {"kind": w.lower(), "event": k, "detail": f"{b} at {ev}"}
            toks = [t for t in b[2:].split(" ")[0].split(";") if t] if b.startswith("o=") else []
            ops = [ev[2], ev[3]] if ev[0] == "par" else [ev]
            subs_here = [o for o in ops if o[0] == "sub"]
            new_items = [o[2][1] for o in ops if o[0] == "emit" and isinstance(o[2], list) and o[2][0] == "n"]
            term_here = any(o[0] == "emit" and (o[2] == "c" or (isinstance(o[2], list) and o[2][0] == "e")) for o in ops)
            for _ in subs_here:
                joined_at[nprobe] = (len(emitted), ev[0] == "par")
                nprobe += 1
            for t in toks:
                if t[0] == "P":
                    last_peek = t[1:]
                    continue
                pr, _, n = t.partition(":")
                logs.setdefault(int(pr), []).append(n)
            if ev[0] == "sub" and not dead and last_peek is not None:
                # a subscriber joining at a quiet moment is greeted with the current value
                pr = nprobe - 1
                if logs.get(pr, [None])[0] != "N" + last_peek:
                    return {"kind": "greeting-not-latest", "event": k,
                            "detail": f"subscriber {pr} greeted with {logs.get(pr)}, peek said {last_peek}"}
            if not dead:
                emitted += new_items
            if ev[0] == "par" and len(new_items) == 2 and not term_here and not dead:
                # two producers: the value a late subscriber will get must be the one delivered last
                nxt = lines.get(k + 1, "")
                pk = nxt[3:].split(" ")[0] if nxt.startswith("o=P") else None
                seen0 = [x for x in logs.get(0, []) if x.startswith("N")]
                if pk is not None and seen0 and seen0[-1] != "N" + pk and set(seen0[-2:]) == {"N" + i for i in new_items}:
                    return {"kind": "latest-not-last-delivered", "event": k,
                            "detail": f"deliveries {seen0}, most recent value {pk}"}
            if term_here:
                dead_after = True
            else:
                dead_after = dead
            # probe 0 was there from the start: every item emitted while the subject was alive reaches it once
            if not term_here and not dead:
                seen0 = [x[1:] for x in logs.get(0, []) if x.startswith("N")][1:]      # without the greeting
                for it in emitted:
                    if seen0.count(it) == 0:
                        return {"kind": "item-lost", "event": k,
                                "detail": f"item {it} was passed to next() and never delivered to the subscriber (saw {seen0})"}
                    if seen0.count(it) > 1:
                        return {"kind": "duplicate", "event": k, "detail": f"item {it} delivered {seen0.count(it)} times"}
            dead = dead_after
        return None

    def oracle(self, case, lines, model_lines=None):
        if case.suite == "coop":
            return self.coop_oracle(case, lines)
        if case.suite == "behaviorrace":
            for k in range(len(case.events)):
                b = lines.get(k, "")
                if not b.startswith("log="):
                    continue
                log, _, peek = b[4:].partition(" peek=")
                last = log.split(";")[-1] if log else ""
                if last != "N" + peek:
                    return {"kind": "latest-not-last-delivered", "event": k,
                            "detail": f"deliveries {log}: delivered last {last}, most recent value {peek}"}
            return None
        return sg.check_history(case, lines, behavior=True)

    def nontrivial(self, case, lines):
        if case.suite == "coop":
            return any(":" in b for b in lines.values())
        return any(not b.startswith("o= ") for b in lines.values())

    def signature(self, case, failure):
        return f"{failure['kind']}|{case.suite}|{case.flavor}"

    def shrink_candidates(self, case):
        return [] if case.suite in ("behaviorrace", "coop") else sg.shrink_candidates(case)

    def extra_coverage(self, cases, impl):
        fl = {}
        for c in cases:
            fl[c.flavor] = fl.get(c.flavor, 0) + 1
        return {"flavor_counts": fl}


PROP = C12()
