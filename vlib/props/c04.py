"""C04 — multi-input combinators follow the interleaving of their inputs."""
import itertools
import random

from .. import pipegen as pg
from .. import sx
from ..case import Case
from ..runner import Prop


def interleavings(a, b):
    if not a:
        yield list(b); return
    if not b:
        yield list(a); return
    for r in interleavings(a[1:], b):
        yield [a[0]] + r
    for r in interleavings(a, b[1:]):
        yield [b[0]] + r


def side_scripts(i, alpha, maxlen):
    out = []
    for n in range(maxlen + 1):
        for xs in itertools.product(alpha, repeat=n):
            for t in pg.TERMS:
                evs = [["emit", str(i), sx.N(x)] for x in xs]
                if t is not None:
                    evs.append(["emit", str(i), t])
                out.append(evs)
    return out


class C04(Prop):
    pid = "C04"
    lean_module = "RxModel.Props.C04"
    design_ref = "DESIGN.md §6 C04"
    rule = ("for each of merge, zip, combine_latest, with_latest_from, take_until, skip_until, sample, "
            "buffer over two hot subjects: every merged timeline (all interleavings) of two scripts up to "
            "the tier's length with every terminal on either side, local and _threads forms; plus cold/hot "
            "mixes (subscription-order effects) and random longer timelines with post-terminal events. "
            "non-trivial = the probe received something; distinct = distinct case text.")
    assumptions = ["the reference semantics along a timeline is RxModel/Spec/MultiSem.lean",
                   "zip completes after both inputs have (docs silent; follows the code)"]
    modelled_not_verified = "all Rust code; St2 is a hand transcription of src/ops/{merge,zip,...}.rs"

    # translator tie (DESIGN II.7): module -> pipeline heads built from that observer
    tie_modules = {
        # critical sections read off the source (rs2lean/src/holds.rs): which calls are made while which shared cell is held — the policies (P7: buffer flushes a window with its shared cell held)
        "RxModel.GenTie.Holds": [],
        "RxModel.GenTie.RcObserver": ['takeuntil', 'skipuntil', 'sample', 'withlatest'],
        "RxModel.GenTie.Merge": ['merge'],
        "RxModel.GenTie.WiringMerge": ['merge'],
        "RxModel.GenTie.Zip": ['zip'],
        "RxModel.GenTie.WiringZip": ['zip'],
        "RxModel.GenTie.CombineLatest": ['combine'],
        "RxModel.GenTie.WiringCombineLatest": ['combine'],
        "RxModel.GenTie.WithLatestFrom": ['withlatest'],
        "RxModel.GenTie.WiringWithLatestFrom": ['withlatest'],
        "RxModel.GenTie.TakeUntil": ['takeuntil'],
        "RxModel.GenTie.WiringTakeUntil": ['takeuntil'],
        "RxModel.GenTie.SkipUntil": ['skipuntil'],
        "RxModel.GenTie.WiringSkipUntil": ['skipuntil'],
        "RxModel.GenTie.Sample": ['sample'],
        "RxModel.GenTie.WiringSample": ['sample'],
        "RxModel.GenTie.BufferCell": ['buffer'],
        "RxModel.GenTie.WiringBuffer": ['buffer'],
    }

    def cases(self, tier, seed):
        rng = random.Random(seed)
        la = 2 if tier == "quick" else 3
        A = side_scripts(0, [1, 2], la)
        B = side_scripts(1, [7], la)
        out = []
        for k in pg.TWO:
            pipe = [k, ["hot", "0"], ["hot", "1"]]
            for a in A:
                for b in B:
                    for tl in interleavings(a, b):
                        fl = "threads" if (len(out) % 3 == 0) else "local"
                        out.append(Case("pipe", fl, [("pipe", [pipe])], [["sub"]] + tl,
                                        {"kind": "exhaustive-2hot", "op": k}))
        # cold / hot mixes, same subject on both sides, nested combinators, malformed tails
        n = 8000 if tier == "quick" else 80000
        variants = pg.single_variants(3)
        for _ in range(n):
            k = rng.choice(pg.TWO)
            def leaf():
                r = rng.random()
                if r < 0.3:
                    return pg.cold_sources(rng)
                if r < 0.5:
                    return rng.choice(variants) + [["hot", str(rng.randrange(2))]]
                return ["hot", str(rng.randrange(2))]
            pipe = [k, leaf(), leaf()]
            if rng.random() < 0.3:
                pipe = [rng.choice(pg.TWO), pipe, leaf()]
            evs = [["sub"]] + pg.rand_events(rng, 2, rng.randint(0, 9))
            fl = "threads" if rng.random() < 0.4 else "local"
            out.append(Case("pipe", fl, [("pipe", [pipe])], evs, {"kind": "random-mix", "op": k}))
        # wide timelines: 25..70 events over two hot inputs, wide alphabet, late terminals (queue lengths, buffer
        # sizes and counters beyond the exhaustive ranges)
        for _ in range(n // 8):
            k = rng.choice(pg.TWO)
            pipe = [k, ["hot", "0"], ["hot", "1"]]
            evs = [["sub"]] + pg.rand_events(rng, 2, rng.randint(25, 70), alpha=list(range(-2, 14)), term_p=0.04)
            fl = "threads" if rng.random() < 0.4 else "local"
            out.append(Case("pipe", fl, [("pipe", [pipe])], evs, {"kind": "wide", "op": k}))
        # two REAL threads (event `remit i n j m`): one input is emitted on this thread and, while the downstream is being
        # called for it, the other input on another thread.  The operators of this family hold their shared cell while
        # they call downstream, so the second emission must be ordered behind the first and nothing may be lost (seed
        # C04-8 released the cell of buffer during the delivery of a window: an item arriving meanwhile vanished)
        for k in ("buffer", "merge", "zip", "combine"):
            pipe = [k, ["hot", "0"], ["hot", "1"]]
            for pre in ([], [["emit", "0", ["n", "1"]]], [["emit", "0", ["n", "1"]], ["emit", "0", ["n", "2"]]],
                        [["emit", "1", ["n", "7"]]]):
                for first in ((1, ["n", "8"]), (0, ["n", "3"]), (1, "c")):
                    for second in ((0, ["n", "4"]), (0, "c"), (0, ["e", "5"]), (1, ["n", "9"]), (1, "c")):
                        if first[0] == second[0] and k != "buffer":
                            continue
                        for tail in ([], [["emit", "1", ["n", "6"]], ["emit", "0", "c"], ["emit", "1", "c"]]):
                            evs = [["sub"]] + pre + [["remit", str(first[0]), first[1], str(second[0]), second[1]]] + tail
                            out.append(Case("pipe", "threads", [("pipe", [pipe])], evs, {"kind": "race", "op": k}))
        return out

    def oracle(self, case, lines, model_lines=None):
        # By C04_merge … C04_buffer the model output IS the timeline definition.
        for k in range(len(case.events)):
            a, b = lines.get(k), (model_lines or {}).get(k)
            if a != b:
                return {"kind": "spec-mismatch", "event": k, "detail": f"impl={a} spec={b}"}
        return None

    def extra_coverage(self, cases, impl):
        ops = {}
        for c in cases:
            ops[c.meta.get("op", "?")] = ops.get(c.meta.get("op", "?"), 0) + 1
        return {"operator_counts": ops}


PROP = C04()
