"""C08 — time and async sources emit exactly what and when they promise."""
import random

from .. import timegen as tg
from ..case import Case
from ..runner import Prop


def unit_script(rng, total, unsub_at=None):
    """prompt schedule: the clock advances in single steps and the executor runs after each."""
    evs = [["sub"], ["run"]]
    for t in range(total):
        if unsub_at is not None and t == unsub_at:
            evs.append(["unsub"])
        evs += [["adv", "1"], ["run"]]
    return evs


def systematic_scripts(head):
    """ready immediately / pending k polls / error at position i / empty / never."""
    res = head.endswith("res")
    out = []
    if head.startswith("future"):
        for k in range(4):
            out.append([["pending"]] * k + [["ready", "7"]])
            if res:
                out.append([["pending"]] * k + [["err", "3"]])
        out += [[], [["pending"]], [["hang"]], [["pending"], ["hang"]]]
        return out
    for n in range(4):
        vals = [["ready", str(i + 1)] for i in range(n)]
        out.append(list(vals))
        for k in (1, 2):
            for at in range(n + 1):                   # k pending polls before item `at` (or before the end)
                out.append(vals[:at] + [["pending"]] * k + vals[at:])
            out.append([x for v in vals for x in ([["pending"]] * k + [v])] + [["pending"]] * k)
        if res:
            for at in range(n + 1):                   # error at position `at`
                out.append(vals[:at] + [["err", "5"]] + vals[at:])
                out.append(vals[:at] + [["pending"], ["err", "5"]] + vals[at:])
    out.append([["ready", "1"], ["hang"], ["ready", "2"]])
    # long bursts: many items ready back-to-back within ONE poll of the driver task (nothing in the
    # property bounds how much a stream may hand over at once), with and without a pause in between
    for n in (130, 300):
        vals = [["ready", str(i + 1)] for i in range(n)]
        out.append(list(vals))
        out.append(vals[:n // 2] + [["pending"]] + vals[n // 2:])
        if res:
            out.append(vals + [["err", "5"]])
    return out


class C08(Prop):
    pid = "C08"
    lean_module = "RxModel.Props.C08"
    design_ref = "DESIGN.md §6 C08"
    # translator tie (DESIGN II.7): src/scheduler.rs itself — TaskHandle's two Subscription impls and the poll functions of
    # Remote / OnceTask / FutureTask / RepeatTask, regenerated from the compiler-expanded source on every run
    tie_modules = {
        # from_stream(_result) / from_future(_result): what is scheduled, the driver polls = streamSpec / tryStreamSpec
        "RxModel.GenTie.AsyncSources": [],
"RxModel.GenTie.Scheduler": [], "RxModel.GenTie.PinsSched": [],
                   # interval / interval_at / timer / timer_at: what `actual_subscribe` schedules, the tick and task functions
                   "RxModel.GenTie.TimeSources": [],
                   # … and those scheduling events ARE the scheduling calls of the world model (TW.subscribeSource, runTick)
                   "RxModel.GenTie.TimeSourcesModel": [],
                   # transcription pins (DESIGN II.7, weakest tie): the token text of the hand-transcribed files is the one the model was made from
                   "RxModel.GenTie.PinsAsync": [],
    }
    rule = ("interval / interval_at / timer / timer_at sources (optionally followed by synchronous operators and "
            "take) on the virtual clock: (a) prompt schedules: clock advanced in single steps, executor run after "
            "each; (b) jumps over several periods, fire/poll in arbitrary order, late executors. Full line "
            "compared. Oracle on the implementation: values 0,1,2,… consecutive; tick k never before "
            "subscription+(k+1)·period (interval_at: instant+k·period), consecutive ticks at least one period "
            "apart; under (a) exactly on time; timer: its item once, not before due, then complete. "
            "Async sources: from_future / from_future_result / from_stream / from_stream_result over scripted "
            "futures and streams (ready immediately, pending k polls with a self-wake, error at position i, empty, "
            "never resolving), systematically under the prompt FIFO schedule and with every number of single polls "
            "before a run, randomly under arbitrary poll/run/adv/fire orders and with unsubscription. Oracle on "
            "the implementation (read off the script alone): what is delivered is a prefix of `scripted values up "
            "to the first Err, then complete / that error`, nothing after the terminal or after unsubscribe, "
            "everything is there once the executor has run until idle, a future delivers its single value then "
            "complete, the task is gone from the executor with the terminal.")
    assumptions = ["virtual clock; harness executor behind hook H1; scripted futures/streams: a `pending` step "
                   "answers Poll::Pending once and wakes its task at once (harness/src/ascript.rs); early-terminating "
                   "operators above a stream are C16's population (DESIGN §7 finding 18)"]
    modelled_not_verified = "all Rust code incl. the async state machine of schedule() and RepeatTask::poll"

    def cases(self, tier, seed):
        rng = random.Random(seed + 8)
        out = []
        reps = 1 if tier == "quick" else 4
        for _ in range(reps):
            for p in tg.PERIODS:
                for fl in ("local", "threads"):
                    out.append(Case("time", fl, [("pipe", [["interval", str(p)]])],
                                    unit_script(rng, 3 * p + 4), {"kind": "prompt", "src": "interval"}))
                    for d in (0, 2, 5, 12):
                        out.append(Case("time", fl, [("pipe", [["intervalat", str(d), str(p)]])],
                                        unit_script(rng, d + 2 * p + 3), {"kind": "prompt", "src": "intervalat"}))
            for d in tg.DELAYS:
                for head in ("timer", "timerat"):
                    out.append(Case("time", "local", [("pipe", [[head, "7", str(d)]])],
                                    unit_script(rng, d + 3), {"kind": "prompt", "src": head}))
        out += self.async_cases(rng, tier)
        n = 3000 if tier == "quick" else 30000
        for _ in range(n):
            src = tg.sources(rng, ["interval", "intervalat", "timer", "timerat"])
            pipe = src
            if rng.random() < 0.5:
                pipe = rng.choice([["take", str(rng.randint(1, 3))], ["map", "add1"], ["skip", "1"],
                                   ["filter", "even"], ["first"]]) + [pipe]
            mode = rng.choice(["fifo", "mixed"])
            evs = tg.events(rng, tg.hist_len(rng, 4, 16), hot=False, mode=mode, unsub_p=0.04)
            out.append(Case("time", rng.choice(["local", "threads"]), [("pipe", [pipe])], evs,
                            {"kind": mode, "src": src[0]}))
        return tg.with_units(seed, out) + self.realtimer_cases()

    def realtimer_cases(self):
        """Harness field `realtimer`: the virtual timers obey the two rules of a real timer future the plain clock does
        not have — a timer of ZERO length is ready at its first poll, and a timer must not be polled again after it has
        completed (it panics).  `interval(0).take(n)` then runs its n ticks inside one poll and completes; timer(0) /
        delay(0) deliver at the first poll.  No model (the chain model has the plain clock): oracle only."""
        out = []
        for fl in ("local", "threads"):
            for n in (1, 2, 3, 5, 40, 100):
                for wrap in ([], [["map", "add1"]], [["filter", "true"]]):
                    for src in (["interval", "0"], ["intervalat", "0", "0"], ["intervalat", "2", "0"]):
                        pipe = ["take", str(n)] + [src]
                        for w in wrap:
                            pipe = ["take", str(n), w + [src]]
                        for pre in ([], [["adv", "2"]], [["adv", "2"], ["fire", "0"]]):
                            evs = [["sub"]] + pre + [["run"], ["adv", "3"], ["run"], ["run"]]
                            out.append(Case("time", fl, [("realtimer", ["1"]), ("pipe", [pipe])], evs,
                                            {"kind": "realtimer", "n": n, "add": 1 if wrap == [["map", "add1"]] else 0}))
        return out

    def realtimer_oracle(self, case, lines):
        n, add = int(case.meta.get("n", 0)), int(case.meta.get("add", 0))
        if not n:
            # (a replay: read the expectation off the pipe)
            pipe = case.field("pipe")[0]
            n = int(pipe[1])
            add = 1 if pipe[2][0] == "map" else 0
        got = []
        src = case.field("pipe")[0]
        while isinstance(src, list) and src and src[0] not in ("interval", "intervalat"):
            src = src[-1]
        first = int(src[1]) if src[0] == "intervalat" else 0
        for k in range(len(case.events)):
            b = lines.get(k) or ""
            if b in ("PANIC", "HANG"):
                return {"kind": b.lower(), "event": k, "detail": b}
            if b.startswith("o="):
                outs, kv = tg.parse_suffix(b)
                if outs and kv.get("t", 0) < first:
                    return {"kind": "realtimer-early", "event": k,
                            "detail": f"{outs} delivered at t={kv.get('t')}, the first tick is due at {first}"}
                got += outs
        want = [f"N{i + add}" for i in range(n)] + ["C"]
        last = len(case.events) - 1
        _, kv = tg.parse_suffix(lines.get(last) or "")
        if got != want:
            return {"kind": "realtimer-sequence", "event": last,
                    "detail": f"delivered {got}, want {want} (zero-length timers are ready at their first poll)"}
        if kv.get("live", 0) != 0:
            return {"kind": "realtimer-task-survives", "event": last, "detail": lines.get(last)}
        return None

    def compare_from(self, case):
        return len(case.events) if case.field("realtimer") else 0

    def async_cases(self, rng, tier):
        out = []
        # (a) systematic scripts: prompt FIFO schedule, and j single polls of the task before the run
        for head in tg.ASYNC_HEADS:
            for sc in systematic_scripts(head):
                src = [head] + sc
                npend = sum(1 for st in sc if st[0] == "pending")
                for fl in ("local", "threads"):
                    out.append(Case("time", fl, [("pipe", [src])],
                                    [["sub"], ["run"], ["q", "closed"], ["q", "pulls"], ["adv", "1"], ["run"]],
                                    {"kind": "async-prompt", "src": head}))
                for j in range(1, npend + 3):
                    out.append(Case("time", "local", [("pipe", [src])],
                                    [["sub"]] + [["poll", "0"]] * j + [["q", "closed"], ["run"], ["q", "closed"]],
                                    {"kind": "async-polls", "src": head}))
                # unsubscribe after j polls: nothing more may arrive
                for j in range(0, npend + 1):
                    out.append(Case("time", "local", [("pipe", [src])],
                                    [["sub"]] + [["poll", "0"]] * j + [["unsub"], ["q", "closed"], ["run"], ["poll", "0"]],
                                    {"kind": "async-unsub", "src": head}))
        # (b) random scripts, arbitrary executor orders, operators that do not end the stream on top
        n = 2500 if tier == "quick" else 25000
        for _ in range(n):
            src = tg.async_source(rng)
            pipe = src
            if rng.random() < 0.35:
                pipe = rng.choice([["map", "add1"], ["skip", "1"], ["filter", "even"], ["scan", "add", "0"],
                                   ["last"], ["bufcount", "2"], ["delay", "2"], ["observeon"]]) + [pipe]
            mode = rng.choice(["fifo", "mixed", "mixed"])
            evs = tg.events(rng, rng.randint(2, 10), hot=False, mode=mode, unsub_p=0.06)
            if rng.random() < 0.7:
                evs.append(["run"])
            out.append(Case("time", rng.choice(["local", "threads"]), [("pipe", [pipe])], evs,
                            {"kind": "async-" + mode, "src": src[0]}))
        return out

    def async_oracle(self, case, lines):
        src = case.field("pipe")[0]
        want, ends = tg.async_expected(src)
        got = []
        unsub = False
        term_seen = False
        for k, e in enumerate(case.events):
            b = lines.get(k)
            if b == "PANIC":
                return {"kind": "panic", "event": k, "detail": b}
            if b is not None and b.startswith("closed=") and term_seen and b != "closed=1":
                return {"kind": "async-open-after-terminal", "event": k, "detail": b}
            if b is None or not b.startswith("o="):
                continue
            outs, kv = tg.parse_suffix(b)
            if e[0] == "unsub":
                unsub = True
            if outs and unsub:
                return {"kind": "delivery-after-unsubscribe", "event": k, "detail": b}
            if outs and term_seen:
                return {"kind": "async-delivery-after-terminal", "event": k, "detail": b}
            got += outs
            if got != want[:len(got)]:
                return {"kind": "async-relay", "event": k,
                        "detail": f"delivered {got}, the script promises {want}"}
            if any(o == "C" or o.startswith("E") for o in outs):
                term_seen = True
                if kv.get("live", 0) != 0:
                    return {"kind": "async-task-survives-terminal", "event": k, "detail": b}
            if e[0] == "run":
                if not unsub and got != want:
                    return {"kind": "async-incomplete", "event": k,
                            "detail": f"executor ran until idle: delivered {got}, the script promises {want}"}
                if not unsub and ends and kv.get("live", 0) != 0:
                    return {"kind": "async-task-survives-terminal", "event": k, "detail": b}
        return None

    def oracle(self, case, lines, model_lines=None):
        if case.field("realtimer"):
            return self.realtimer_oracle(case, lines)
        pipe = case.field("pipe")[0]
        if pipe[0] in tg.ASYNC_HEADS:
            return self.async_oracle(case, lines)
        if pipe[0] not in ("interval", "intervalat", "timer", "timerat"):
            return None          # with operators on top only the correspondence is checked
        prompt = case.meta.get("kind") == "prompt"
        tsub = None
        t = 0
        vals = []
        times = []
        unsub = False
        for k, e in enumerate(case.events):
            b = lines.get(k)
            if b is None or not b.startswith("o="):
                if b == "PANIC":
                    return {"kind": "panic", "event": k, "detail": b}
                continue
            outs, kv = tg.parse_suffix(b)
            t = kv.get("t", t)
            if e[0] == "sub":
                tsub = t
            if e[0] == "unsub":
                unsub = True
            if outs and unsub:
                return {"kind": "tick-after-unsubscribe", "event": k, "detail": b}
            for o in outs:
                vals.append(o)
                times.append(t)
            # the first period counts from SUBSCRIPTION (not from the executor's first look at the task): once the
            # executor has run until idle at a time when the first tick is due, that tick has been delivered
            # (interval / interval_at only: their RepeatTask arms its first timer when it is built; `timer` goes
            # through `schedule(task, delay)`, whose delay starts at the task's first poll by design)
            if (e[0] == "run" and tsub is not None and not unsub and not vals
                    and pipe[0] in ("interval", "intervalat")):
                first = int(pipe[1])
                if t >= tsub + first:
                    return {"kind": "first-tick-late", "event": k,
                            "detail": f"subscribed at {tsub}, first tick due at {tsub + first}, executor idle at {t}: nothing delivered"}
        if tsub is None:
            return None
        if pipe[0] in ("interval", "intervalat"):
            p = int(pipe[-1])
            d = int(pipe[1]) if pipe[0] == "intervalat" else p
            for i, (v, tt) in enumerate(zip(vals, times)):
                if v != f"N{i}":
                    return {"kind": "interval-sequence", "event": 0, "detail": f"tick {i} carries {v}"}
                due = tsub + d + i * p
                if tt < due:
                    return {"kind": "interval-early", "event": 0, "detail": f"tick {i} at {tt}, due {due}"}
                if i > 0 and tt - times[i - 1] < p:
                    return {"kind": "interval-spacing", "event": 0,
                            "detail": f"ticks {i-1},{i} at {times[i-1]},{tt}, period {p}"}
                if prompt and not unsub and tt != due:
                    return {"kind": "interval-late-under-prompt-schedule", "event": 0,
                            "detail": f"tick {i} at {tt}, due {due} (sub at {tsub}, first after {d}, period {p})"}
            if prompt and not unsub:
                want = (t - tsub - d) // p + 1 if t - tsub >= d else 0
                if len(vals) != want:
                    return {"kind": "interval-count-under-prompt-schedule", "event": 0,
                            "detail": f"{len(vals)} ticks by t={t}, expected {want}"}
        else:
            d = int(pipe[2])
            if vals not in ([], [f"N{pipe[1]}", "C"]):
                return {"kind": "timer-output", "event": 0, "detail": f"{vals}"}
            if vals and times[0] < tsub + d:
                return {"kind": "timer-early", "event": 0, "detail": f"at {times[0]}, due {tsub + d}"}
            if prompt and not unsub:
                if t >= tsub + d and (not vals or times[0] != tsub + d):
                    return {"kind": "timer-late-under-prompt-schedule", "event": 0,
                            "detail": f"{vals} at {times}, due {tsub + d}"}
        return None

    def signature(self, case, failure):
        return f"{failure['kind']}|time|{case.field('pipe')[0][0]}"

    def shrink_candidates(self, case):
        if case.field("realtimer"):
            return []      # kept as generated: without its `take` a zero-period interval never comes back (nor does its model)
        cands = [c for c in tg.time_shrink(case)
                 if c.field("pipe")[0][0] == case.field("pipe")[0][0]]
        cands += tg.script_shrink(case)
        return cands


PROP = C08()
