"""C16 — ending a stream early retires the producers that feed it."""
import random

from .. import timegen as tg
from .. import sx
from ..case import Case
from ..runner import Prop

CUTTERS = [["take", "1"], ["take", "2"], ["first"], ["elementat", "1"], ["takewhile", "lt2"],
           ["contains", "1"], ["all", "lt1"]]
MIDDLE = [["map", "add0"], ["filter", "true"], ["skip", "0"], ["scan", "add", "0"], ["tap"], ["distinct"],
          ["pairwise"], ["bufcount", "1"], ["skipwhile", "false"], ["duc"],
          # operators that may end the stream themselves, here as INTERMEDIATE operators that do not
          # (yet): their is_finished must still forward what is below them
          ["take", "50"], ["takewhile", "true"], ["takewhilei", "true"], ["contains", "-77"],
          ["all", "true"], ["elementat", "40"], ["dflt", "9"]]
# operators that emit (at least) one item for every one or two items they receive, whatever the values
SAFE_BELOW_COUNT = [["map", "add0"], ["filter", "true"], ["skip", "0"], ["scan", "add", "0"], ["tap"], ["distinct"],
                    ["pairwise"], ["bufcount", "1"], ["skipwhile", "false"], ["duc"], ["dflt", "9"]]
TIME_MIDDLE = [["buftime", "2"], ["buftime", "3"], ["bufcounttime", "2", "3"], ["delay", "1"], ["delay", "2"],
               ["observeon"], ["debounce", "1"], ["throttle", "2", "l"], ["throttle", "2", "a"], ["throttle", "1", "t"]]
TIME_HEADS = {"buftime": 1, "bufcounttime": 2, "delay": 1, "debounce": 1, "throttle": 1, "interval": 1}


def time_budget(node):
    """sum of all periods / windows / delays of the pipe: how long after the subscriber's terminal a task of
    the pipeline may legitimately still be live (each stage needs at most one more period of its own)"""
    if not isinstance(node, list) or not node:
        return 0
    b = 0
    if isinstance(node[0], str) and node[0] in TIME_HEADS:
        b += int(node[TIME_HEADS[node[0]]])
    return b + sum(time_budget(x) for x in node[1:] if isinstance(x, list))


TWO = ["merge", "zip", "combine", "withlatest", "takeuntil", "skipuntil", "sample", "buffer"]
STREAMS = ("stream", "streamres")


def tail_script(period, total):
    evs = [["sub"], ["run"]]
    for _ in range(total):
        evs += [["adv", "1"], ["run"]]
    return evs


class C16(Prop):
    pid = "C16"
    lean_module = "RxModel.Props.C16"
    extra_modules = ("RxModel.Props.C16C",)
    design_ref = "DESIGN.md §6 C16"
    rule = ("producers {interval on the virtual clock, from_iter over a counting iterator, from_stream / "
            "from_stream_result over a long always-ready (or unbounded, or pending-interleaved) scripted stream} x chains (<=3) of "
            "intermediate operators x early-terminating operators {take, first, element_at, take_while, contains, "
            "all, take_until}, with the producer as main input and as second input (notifier / sampler / other) of "
            "every two-input operator; prompt unit-step schedules long enough for several periods after the "
            "termination. Full line compared (deliveries, live tasks, timers, clock, pulls). Oracle on the "
            "implementation: once the subscriber has seen its terminal, no task is live any more one period (plus "
            "one step) later — so run-until-idle terminates; a counting iterator is not pulled beyond what was "
            "delivered; a stream driver has left the executor when the executor has run until idle after the terminal "
            "(and at once when it was polled), it does not pull more items than the model that asks is_finished() "
            "before every poll_next, and it does not block the executor (HANG) on an unbounded stream.")
    assumptions = ["stream producers as main input only (the chain model has no async source in notifier position); "
                   "take(0) never closes (spec decision, DESIGN §7); the model of the stream drivers follows the "
                   "REPAIRED code (is_finished asked at the top of the driver loop, DESIGN §7 finding 18)"]
    modelled_not_verified = "all Rust code"

    # translator tie: is_finished() of every translated observer, generated from the current source, is the
    # model's `finished` (GenTie/Fin/*.lean)
    tie_modules = {
        # from_stream(_result) / from_future(_result): what is scheduled, the driver polls = streamSpec / tryStreamSpec
        "RxModel.GenTie.AsyncSources": [],
        # merge_all: is_finished() of the outside AND of every inner observer = slot empty ∨ downstream finished
        # (tie_MergeAll_is_finished; seed C16-9 answered the inner one from a memo)
        "RxModel.GenTie.MergeAll": [], "RxModel.GenTie.MergeAllThreads": [],
        # the scheduler-using operators: is_finished() of their observers = the downstream's (tie_*_is_finished)
        "RxModel.GenTie.Delay": [], "RxModel.GenTie.DelayThreads": [], "RxModel.GenTie.ObserveOn": [],
        "RxModel.GenTie.ObserveOnThreads": [], "RxModel.GenTie.Debounce": [], "RxModel.GenTie.Throttle": [],
        "RxModel.GenTie.BufferCell": [],
        # group_by's observers (is_finished of the outer observer and of a group's subscribers)
        "RxModel.GenTie.GroupBy": [],
        "RxModel.GenTie.Fin.Map": ['map'],
        "RxModel.GenTie.Fin.MapTo": ['mapto'],
        "RxModel.GenTie.Fin.Filter": ['filter'],
        "RxModel.GenTie.Fin.FilterMap": ['filtermap'],
        "RxModel.GenTie.Fin.Tap": ['tap'],
        "RxModel.GenTie.Fin.OnErrorMap": ['onerrmap'],
        "RxModel.GenTie.Fin.OnComplete": [],
        "RxModel.GenTie.Fin.OnError": [],
        "RxModel.GenTie.Fin.Take": ['take', 'first', 'elementat'],
        "RxModel.GenTie.Fin.TakeWhile": ['takewhile', 'takewhilei'],
        "RxModel.GenTie.Fin.Skip": ['skip'],
        "RxModel.GenTie.Fin.SkipWhile": ['skipwhile'],
        "RxModel.GenTie.Fin.TakeLast": ['takelast'],
        "RxModel.GenTie.Fin.SkipLast": ['skiplast'],
        "RxModel.GenTie.Fin.Last": ['last'],
        "RxModel.GenTie.Fin.DefaultIfEmpty": ['dflt'],
        "RxModel.GenTie.Fin.Scan": ['scan'],
        "RxModel.GenTie.Fin.Distinct": ['distinct', 'distinctkey', 'duc', 'dukc'],
        "RxModel.GenTie.Fin.Pairwise": ['pairwise'],
        "RxModel.GenTie.Fin.Buffer": ['bufcount'],
        "RxModel.GenTie.Fin.Contains": ['contains'],
        "RxModel.GenTie.Fin.Collect": ['collect'],
        "RxModel.GenTie.Fin.Merge": ['merge'],
        "RxModel.GenTie.Fin.MergeThreads": ['merge'],
        "RxModel.GenTie.Fin.Zip": ['zip'],
        "RxModel.GenTie.Fin.ZipThreads": ['zip'],
        "RxModel.GenTie.Fin.CombineLatest": ['combine'],
        "RxModel.GenTie.Fin.CombineLatestThreads": ['combine'],
        "RxModel.GenTie.Fin.WithLatestFrom": ['withlatest'],
        "RxModel.GenTie.Fin.WithLatestFromThreads": ['withlatest'],
        "RxModel.GenTie.Fin.TakeUntil": ['takeuntil'],
        "RxModel.GenTie.Fin.TakeUntilThreads": ['takeuntil'],
        "RxModel.GenTie.Fin.SkipUntil": ['skipuntil'],
        "RxModel.GenTie.Fin.SkipUntilThreads": ['skipuntil'],
        "RxModel.GenTie.Fin.Sample": ['sample'],
        "RxModel.GenTie.Fin.SampleThreads": ['sample'],
    }

    def cases(self, tier, seed):
        rng = random.Random(seed + 16)
        out = []
        reps = 300 if tier == "quick" else 3000
        # interval as main input
        for _ in range(reps):
            p = rng.choice([1, 2, 3])
            pipe = ["interval", str(p)]
            for _ in range(rng.randint(0, 3)):
                pipe = rng.choice(MIDDLE) + [pipe]
            pipe = rng.choice(CUTTERS) + [pipe]
            for _ in range(rng.randint(0, 1)):
                pipe = rng.choice(MIDDLE) + [pipe]
            out.append(Case("time", rng.choice(["local", "threads"]), [("pipe", [pipe])],
                            tail_script(p, 6 * p + 6), {"kind": "interval-main", "period": p}))
        # … with scheduler-using operators among the intermediates: their own tasks (flush timer of
        # buffer_with_time, window / debounce tasks, per-item tasks of delay / observe_on) must retire too
        for _ in range(reps):
            p = rng.choice([1, 2])
            pipe = ["interval", str(p)]
            nt = 0
            for _ in range(rng.randint(1, 3)):
                if rng.random() < 0.6 and nt < 2:
                    nt += 1
                    pipe = rng.choice(TIME_MIDDLE) + [pipe]
                else:
                    pipe = rng.choice(MIDDLE) + [pipe]
            pipe = rng.choice(CUTTERS) + [pipe]
            out.append(Case("time", rng.choice(["local", "threads"]), [("pipe", [pipe])],
                            tail_script(p, 8 * p + 8 + 3 * time_budget(pipe)), {"kind": "interval-main-time", "period": p}))
        # interval as second input of a two-input operator; the main input is a hot subject
        for _ in range(reps):
            p = rng.choice([1, 2, 3])
            k = rng.choice(TWO)
            pipe = [k, ["hot", "0"], ["interval", str(p)]]
            for _ in range(rng.randint(0, 2)):
                pipe = rng.choice(MIDDLE) + [pipe]
            cut = rng.choice(CUTTERS)
            pipe = cut + [pipe]
            evs = [["sub"], ["run"]]
            nxt = 0
            for step in range(6 * p + 8):
                if rng.random() < 0.4:
                    evs += [["emit", "0", sx.N(nxt)], ["run"]]
                    nxt += 1
                evs += [["adv", "1"], ["run"]]
            out.append(Case("time", rng.choice(["local", "threads"]), [("pipe", [pipe])], evs,
                            {"kind": "interval-second", "period": p, "op": k}))
        # take_until with the producer as notifier is itself the early terminator
        for p in (1, 2, 3):
            for fl in ("local", "threads"):
                out.append(Case("time", fl, [("pipe", [["takeuntil", ["interval", "1"], ["interval", str(p + 1)]]])],
                                tail_script(p, 5 * p + 8), {"kind": "interval-both", "period": p + 1}))
        # a HOT subject as second input of a two-input operator inside a chain with scheduler-using operators
        # (chain model: stage `op2n _ (.hot j)`, `TW.deliverNotifiers`): items and terminals of either subject, the
        # early terminator above; full line compared.  (Found unexercised by tools/model_mutants.py: every `time`
        # population put an interval or a counting iterator there; own random stream, the other populations stay.)
        rng2 = random.Random(seed + 1602)
        for _ in range(reps):
            k = rng2.choice(TWO)
            main = ["hot", "0"]
            if rng2.random() < 0.5:
                main = rng2.choice(TIME_MIDDLE + MIDDLE) + [main]
            pipe = [k, main, ["hot", "1"]]
            for _ in range(rng2.randint(0, 2)):
                pipe = rng2.choice(MIDDLE + TIME_MIDDLE) + [pipe]
            if rng2.random() < 0.7:
                pipe = rng2.choice(CUTTERS) + [pipe]
            evs = [["sub"], ["run"]]
            nxt = 1
            for step in range(rng2.randint(4, 14)):
                r = rng2.random()
                if r < 0.35:
                    evs += [["emit", "0", sx.N(nxt)], ["run"]]
                    nxt += 1
                elif r < 0.65:
                    evs += [["emit", "1", sx.N(50 + nxt)], ["run"]]
                    nxt += 1
                elif r < 0.72:
                    evs += [["emit", "1", rng2.choice(["c", ["e", "4"]])], ["run"]]
                elif r < 0.77:
                    evs += [["emit", "0", rng2.choice(["c", ["e", "3"]])], ["run"]]
                else:
                    evs += [["adv", str(rng2.choice([1, 1, 2, 5]))], ["run"]]
            evs += [["adv", "12"], ["run"], ["q", "closed"]]
            out.append(Case("time", rng2.choice(["local", "threads"]), [("pipe", [pipe])], evs,
                            {"kind": "hot-second", "op": k}))
        # counting iterator
        for _ in range(reps):
            n = rng.randint(0, 8)
            pipe = ["iterc", str(n)]
            for _ in range(rng.randint(0, 3)):
                pipe = rng.choice(MIDDLE) + [pipe]
            if rng.random() < 0.85:
                pipe = rng.choice(CUTTERS) + [pipe]
            out.append(Case("time", rng.choice(["local", "threads"]), [("pipe", [pipe])],
                            [["sub"], ["q", "pulls"]], {"kind": "iterator", "n": n}))
        # counting iterator as SECOND input of a two-input operator; the first input is a synchronous cold
        # source (so that an operator below may have ended the stream before the iterator is even subscribed)
        # or a hot subject
        for _ in range(reps):
            n = rng.randint(1, 8)
            k = rng.choice(TWO)
            main = rng.choice([["hot", "0"], ["iter", "1"], ["iter", "1", "2"], ["iter"], ["iter", "1", "2", "3"]])
            pipe = [k, main, ["iterc", str(n)]]
            for _ in range(rng.randint(0, 2)):
                pipe = rng.choice(MIDDLE) + [pipe]
            if rng.random() < 0.9:
                pipe = rng.choice(CUTTERS) + [pipe]
            evs = [["sub"], ["q", "pulls"]]
            if main[0] == "hot":
                for i in range(rng.randint(0, 4)):
                    evs += [["emit", "0", sx.N(i + 1)]]
                if rng.random() < 0.5:
                    evs += [["emit", "0", "c"]]
                evs += [["q", "pulls"]]
            out.append(Case("time", rng.choice(["local", "threads"]), [("pipe", [pipe])], evs,
                            {"kind": "iterator-second", "n": n, "op": k}))
        out += self.stream_cases(rng, tier)
        return (tg.with_units(seed, out) + self.nested_cases(random.Random(seed + 1616), tier)
                + self.inner_cases(random.Random(seed + 1617), tier))

    # ------------------------------------------------------------------ producers in a side branch of a tree
    def _wrap(self, rng, inner):
        """`inner` below a random stack of forwarding operators: single-input ones and two-input cells (as main
        or as second input; never as the notifier of skip_until, whose is_finished does not consult the
        downstream — the recorded rest of finding 11)."""
        for _ in range(rng.randint(1, 4)):
            r = rng.random()
            if r < 0.55:
                inner = rng.choice(MIDDLE) + [inner]
            elif r < 0.8:
                inner = [rng.choice(TWO), inner, ["hot", "1"]]
            else:
                inner = [rng.choice([k for k in TWO if k != "skipuntil"]), ["hot", "1"], inner]
        return inner

    def nested_cases(self, rng, tier):
        """The stream has ALREADY been ended (by `take k` over a cold first input of `merge`) when the branch with
        the producer is subscribed: every observer on the way down must answer is_finished() = true, so a counting
        iterator is never pulled and an interval retires at its first tick.  Tree shapes the chain model does not
        have: judged on the implementation alone (oracle), no comparison with the model."""
        out = []
        reps = 400 if tier == "quick" else 4000
        for _ in range(reps):
            k = rng.randint(1, 3)
            first = ["iter"] + [str(100 + i) for i in range(k + rng.randint(0, 2))]
            # (a third of the branches has a scheduler-using operator directly above the producer: delay, observe_on,
            #  debounce, throttle, buffer_with_time must forward is_finished like everybody else — seed C16-10 made delay
            #  answer from its own slot, which only a delivery THROUGH the delay empties)
            tm = rng.choice(TIME_MIDDLE) if rng.random() < 0.34 else None
            if rng.random() < 0.6:
                inner = ["iterc", str(rng.randint(1, 60))]
                branch = self._wrap(rng, (tm + [inner]) if tm else inner)
                pipe = ["take", str(k), ["merge", first, branch]]
                evs = [["sub"], ["q", "pulls"], ["emit", "1", sx.N(7)], ["q", "pulls"]]
                if tm:
                    evs += [["run"], ["adv", "3"], ["run"], ["q", "pulls"]]
                out.append(Case("time" if tm else "pipe", rng.choice(["local", "threads"]), [("pipe", [pipe])], evs,
                                {"kind": "nested-iterator"}))
            else:
                p = rng.choice([1, 2])
                inner = ["interval", str(p)]
                branch = self._wrap(rng, (tm + [inner]) if tm else inner)
                pipe = ["take", str(k), ["merge", first, branch]]
                evs = [["sub"], ["run"]]
                for _ in range(2 * p + 3):
                    evs += [["adv", "1"], ["run"]]
                out.append(Case("time", rng.choice(["local", "threads"]), [("pipe", [pipe])], evs,
                                {"kind": "nested-interval", "period": p}))
        # a cold producer in front of group_by (suite `groupby`, event `iter k`): once the stream of groups has been ended
        # (`take n` of the groups) the producer must not be pulled any more — whether or not every announced group was
        # subscribed (keys in `skip` are announced and never subscribed), whether or not its subscribers are still there
        keysets = {"mod2": [0, 1], "mod3": [0, 1, 2], "div2": None, "id": None, "const0": [0]}
        for key, ks in keysets.items():
            for n in (0, 1, 2, 3):
                for k in (0, 1, 4, 9):
                    skips = [[]]
                    if ks:
                        skips += [[str(x)] for x in ks] + [[str(x) for x in ks]]
                    else:
                        skips += [["0"], ["1"], ["0", "2"]]
                    for sk in skips:
                        fields = [("key", [key]), ("otake", [str(n)])]
                        if sk:
                            fields.append(("skip", sk))
                        out.append(Case("groupby", ("local", "threads")[(n + k + len(sk)) % 2], fields, [["iter", str(k)]],
                                        {"kind": "groupby-iter"}))
        return out

    # ---- a producer INSIDE an inner observable of flat_map / concat_map / merge_all ---------------------------
    SWALLOW = [["filter", "false"], ["skip", "1000"], ["ignore"], ["last"], ["skipwhile", "true"], ["bufcount", "1000"],
               ["reduce", "add", "0"]]

    def inner_cases(self, rng, tier):
        """The producer (interval, counting iterator) sits in an inner observable started by flat_map / concat_map /
        map + merge_all(n); everything it emits is swallowed on its way out of the inner chain; the stream is ended by
        ANOTHER path (a take_until notifier behind the flattening operator, a `take` filled by the other branch of a
        merge).  The inner observer must still answer is_finished() from the downstream: the interval retires at its next
        tick, an iterator started after the end is not pulled at all.  No chain model for these shapes: implementation +
        oracle only."""
        out = []
        reps = 60 if tier == "quick" else 600
        for i in range(reps):
            sw = rng.choice(self.SWALLOW)
            how = rng.choice([["flatmap"], ["concatmap"], ["mergemap", "1"], ["mergemap", "2"], ["mergemap", "7"]])
            mids = [rng.choice(MIDDLE) for _ in range(rng.randint(0, 2))]

            def wrap(node):
                for m in mids:
                    node = m + [node]
                return node
            if i % 2 == 0:
                p = rng.choice([1, 2])
                inner = sw + [["interval", str(p)]]
                flat = wrap(how + [inner, ["hot", "0"]])
                if rng.random() < 0.5:
                    pipe, ender = ["takeuntil", flat, ["hot", "1"]], ["emit", "1", sx.N(9)]
                else:
                    pipe, ender = ["take", "1", ["merge", flat, ["hot", "1"]]], ["emit", "1", sx.N(9)]
                evs = [["sub"], ["emit", "0", sx.N(1)], ["run"]]
                for _ in range(rng.randint(0, 2 * p + 1)):
                    evs += [["adv", "1"], ["run"]]
                if rng.random() < 0.4:
                    evs += [["emit", "0", sx.N(2)], ["run"]]
                evs += [ender, ["run"]]
                for _ in range(2 * p + 3):
                    evs += [["adv", "1"], ["run"]]
                out.append(Case("time", rng.choice(["local", "threads"]), [("pipe", [pipe])], evs,
                                {"kind": "inner-producer", "period": p}))
            else:
                inner = sw + [["iterc", str(rng.randint(5, 60))]]
                flat = wrap(how + [inner, ["hot", "0"]])
                pipe = rng.choice([["takeuntil", flat, ["hot", "1"]], ["take", "1", ["merge", flat, ["hot", "1"]]]])
                evs = [["sub"], ["emit", "1", sx.N(9)], ["q", "pulls"], ["emit", "0", sx.N(1)], ["q", "pulls"],
                       ["emit", "0", sx.N(2)], ["q", "pulls"]]
                out.append(Case("pipe", rng.choice(["local", "threads"]), [("pipe", [pipe])], evs,
                                {"kind": "inner-producer"}))
        return out

    def _is_inner(self, case):
        f = case.field("pipe")
        return bool(f) and bool(tg._heads_of(f[0], set()) & {"flatmap", "concatmap", "mergemap"})

    def inner_oracle(self, case, lines):
        heads = tg._heads_of(case.field("pipe")[0], set())
        ended = None
        for k, e in enumerate(case.events):
            b = lines.get(k) or ""
            if b in ("PANIC", "HANG"):
                return {"kind": b.lower(), "event": k, "detail": b}
            if b.startswith("o=") and ended is None and any(x in ("C",) or x.startswith("E") for x in tg.parse_suffix(b)[0]):
                ended = k
            if b.startswith("pulls=") and ended is not None and int(b[6:]) != 0:
                return {"kind": "iterator-drained-inner", "event": k,
                        "detail": f"{b}: the stream had ended (event {ended}) before the inner observable was started"}
        if "interval" in heads and ended is not None:
            p = int(case.meta.get("period") or 2)
            last = None
            for k, e in enumerate(case.events):
                b = lines.get(k) or ""
                if k > ended and b.startswith("o=") and e[0] == "run":
                    _, kv = tg.parse_suffix(b)
                    last = (k, kv.get("live", 0), kv.get("t", 0))
            # the tail of the script advances 2p+3 > one period after the end and runs after every step
            if last and last[1] != 0:
                return {"kind": "producer-not-retired-inner", "event": last[0],
                        "detail": f"still {last[1]} live task(s) at t={last[2]}; the stream ended in event {ended}"}
        return None

    def compare_from(self, case):
        if case.suite == "groupby":
            return 0
        if self._is_inner(case):
            return len(case.events)
        if self._is_nested(case):
            return len(case.events)
        return 0

    def _is_nested(self, case):
        f = case.field("pipe")
        try:
            return (bool(f) and f[0][0] == "take" and f[0][2][0] == "merge" and f[0][2][1][0] == "iter"
                    and 1 <= int(f[0][1]) <= len(f[0][2][1]) - 1 and f[0][2][2][0] not in ("iterc", "interval"))
        except Exception:
            return False

    def nested_oracle(self, case, lines):
        heads = tg._heads_of(case.field("pipe")[0], set())
        for k, e in enumerate(case.events):
            b = lines.get(k) or ""
            if b == "PANIC":
                return {"kind": "panic", "event": k, "detail": b}
            if b.startswith("pulls=") and int(b[6:]) != 0:
                return {"kind": "iterator-drained-nested", "event": k,
                        "detail": f"{b}: the stream had ended before the iterator's branch was subscribed"}
        if "interval" in heads:
            p = time_budget(case.field("pipe")[0])
            last = None
            for k, e in enumerate(case.events):
                b = lines.get(k) or ""
                if b.startswith("o=") and e[0] == "run":
                    _, kv = tg.parse_suffix(b)
                    if kv.get("t", 0) >= p + 1:
                        last = (k, kv.get("live", 0), kv.get("t", 0))
            if last and last[1] != 0:
                return {"kind": "producer-not-retired-nested", "event": last[0],
                        "detail": f"still {last[1]} live task(s) at t={last[2]} although the stream ended at subscription"}
        return None

    def stream_cases(self, rng, tier):
        """from_stream / from_stream_result below an early-terminating operator."""
        out = []

        def tail(j=0):
            return [["sub"]] + [["poll", "0"]] * j + [["run"], ["q", "pulls"], ["q", "closed"], ["adv", "1"], ["run"]]

        # minimal ones first: always-ready bounded, pending in between, unbounded
        for head in ("stream", "streamres"):
            for fl in ("local", "threads"):
                ready = [["ready", str(i)] for i in range(4)]
                out.append(Case("time", fl, [("pipe", [["take", "2", [head] + ready]])], tail(),
                                {"kind": "stream", "shape": "ready"}))
                out.append(Case("time", fl, [("pipe", [["take", "1", [head] + ready[:1] + [["pending"]] + ready[1:]]])],
                                tail(), {"kind": "stream", "shape": "pending"}))
                # a stream that stays silent after its first item: the driver must not wait for it
                out.append(Case("time", fl, [("pipe", [["take", "1", [head, ["ready", "0"], ["hang"]]]])], tail(),
                                {"kind": "stream", "shape": "silent"}))
            out.append(Case("time", "local", [("pipe", [["take", "1", [head, ["ready", "0"], ["again"]]]])],
                            [["sub"], ["run"], ["q", "pulls"]], {"kind": "stream", "shape": "unbounded"}))
        reps = 300 if tier == "quick" else 3000
        for _ in range(reps):
            head = rng.choice(["stream", "streamres"])
            n = rng.choice([6, 12, 30])
            steps = []
            pend = rng.choice([0.0, 0.0, 0.2, 0.5])
            for i in range(n):
                while rng.random() < pend:
                    steps.append(["pending"])
                steps.append(["ready", str(i)])
            shape = "pending" if pend else "ready"
            r = rng.random()
            if r < 0.06:
                steps.append(["again"])
                shape = "unbounded"
            elif r < 0.25:
                steps.append(["hang"])
                shape = "silent"
            pipe = [head] + steps
            if shape == "unbounded":
                # only a count-based terminator ends an unbounded stream for sure (see _has_cutter)
                for _ in range(rng.randint(0, 2)):
                    pipe = rng.choice(SAFE_BELOW_COUNT) + [pipe]
                pipe = rng.choice([["take", "1"], ["take", "2"], ["first"], ["elementat", "1"]]) + [pipe]
            for _ in range(rng.randint(0, 3)):
                pipe = rng.choice(MIDDLE) + [pipe]
            pipe = rng.choice(CUTTERS) + [pipe]
            for _ in range(rng.randint(0, 1)):
                pipe = rng.choice(MIDDLE) + [pipe]
            out.append(Case("time", rng.choice(["local", "threads"]), [("pipe", [pipe])],
                            tail(rng.choice([0, 0, 1, 2])), {"kind": "stream", "shape": shape}))
        return out

    def stream_oracle(self, case, lines, model_lines):
        term_at = None
        pulls = mp = None
        for k, e in enumerate(case.events):
            b = lines.get(k)
            if b == "PANIC":
                return {"kind": "panic", "event": k, "detail": b}
            if b is None:
                continue
            if b.startswith("pulls="):
                pulls = int(b[6:])
                mb = (model_lines or {}).get(k, "")
                if mb.startswith("pulls="):
                    mp = int(mb[6:])
                continue
            if not b.startswith("o="):
                continue
            outs, kv = tg.parse_suffix(b)
            if term_at is None and any(o == "C" or o.startswith("E") for o in outs):
                term_at = k
            if term_at is not None and e[0] == "run" and kv.get("live", 0) != 0:
                return {"kind": "producer-not-retired", "event": k,
                        "detail": f"subscriber terminated in event {term_at}; the executor ran until idle and "
                                  f"{kv.get('live')} task(s) are still live"}
        # by C16_stream_retires the model's driver stops pulling when its observer is finished
        if term_at is not None and pulls is not None and mp is not None and pulls > mp:
            return {"kind": "stream-drained", "event": term_at,
                    "detail": f"{pulls} items pulled from the stream, the observer was finished after {mp}"}
        return None

    def groupby_oracle(self, case, lines):
        b = lines.get(0) or ""
        if b == "PANIC" or "pulls=" not in b:
            return {"kind": "panic" if b == "PANIC" else "missing-line", "event": 0, "detail": b}
        pulls = int(b.rsplit("pulls=", 1)[1])
        k = int(case.events[0][1])
        n = int(case.field("otake")[0])
        key = case.field("key")[0]

        def keyf(i):
            if key.startswith("mod"):
                return i % int(key[3:])
            if key.startswith("div"):
                return i // int(key[3:])
            if key.startswith("const"):
                return int(key[5:])
            return i
        # take(n) of the groups completes with the n-th NEW key (n > 0); from then on GroupByObserver is finished
        seen, want = set(), 0
        for i in range(k):
            if n > 0 and len(seen) >= n:
                break
            want += 1
            seen.add(keyf(i))
        if pulls > want:
            return {"kind": "producer-not-retired", "event": 0,
                    "detail": f"from_iter pulled {pulls} items through group_by, the stream of groups had ended after {want}"}
        if pulls < want:
            return {"kind": "producer-stopped-early", "event": 0, "detail": f"pulled {pulls}, want {want}"}
        return None

    def oracle(self, case, lines, model_lines=None):
        if case.suite == "groupby":
            return self.groupby_oracle(case, lines)
        kind = case.meta.get("kind", "")
        if self._is_inner(case):
            return self.inner_oracle(case, lines)
        if self._is_nested(case):
            return self.nested_oracle(case, lines)
        if kind == "stream" or self._src(case) in STREAMS:
            return self.stream_oracle(case, lines, model_lines)
        if kind in ("iterator", "iterator-second") or case.field("pipe") and (
                self._src(case) == "iterc" or "iterc" in tg._heads_of(case.field("pipe")[0], set())):
            delivered_items = None
            for k, e in enumerate(case.events):
                b = lines.get(k)
                if b == "PANIC":
                    return {"kind": "panic", "event": k, "detail": b}
            b0 = lines.get(0, "")
            outs, _ = tg.parse_suffix(b0) if b0.startswith("o=") else ([], {})
            terminated = any(o in ("C",) or o.startswith("E") for o in outs)
            pulls = None
            for k, e in enumerate(case.events):
                b = lines.get(k, "")
                if b.startswith("pulls="):
                    pulls = int(b[6:])
            if pulls is None:
                return None
            # by C16_iter_stops_when_finished the model pulls exactly while its observer is not
            # finished: pulling more than the model is pulling on behalf of a terminated subscriber
            mp = None
            for k, e in enumerate(case.events):
                mb = (model_lines or {}).get(k, "")
                if mb.startswith("pulls="):
                    mp = int(mb[6:])
            if mp is not None and pulls > mp:
                return {"kind": "iterator-drained", "event": 1,
                        "detail": f"{pulls} items pulled, the observer was finished after {mp}"}
            return None
        if "interval" not in tg._heads_of(case.field("pipe")[0], set()):
            return None
        p = time_budget(case.field("pipe")[0])
        t_term = None
        for k, e in enumerate(case.events):
            b = lines.get(k)
            if b is None or not b.startswith("o="):
                if b == "PANIC":
                    return {"kind": "panic", "event": k, "detail": b}
                continue
            outs, kv = tg.parse_suffix(b)
            t = kv.get("t", 0)
            if t_term is None and any(o == "C" or o.startswith("E") for o in outs):
                t_term = t
            if t_term is not None and e[0] == "run" and t >= t_term + p + 1 and kv.get("live", 0) != 0:
                return {"kind": "producer-not-retired", "event": k,
                        "detail": f"subscriber terminated at t={t_term}, period {p}, still {kv.get('live')} live task(s) at t={t}"}
        return None

    def _srcnode(self, case):
        node = case.field("pipe")[0]
        while (isinstance(node, list) and node and isinstance(node[-1], list) and node[0] not in TWO
               and node[0] not in STREAMS):
            node = node[-1]
        if node and node[0] in TWO:
            node = node[1]
            while isinstance(node, list) and node and isinstance(node[-1], list):
                node = node[-1]
        return node

    def _src(self, case):
        return self._srcnode(case)[0]

    def _has_cutter(self, case):
        """An unbounded stream legitimately never ends unless an operator that ends after a fixed NUMBER of
        items (whatever their values) sits above it with only one-in-one-out(ish) operators in between:
        `contains -77`, `all true`, `take_while true` ... swallow or pass an unbounded stream for ever, and
        the real code then rightly never leaves the executor (watchdog HANG = a false alarm)."""
        node = case.field("pipe")[0]
        heads = []
        while isinstance(node, list) and node:
            heads.append(node)
            node = node[-1] if isinstance(node[-1], list) and node[0] not in STREAMS else None
        heads = heads[:-1][::-1]           # operators from the stream upwards
        for h in heads:
            if h[0] in ("first",) or (h[0] == "take" and int(h[1]) >= 1) or h[0] == "elementat":
                return True
            if h[:-1] not in SAFE_BELOW_COUNT:
                return False
        return False

    def signature(self, case, failure):
        if case.suite == "groupby":
            return f"{failure['kind']}|groupby-iter"
        node, hs = case.field("pipe")[0], []
        while isinstance(node, list) and node:
            hs.append(node[0])
            if node[0] in STREAMS:
                break
            if node[0] in TWO:
                hs.append("second:" + node[2][0])
                node = node[1]
            else:
                node = node[-1] if isinstance(node[-1], list) else None
        keep = sorted(set(h for h in hs if h in TWO or h.startswith("second:") or
                          h in ("interval", "iterc") + STREAMS))
        return f"{failure['kind']}|time|{','.join(keep)}"

    def shrink_candidates(self, case):
        cands = []
        if case.suite == "groupby":
            k = int(case.events[0][1])
            for k2 in range(k):
                c = case.copy()
                c.events = [["iter", str(k2)]]
                cands.append(c)
            if case.has_field("skip") if hasattr(case, "has_field") else any(f == "skip" for f, _ in case.fields):
                c = case.copy()
                c.fields = [(f, v) for f, v in c.fields if f != "skip"]
                cands.append(c)
            return cands
        for c in tg.time_shrink(case) + tg.script_shrink(case):
            try:
                if self._src(c) != self._src(case):
                    continue
                # an unbounded stream without an early-terminating operator above it legitimately never ends
                if ["again"] in self._srcnode(c) and not self._has_cutter(c):
                    continue
                cands.append(c)
            except Exception:
                pass
        return cands


PROP = C16()
