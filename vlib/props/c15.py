"""C15 — finalize runs its callback exactly once per subscription (sequential part)."""
import itertools
import random

from .. import sx
from ..case import Case
from ..runner import Prop

ITEM = ["emit", ["n", "1"]]
COMPLETE = ["emit", "c"]
ERROR = ["emit", ["e", "7"]]
UNSUB = ["unsub"]
ALPHABET = [ITEM, COMPLETE, ERROR, UNSUB]

# single-input operators the suite can put around finalize
OPS = [["map", "add1"], ["filter", "even"], ["filter", "true"], ["take", "1"], ["take", "2"],
       ["skip", "1"], ["takewhile", "lt2"], ["last"], ["dflt", "9"], ["takelast", "1"],
       ["skiplast", "1"]]
EARLY = {"take", "takewhile"}        # operators that complete their downstream by themselves


def mk_case(chain, evs, flavor="local", kind="plain"):
    return Case("finalize", flavor, [("chain", [list(e) for e in chain])],
                [list(e) for e in evs], {"kind": kind})


def fin_ids(chain):
    return [int(e[1]) for e in chain if e[0] == "fin"]


def marker(k):
    return "F" if k == 0 else f"F{k}"


def parse_tokens(body):
    if body is None or not body.startswith("o="):
        return None
    return [t for t in body[2:].split(";") if t]


def is_marker(t):
    return t[0] == "F"


def upstream_completion(ops, events):
    """Index of the event at which the operators `ops` (source side first) complete their downstream by
    themselves (take n: with the n-th item it lets through; take_while p: with the first item failing p), or
    None.  Only the family of OPS; anything else: None (no claim)."""
    state = []
    for o in ops:
        if o[0] == "take":
            state.append(int(o[1]))
        elif o[0] == "skip":
            state.append(int(o[1]))
        else:
            state.append(None)
        if o[0] not in ("map", "filter", "take", "skip", "takewhile", "last", "dflt", "takelast", "skiplast", "fin"):
            return None
    for i, ev in enumerate(events):
        if ev[0] != "emit":
            if ev[0] == "unsub":
                return None
            continue
        if not (isinstance(ev[1], list) and ev[1][0] == "n"):
            return None               # a source terminal: the script's own trigger
        v = int(ev[1][1])
        alive = True
        for j, o in enumerate(ops):
            if not alive:
                break
            h = o[0]
            if h == "map":
                v = v + 1 if o[1] == "add1" else v
                if o[1] not in ("add1", "add0"):
                    return None
            elif h == "filter":
                if o[1] == "even":
                    alive = v % 2 == 0
                elif o[1] != "true":
                    return None
            elif h == "take":
                if state[j] == 0:
                    return None       # take(0) never completes by itself (spec decision)
                state[j] -= 1
                if state[j] == 0:
                    return i
            elif h == "skip":
                if state[j] > 0:
                    state[j] -= 1
                    alive = False
            elif h == "takewhile":
                if o[1] != "lt2":
                    return None
                if not v < 2:
                    return i
            elif h in ("last", "takelast", "skiplast", "dflt"):
                if h == "skiplast":
                    return None       # delays items: not simulated
                alive = False         # holds everything until the source completes
            elif h == "fin":
                pass
    return None


class C15(Prop):
    pid = "C15"
    lean_module = "RxModel.Props.C15"
    extra_modules = ("RxModel.Props.C15T",)
    design_ref = "DESIGN.md §6 C15"
    rule = ("bounded-exhaustive: `subject.finalize(f)` / `finalize_threads(f)` under every event sequence of "
            "length <= 6 over {item, complete, error, unsubscribe} after an item prefix of length 0..2 "
            "(post-terminal events through cloned subject handles, unsubscribe after a terminal, terminal "
            "after unsubscribe, repeated unsubscribe = no-op on the moved value), both flavours; finalize "
            "before/after every operator of a small family (sequences <= 4); two nested finalizers, with "
            "and without an operator between them (sequences <= 5); random chains of up to 5 elements "
            "with 1..3 finalizers. The callback writes a marker into the probe's log, so its position is "
            "observed. Non-trivial = some output; distinct = distinct (chain, events) text.")
    assumptions = [
        "sequential histories only; the race of a terminating thread with an unsubscribing thread is C15_threads (lock-level model)",
        "the callback does not re-enter the subject or the subscription",
        "operators around finalize come from the single-input family validated by C03",
    ]
    modelled_not_verified = ("src/ops/finalize.rs is a hand transcription (Ops/Finalize.lean), validated only on "
                             "the generated cases; `Rc<Option<F>>`/`Arc<Mutex<Option<F>>>` take() is one atomic step here")

    # ------------------------------------------------------------------ cases
    # translator tie: FinalizerObserver / FinalizerSubscription generated from src/ops/finalize.rs (both flavours) are
    # the `Fin` cell of the model; the wiring of actual_subscribe (one func cell for both halves) is pinned
    tie_modules = {
        "RxModel.GenTie.Finalize": ["fin"],
        "RxModel.GenTie.FinalizeThreads": ["fin"],
        "RxModel.GenTie.WiringFinalize": ["fin"],
        "RxModel.GenTie.WiringFinalizeThreads": ["fin"],
        # the hot source the suite puts above finalize: every observer handed to actual_subscribe is REGISTERED (whatever
        # it answers to is_finished) and gets the terminal — what the repair e3b3f31 rests on
        "RxModel.GenTie.Subject": [], "RxModel.GenTie.SubjectThreads": [],
        "RxModel.GenTie.Subscriber": [], "RxModel.GenTie.SubscriberThreads": [],
        # the RAII guard of family `gdrop`: dropping it IS unsubscribing (tie_Guard_drop)
        "RxModel.GenTie.Subscription": [],
        "RxModel.GenTie.PinsCore": [],
    }

    def cases(self, tier, seed):
        rng = random.Random(seed)
        out = []
        plain = [["fin", "0"]]
        maxlen = 6
        for pre in range(3):
            for n in range(maxlen + 1):
                for seq in itertools.product(ALPHABET, repeat=n):
                    if pre and seq and seq[0] == ITEM:
                        continue        # same text as a longer prefix
                    evs = [ITEM] * pre + list(seq)
                    out.append(mk_case(plain, evs, "local"))
                    out.append(mk_case(plain, evs, "threads"))
        # items with distinct values, so that order/duplication of deliveries shows
        for n in range(5):
            for seq in itertools.product(ALPHABET, repeat=n):
                evs, v = [], 0
                for e in seq:
                    if e == ITEM:
                        v += 1
                        evs.append(["emit", ["n", str(v)]])
                    else:
                        evs.append(e)
                out.append(mk_case(plain, evs, "local"))
        # finalize in the middle of a chain
        mid = 4 if tier == "quick" else 5
        for op in OPS:
            for chain in ([op, ["fin", "0"]], [["fin", "0"], op]):
                for n in range(mid + 1):
                    for seq in itertools.product(ALPHABET, repeat=n):
                        evs = self.number(seq)
                        out.append(mk_case(chain, evs, "local", "chain"))
                        out.append(mk_case(chain, evs, "threads", "chain"))
        # two nested finalizers
        nested = [[["fin", "0"], ["fin", "1"]]] + [[["fin", "0"], op, ["fin", "1"]] for op in OPS]
        for chain in nested:
            for n in range((5 if chain == nested[0] else mid) + 1):
                for seq in itertools.product(ALPHABET, repeat=n):
                    evs = self.number(seq)
                    out.append(mk_case(chain, evs, "local", "nested"))
                    out.append(mk_case(chain, evs, "threads", "nested"))
        # a NEIGHBOUR joins the source subject (event `join`) at some point of the history: the subject's own bookkeeping
        # (chamber -> live list, pruning) must not lose the finalize subscription — in particular one whose downstream has
        # finished early (take / take_while) without being unsubscribed (seed C15-7)
        JOIN = ["join"]
        for op in [["take", "1"], ["take", "2"], ["takewhile", "lt2"], ["filter", "true"], ["last"]]:
            for chain in ([["fin", "0"], op], [op, ["fin", "0"]], [["fin", "0"], op, ["fin", "1"]]):
                for n in range(1, (4 if tier == "quick" else 5) + 1):
                    for seq in itertools.product(ALPHABET, repeat=n):
                        base = self.number(seq)
                        for pos in range(len(base) + 1):
                            evs = base[:pos] + [JOIN] + base[pos:]
                            out.append(mk_case(chain, evs, ("local", "threads")[(pos + n) % 2], "join"))
        # the RAII way: `unsubscribe_when_dropped()` and the guard dropped (event `gdrop`) instead of `unsubscribe()` — also
        # over a source that was torn down before the subscription (field `dead`: the upstream subscription reports closed
        # although no terminal ever arrived; seed C15-8 made the guard skip "closed" subscriptions)
        for chain in ([["fin", "0"]], [["fin", "0"], ["take", "1"]], [["take", "2"], ["fin", "0"]], [["fin", "0"], ["fin", "1"]]):
            for n in range(0, 4):
                for seq in itertools.product(ALPHABET, repeat=n):
                    base = self.number(seq)
                    evs = [["gdrop"] if e == UNSUB else e for e in base]
                    if ["gdrop"] not in evs:
                        evs = evs + [["gdrop"]]
                    for dead in (False, True):
                        c = mk_case(chain, evs, ("local", "threads")[(n + len(evs)) % 2], "guard")
                        if dead:
                            c.fields.append(("dead", ["1"]))
                            c.meta = {"kind": "dead"}
                        out.append(c)
        # random chains
        nrand = 5000 if tier == "quick" else 50000
        for _ in range(nrand):
            nf = rng.randint(1, 3)
            chain, k = [], 0
            for _ in range(rng.randint(nf, 5)):
                chain.append(rng.choice(OPS))
            for pos in sorted(rng.sample(range(len(chain) + 1), min(nf, len(chain) + 1)), reverse=True):
                chain.insert(pos, ["fin", "x"])
            chain = [list(e) for e in chain]
            for e in chain:
                if e[0] == "fin":
                    e[1] = str(k)
                    k += 1
            evs = []
            for _ in range(rng.randint(0, 9)):
                q = rng.random()
                if q < 0.6:
                    evs.append(["emit", ["n", str(rng.choice([0, 1, 2, 3]))]])
                elif q < 0.75:
                    evs.append(COMPLETE)
                elif q < 0.85:
                    evs.append(["emit", ["e", str(rng.randint(1, 9))]])
                else:
                    evs.append(UNSUB)
            out.append(mk_case(chain, evs, rng.choice(["local", "threads"]), "rand"))
        # several subscriptions of clones of ONE pipeline value: the callback runs once PER SUBSCRIPTION
        for fl in ("local", "threads"):
            for nclones in (2, 3):
                for chain in ([["fin", "0"]], [["map", "add1"], ["fin", "0"]], [["fin", "0"], ["skip", "1"]],
                              [["fin", "0"], ["fin", "1"]]):
                    for n in range(4):
                        for seq in itertools.product(ALPHABET, repeat=n):
                            c = mk_case(chain, self.number(seq), fl, "clones")
                            c.fields.append(("clones", [str(nclones)]))
                            out.append(c)
        # a source that is already torn down when the pipeline subscribes (closed subscription, no terminal
        # will ever come): unsubscribing must still run the callback
        for fl in ("local", "threads"):
            for chain in ([["fin", "0"]], [["fin", "0"], ["map", "add1"]], [["fin", "0"], ["fin", "1"]]):
                for n in range(4):
                    for seq in itertools.product(ALPHABET, repeat=n):
                        c = mk_case(chain, self.number(seq), fl, "dead")
                        c.fields.append(("dead", ["1"]))
                        out.append(c)
        # the downstream of finalize is ALREADY finished when finalize subscribes to the hot source: start_with replays its
        # values first, a `take` below it is full before the source is subscribed at all.  The finalizer is still a
        # subscriber of the source: its callback runs at the source's terminal / at unsubscription, once (seed C15-9: the
        # subject did not register an observer that reported finished).  No model for start_with in this suite: oracle only.
        for fl in ("local", "threads"):
            for vals, k in ((["7"], 1), (["7", "8"], 1), (["7", "8"], 2), (["7"], 2), (["7", "8", "9"], 2)):
                for mid in ([], [["map", "add1"]], [["fin", "1"]]):
                    for below in ([], [["map", "add1"]]):
                        chain = [["fin", "0"]] + mid + [["startwith"] + vals, ["take", str(k)]] + below
                        for n in range(4):
                            for seq in itertools.product(ALPHABET, repeat=n):
                                if any(e == UNSUB for e in seq[:-1]) and fl == "threads":
                                    continue
                                out.append(mk_case(chain, self.number(seq), fl, "startwith"))
        return out

    def compare_from(self, case):
        if any(e[0] == "startwith" for e in case.field("chain")):
            return len(case.events)
        return 0

    @staticmethod
    def number(seq):
        evs, v = [], 0
        for e in seq:
            if e == ITEM:
                v += 1
                evs.append(["emit", ["n", str(v)]])
            else:
                evs.append(e)
        return evs

    # ----------------------------------------------------------------- oracle
    def oracle(self, case, lines, model_lines=None):
        if any(e[0] == "gdrop" for e in case.events):
            # unsubscription through the RAII guard is an unsubscription
            c2 = case.copy()
            c2.events = [["unsub"] if e[0] == "gdrop" else list(e) for e in case.events]
            return self.oracle(c2, lines, model_lines)
        chain = case.field("chain")
        ids = fin_ids(chain)
        if case.meta.get("kind") in ("clones", "dead") or case.field("clones") or case.field("dead"):
            n = int(case.field("clones")[0]) if case.field("clones") else 1
            dead = bool(case.field("dead"))
            seen = {k: 0 for k in ids}
            triggered = False
            for i, ev in enumerate(case.events):
                b = lines.get(i)
                if b == "PANIC":
                    return {"kind": "panic", "event": i, "detail": "panic in the implementation"}
                toks = parse_tokens(b) or []
                is_term = ev[0] == "emit" and not (isinstance(ev[1], list) and ev[1][0] == "n")
                if ev[0] == "unsub" or (is_term and not dead):
                    triggered = True
                for t in toks:
                    for k in ids:
                        if t == marker(k):
                            seen[k] += 1
                            if not triggered:
                                return {"kind": "before-trigger", "event": i, "detail": b}
                for k in ids:
                    if seen[k] > n:
                        return {"kind": "twice", "event": i, "detail": f"{marker(k)} ran {seen[k]} times for {n} subscription(s)"}
                    if triggered and seen[k] != n:
                        return {"kind": "not-once-per-subscription", "event": i,
                                "detail": f"{marker(k)} ran {seen[k]} times for {n} subscription(s) after the trigger"}
            return None
        evtoks = []
        for i in range(len(case.events)):
            b = lines.get(i)
            if b == "PANIC":
                return {"kind": "panic", "event": i, "detail": "panic in the implementation"}
            t = parse_tokens(b)
            if t is None:
                return {"kind": "bad-output", "event": i, "detail": repr(b)}
            evtoks.append(t)
        flat = [(i, t) for i, ts in enumerate(evtoks) for t in ts]

        # first trigger of the script: the first unsubscribe or source terminal
        first = None
        for i, ev in enumerate(case.events):
            if ev[0] == "unsub" or (ev[0] == "emit" and not (isinstance(ev[1], list) and ev[1][0] == "n")):
                first = i
                break

        script_first = first
        for pos, e in enumerate(chain):
            if e[0] != "fin":
                continue
            k = int(e[1])
            m = marker(k)
            where = [i for i, t in flat if t == m]
            early_up = any(x[0] in EARLY for x in chain[:pos])
            # an operator between the source and this finalizer that completes by itself is a trigger too:
            # its `complete` reaches the finalizer's observer like the source's would
            first = script_first
            up = upstream_completion(chain[:pos], case.events)
            if up is not None and (first is None or up < first):
                first = up
            # never twice
            if len(where) > 1:
                return {"kind": "twice", "event": where[1], "detail": f"{m} ran {len(where)} times"}
            # never before the first trigger (an operator closer to the source may complete by itself)
            if where and not early_up and (first is None or where[0] < first):
                return {"kind": "early", "event": where[0], "detail": f"{m} ran at event {where[0]} before any trigger"}
            # exactly once, right after the first trigger
            if first is not None and (not where or where[0] > first):
                return {"kind": "not-run-at-trigger", "event": first, "pos": pos,
                        "trigger": "upstream" if first != script_first else "script",
                        "trigger_ev": case.events[first][0],
                        "detail": f"{m} " + ("never ran" if not where else f"ran only at event {where[0]}") +
                                  f" although event {first} ({sx.show(case.events[first])}) ends the subscription"}
            if where:
                i = where[0]
                ts = evtoks[i]
                j = ts.index(m)
                ev = case.events[i]
                if ev[0] == "unsub":
                    # unsubscribe delivers nothing; callbacks run source side first
                    if any(not is_marker(t) for t in ts):
                        return {"kind": "position", "event": i, "detail": f"delivery during unsubscribe: {ts}"}
                else:
                    # downstream first: nothing is delivered to the probe after the callback
                    if any(not is_marker(t) for t in ts[j + 1:]):
                        return {"kind": "position", "event": i, "detail": f"{m} ran before a delivery: {ts}"}
        # finalizer order: on a terminal the one closest to the probe first, on unsubscribe source side first
        for i, ts in enumerate(evtoks):
            ms = [t for t in ts if is_marker(t)]
            if len(ms) > 1:
                order = [marker(k) for k in ids if marker(k) in ms]
                if case.events[i][0] != "unsub":
                    order = order[::-1]
                ev = case.events[i]
                src_term = ev[0] == "emit" and not (isinstance(ev[1], list) and ev[1][0] == "n")
                # (several markers in one item event can stem from different early completions: not checked)
                if (ev[0] == "unsub" or src_term) and ms != order:
                    return {"kind": "position", "event": i, "detail": f"callback order {ms}, expected {order}"}
        # once a callback has run nothing reaches the probe any more
        seen = False
        for i, t in flat:
            if is_marker(t):
                seen = True
            elif seen:
                return {"kind": "after", "event": i, "detail": f"delivery {t} after a finalizer ran"}

        # the plain pipeline: the whole log is determined
        if [list(e) for e in chain] == [["fin", "0"]]:
            exp = []
            for i, ev in enumerate(case.events):
                if first is not None and i > first:
                    exp.append([])
                elif ev[0] == "unsub":
                    exp.append(["F"])
                elif ev[1] == "c":
                    exp.append(["C", "F"])
                elif ev[1][0] == "e":
                    exp.append([f"E{ev[1][1]}", "F"])
                else:
                    exp.append([f"N{ev[1][1]}"])
            for i in range(len(case.events)):
                if evtoks[i] != exp[i]:
                    return {"kind": "position", "event": i, "detail": f"got {evtoks[i]}, expected {exp[i]}"}
        return None

    def signature(self, case, failure):
        chain = case.field("chain")
        shape = "plain" if [list(e) for e in chain] == [["fin", "0"]] else "chain"
        if failure["kind"] == "not-run-at-trigger":
            # an operator between the finalizer and the probe that completes by itself?
            pos = failure.get("pos", 0)
            # (the finding recorded under this signature — fixed by `fix: Subject::error/complete hand the
            # terminal to every subscriber` — was about a SOURCE TERMINAL that the subject did not hand to a
            # finished observer; an `unsubscribe()` after which the callback has not run is a different violation)
            if failure.get("trigger_ev", "emit") == "emit":
                shape = "early-op-downstream" if any(e[0] in EARLY for e in chain[pos + 1:]) else shape
            if failure.get("trigger") == "upstream":
                # the terminal comes from an operator ABOVE the finalizer, not from the subject (which is what
                # the recorded finding was about): a different violation
                shape = "upstream-completion"
        return f"{failure['kind']}|finalize|{shape}"

    def shrink_candidates(self, case):
        cands = []
        for i in range(len(case.events) - 1, -1, -1):
            c = case.copy()
            del c.events[i]
            cands.append(c)
        chain = case.field("chain")
        nf = len(fin_ids(chain))
        for i in range(len(chain) - 1, -1, -1):
            if chain[i][0] == "fin" and nf == 1:
                continue
            c = case.copy()
            c.set_field("chain", chain[:i] + chain[i + 1:])
            cands.append(c)
        if case.flavor == "threads":
            c = case.copy()
            c.flavor = "local"
            cands.append(c)
        return cands

    def extra_coverage(self, cases, impl):
        heads = {}
        for c in cases:
            for e in c.field("chain"):
                heads[e[0]] = heads.get(e[0], 0) + 1
        return {"chain_element_counts": heads}


PROP = C15()
