"""Generic flow of one property check (DESIGN §5)."""
import json
import os
import sys
import time

from . import core
from .core import log


def run_all(prop, cases):
    """core.run_both on the cases plus the auxiliary cases their oracles ask for."""
    aux, owners = [], []
    for c in cases:
        c.meta.pop("_aux", None)
        for a in prop.aux_cases(c):
            aux.append(a)
            owners.append(c)
    if not aux:
        return core.run_both(cases)
    impl, model, errs = core.run_both(list(cases) + aux)
    for a, c in zip(aux, owners):
        c.meta.setdefault("_aux", []).append(impl.get(a.cid, {}))
    return impl, model, errs


class Prop:
    pid = "C00"
    lean_module = "RxModel.Props.C00"
    extra_modules = ()        # further property modules (e.g. the lock-level part C15T)
    # translator tie: Lean modules RxModel.GenTie.* (theorems: the observer GENERATED from /repo/src by rs2lean
    # is the machine of the hand-written model) -> the pipeline heads whose population is widened when one breaks
    tie_modules = {}
    focus = ()                # set by the runner when a tie is broken
    design_ref = "DESIGN.md §6"
    rule = ""
    trusted_base = []
    assumptions = []
    modelled_not_verified = ""

    def cases(self, tier, seed):
        raise NotImplementedError

    def corpus(self):
        from .case import parse_cases
        d = core.VERIF / "corpus" / self.pid
        out = []
        if d.exists():
            for f in sorted(d.glob("*.case")):
                for c in parse_cases(f.read_text()):
                    c.meta = {"kind": "corpus", "file": f.name}
                    out.append(c)
        return out

    def project(self, body):
        return body

    def compare_from(self, case):
        return 0

    def oracle(self, case, lines, model_lines=None):
        """Property oracle evaluated on the implementation's own output.
        Return None or a dict {kind, event, detail}."""
        return None

    def nontrivial(self, case, lines):
        return any(b not in ("o=",) for b in lines.values())

    def signature(self, case, failure):
        from .pipegen import pipe_heads
        f = case.field("pipe")
        ops = sorted(pipe_heads(f[0])) if f else []
        return f"{failure['kind']}|{case.suite}|{','.join(ops)}"

    def shrink_candidates(self, case):
        from .pipegen import shrink_candidates
        return shrink_candidates(case)

    def extra_coverage(self, cases, impl):
        return {}

    def aux_cases(self, case):
        """Derived cases the oracle of `case` needs (run in the same batch, also while shrinking); their
        implementation lines arrive as `case.meta['_aux']` (list of {event: body}), in this order."""
        return []

    def cross_oracle(self, cases, impl, model):
        """Failures that relate several cases (e.g. the two flavours of one case):
        list of (case, failure)."""
        return []


def base_trusted():
    return [
        "Lean 4.33.0 kernel; axioms allowed: propext, Classical.choice, Quot.sound (audited per run with #print axioms)",
        "no sorry/admit/native_decide/bv_decide/implemented_by/unsafe in RxModel (grep per run)",
        "hand-written Lean model of the rxRust observers tied to /repo by the correspondence check (sampled, not proved)",
        "rxharness (pipeline interpreter, probe, virtual time), rxdriver, the line protocol and this comparison script",
        "rustc/cargo, std RefCell/Mutex/Rc/Arc semantics, futures crate",
    ]


def monoize(cases, seed):
    """A share of the `pipe` / `time` cases is built with adjacent single-input operators applied on the
    concrete operator types, no box in between (harness field `mono`, see harness/src/pipe.rs): the
    pipeline text, the model and the expected output are unchanged."""
    import random
    from .pipegen import MONO_OPS

    def adjacent(e):
        if not isinstance(e, list) or not e:
            return False
        if (e[0] in MONO_OPS and isinstance(e[-1], list) and e[-1] and e[-1][0] in MONO_OPS
                and isinstance(e[-1][-1], list)):
            return True
        return any(adjacent(x) for x in e[1:] if isinstance(x, list))

    rng = random.Random(seed * 31 + 5)
    for c in cases:
        if c.suite in ("pipe", "time") and c.field("pipe") and not c.field("mono") \
                and rng.random() < 0.25 and adjacent(c.field("pipe")[0]):
            c.fields = [("mono", [str(rng.choice([1, 2]))])] + c.fields
    return cases


def run_property(prop, tier, seed, replay=None):
    t0 = time.time()
    pid = prop.pid
    problems = []           # infrastructure / proof problems (strings)
    notes = []

    # 1. proofs
    modules = [prop.lean_module] + list(prop.extra_modules)
    ok, out, tl = core.build_lean(modules)
    proof_ok = ok
    if not ok:
        problems.append("lean-build-failed")
        log(out[-3000:])
    hits = core.forbidden_hits()
    if hits:
        proof_ok = False
        problems.append("forbidden-construct: " + "; ".join(hits[:5]))
    audit = {"theorems": [], "axioms": {}, "bad": {}, "missing": []}
    if ok:
        audit = core.audit_axioms(modules, pid)
        if audit["bad"] or audit["missing"] or audit["rc"] != 0:
            proof_ok = False
            problems.append(f"axiom-audit: bad={audit['bad']} missing={audit['missing']}")
            log(audit.get("log", "")[-2000:])
    obligations = len(audit["theorems"]) if audit["theorems"] else sum(len(core.theorems_of(m)) for m in modules)
    discharged = len([t for t in audit["theorems"] if t in audit["axioms"] and t not in audit["bad"]]) if proof_ok or audit["axioms"] else 0

    # 1b. translator tie: regenerate the observers from the current source, re-check the tie theorems
    tie_broken = {}
    if prop.tie_modules:
        tie_broken, tlog, tt = core.regen_and_tie(sorted(prop.tie_modules))
        notes.append(f"rs2lean+tie {tt:.1f}s")
        if tie_broken:
            proof_ok = False
            for m, msg in sorted(tie_broken.items()):
                problems.append(f"gen-tie-broken: {m}: {msg}")
            log(tlog[-3000:])
            prop.focus = sorted({h for m in tie_broken for h in prop.tie_modules[m]})
        good = [m for m in sorted(prop.tie_modules) if m not in tie_broken]
        if good and ok:
            a2 = core.audit_axioms(good, pid + "_tie")
            audit["theorems"] += a2["theorems"]
            audit["axioms"].update(a2["axioms"])
            audit["bad"].update(a2["bad"])
            audit["missing"] += a2["missing"]
            if a2["bad"] or a2["missing"] or a2["rc"] != 0:
                proof_ok = False
                problems.append(f"axiom-audit (tie): bad={a2['bad']} missing={a2['missing']}")
        for m in tie_broken:
            audit["theorems"] += core.theorems_of(m)       # obligations that are NOT discharged now
        obligations = len(audit["theorems"])
        discharged = len([t for t in audit["theorems"] if t in audit["axioms"] and t not in audit["bad"]])

    if tier == "thorough" and ok:
        lc_mods = modules + [m for m in sorted(prop.tie_modules) if m not in tie_broken]
        rc, lo = core.sh(["lake", "env", "leanchecker"] + lc_mods, cwd=core.LEAN)
        notes.append(f"leanchecker rc={rc} ({len(lc_mods)} modules)")
        if rc != 0:
            proof_ok = False
            problems.append("leanchecker-failed")
            log(lo[-2000:])

    # 2. harness against the current /repo
    hok, hout, th = core.build_harness()
    if not hok:
        log(hout[-4000:])
        problems.append("harness-build-failed")

    # 3. correspondence + 4. oracle
    cases = []
    impl, model = {}, {}
    disagreements, failures = [], []
    if hok and ok:
        if replay:
            from .case import parse_cases
            cases = parse_cases(open(replay).read())
        else:
            cases = prop.corpus() + monoize(prop.cases(tier, seed), seed)
        # dedupe
        seen, uniq = set(), []
        for c in cases:
            k = c.key()
            if k not in seen:
                seen.add(k)
                uniq.append(c)
        cases = uniq
        impl, model, errs = run_all(prop, cases)
        for e in errs:
            problems.append("run-error: " + e[:300])
        for c in cases:
            d = core.compare_case(c, impl, model, prop.project, prop.compare_from(c))
            if d:
                disagreements.append((c, d))
            li = impl.get(c.cid, {})
            hung = [k for k, b in li.items() if b == "HANG"]
            if hung:
                f = {"kind": "hang", "event": hung[0],
                     "detail": "the real code blocked for ever in this event (re-locked mutex / lost wakeup)"}
            else:
                f = prop.oracle(c, li, model.get(c.cid, {}))
            if f:
                failures.append((c, f))
        # 4b. confirmation: a failure / disagreement must reproduce when its case is run again, a few cases per process and
        # with a generous watchdog — a loaded machine (the checks may run beside each other) must not turn a slow case
        # into a HANG or a missed race window into a finding.  (More than CONFIRM_MAX failing cases: not a fluke; the first
        # CONFIRM_MAX are confirmed, the rest are kept as they are.)
        CONFIRM_MAX = 64
        suspects = []
        for c, _ in failures[:CONFIRM_MAX] + disagreements[:CONFIRM_MAX]:
            if all(c is not x for x in suspects):
                suspects.append(c)
        if suspects:
            old_ids = {id(c): c.cid for c in suspects}
            old_stall = core.ENV.get("RXH_STALL_MS")
            core.ENV["RXH_STALL_MS"] = "8000"
            try:
                impl2, model2, errs2 = run_all(prop, suspects)
            finally:
                if old_stall is None:
                    core.ENV.pop("RXH_STALL_MS", None)
                else:
                    core.ENV["RXH_STALL_MS"] = old_stall
            again_f, again_d = set(), set()
            for c in suspects:
                li = impl2.get(c.cid, {})
                if any(b == "HANG" for b in li.values()) or prop.oracle(c, li, model2.get(c.cid, {})):
                    again_f.add(id(c))
                if core.compare_case(c, impl2, model2, prop.project, prop.compare_from(c)):
                    again_d.add(id(c))
            for c in suspects:
                c.cid = old_ids[id(c)]
            dropped_f = [c for c, _ in failures[:CONFIRM_MAX] if id(c) not in again_f]
            dropped_d = [c for c, _ in disagreements[:CONFIRM_MAX] if id(c) not in again_d]
            if dropped_f or dropped_d:
                notes.append(f"not reproduced on a second run (dropped): {len(dropped_f)} oracle failures, "
                             f"{len(dropped_d)} disagreements")
                log(f"[{pid}] not reproduced on a second run: {len(dropped_f)} failures, {len(dropped_d)} disagreements")
            failures = [(c, f) for c, f in failures[:CONFIRM_MAX] if id(c) in again_f] + failures[CONFIRM_MAX:]
            disagreements = [(c, d) for c, d in disagreements[:CONFIRM_MAX] if id(c) in again_d] + disagreements[CONFIRM_MAX:]
        failures += prop.cross_oracle(cases, impl, model)

    # 5. verdict
    known = [k for k in core.load_known() if k.get("property") == pid and k.get("status", "known") == "known"]
    violations = []      # (replay path, suffix)
    known_hits = {}

    # all shrinking of one run shares a budget (a broken tree with many hanging cases must not turn a quick
    # check into a long one; an un-shrunk replay is still a replay)
    t_shrink0 = time.time()

    def shrink_left():
        return max(5, min(60, 150 - (time.time() - t_shrink0)))

    def rerun(cands):
        i2, m2, _ = run_all(prop, cands)
        return i2, m2

    def safe_candidates(case):
        # a plugin that cannot shrink a case of a population it has borrowed must not cost the verdict: an un-shrunk
        # replay is still a replay
        try:
            return prop.shrink_candidates(case)
        except Exception as ex:
            log(f"[{pid}] shrink_candidates failed ({type(ex).__name__}: {ex}); the case is kept as it is")
            return []

    def shrink_failure(case, kind):
        def failing(cands):
            i2, m2 = rerun(cands)
            res = []
            for c in cands:
                if kind == "hang":
                    res.append(any(b == "HANG" for b in i2.get(c.cid, {}).values()))
                    continue
                try:
                    f = prop.oracle(c, i2.get(c.cid, {}), m2.get(c.cid, {}))
                except Exception:        # a shrunk candidate the oracle cannot read is simply not a failing one
                    f = None
                res.append(bool(f) and f["kind"] == kind)
            return res
        return core.shrink(case, failing, safe_candidates, max_seconds=shrink_left())

    def shrink_disagreement(case):
        def failing(cands):
            i2, m2 = rerun(cands)
            return [core.compare_case(c, i2, m2, prop.project, prop.compare_from(c)) is not None for c in cands]
        return core.shrink(case, failing, safe_candidates, max_seconds=shrink_left())

    # group failures by signature of the un-shrunk case first to bound the work
    done_sigs = set()
    shrunk = 0
    for c, f in failures:
        pre = prop.signature(c, f)
        if pre in done_sigs:
            continue
        if shrunk >= 25:
            break
        shrunk += 1
        small = shrink_failure(c, f["kind"])
        i2, m2 = rerun([small])
        f2 = (f if f["kind"] == "hang" else None) or prop.oracle(small, i2.get(small.cid, {}), m2.get(small.cid, {})) or f
        sig = prop.signature(small, f2)
        done_sigs.add(pre)
        if sig in done_sigs and sig != pre:
            continue
        done_sigs.add(sig)
        kf = next((k for k in known if k.get("signature") == sig), None)
        if kf:
            known_hits[sig] = kf
            continue
        path = core.write_replay(pid, small, {"property": pid, "kind": f2["kind"], "signature": sig,
                                             "detail": f2.get("detail", ""),
                                             "impl": json.dumps(i2.get(small.cid, {}))})
        violations.append((path, ""))
        if len(violations) >= 5:
            break

    if not violations:
        # disagreements not explained by an oracle failure (or by a known finding)
        # (every oracle failure left at this point matched a known finding; the model follows the code, so a
        # known finding explains no disagreement — cases without any oracle failure are looked at first)
        failing_ids = {c.cid for c, _ in failures}
        pure = ([(c, d) for c, d in disagreements if c.cid not in failing_ids] +
                [(c, d) for c, d in disagreements if c.cid in failing_ids])
        dsigs = set()
        for c, d in pure[:200]:
            pre = prop.signature(c, {"kind": "disagreement"})
            if pre in dsigs:
                continue
            dsigs.add(pre)
            small = shrink_disagreement(c)
            i2, m2 = rerun([small])
            sig = prop.signature(small, {"kind": "disagreement"})
            if sig in dsigs and sig != pre:
                continue
            dsigs.add(sig)
            kf = next((k for k in known if k.get("signature") == sig), None)
            if kf:
                known_hits[sig] = kf
                continue
            dd = core.compare_case(small, i2, m2, prop.project, prop.compare_from(small)) or d
            path = core.write_replay(pid, small, {
                "property": pid, "kind": "correspondence-disagreement", "signature": sig,
                "suite": small.suite, "event": dd["event"], "impl": dd["impl"], "model": dd["model"],
                "note": "model and implementation disagree; no input violating the property's own oracle was found"})
            violations.append((path, " no-failing-input-found"))
            if len(violations) >= 3:
                break
    if not violations and (problems and not proof_ok or "harness-build-failed" in problems or
                           any(p.startswith("run-error") for p in problems)):
        path = core.write_replay(pid, None, {"property": pid, "kind": "obligation-broken",
                                             "what": "; ".join(problems),
                                             "theorem_module": " ".join(modules + sorted(tie_broken))})
        violations.append((path, " no-failing-input-found"))

    for sig, kf in known_hits.items():
        print(f"KNOWN-FINDING: property={pid} {kf.get('what', sig)}")
    for path, suffix in violations:
        print(f"VIOLATION property={pid} replay={path}{suffix}")

    # 6. evidence
    nontriv = set()
    kinds = {}
    for c in cases:
        kinds[c.meta.get("kind", "?")] = kinds.get(c.meta.get("kind", "?"), 0) + 1
        if prop.nontrivial(c, impl.get(c.cid, {})):
            nontriv.add(c.key())
    samples = [c.text() for c in cases[:: max(1, len(cases) // 3)][:3]] or ["(no cases run)"]
    coverage = {
        "obligations": obligations,
        "discharged": discharged if proof_ok else min(discharged, max(0, obligations - 1)),
        "checker_cmd": f"cd /verif/lean && lake build {' '.join(modules)} && for m in ../work/Audit_{pid}_*.lean; do lake env lean $m; done  # #print axioms",
        "trusted_base": base_trusted() + list(prop.trusted_base),
        "theorems": audit["theorems"],
        "axioms_used": sorted({a for axs in audit["axioms"].values() for a in axs}),
        "evaluations": len(cases),
        "distinct_nontrivial": len(nontriv),
        "rule": prop.rule,
        "samples": samples,
        "traces_validated_against_impl": len(cases) - len(disagreements),
        "disagreements": len(disagreements),
        "oracle_failures": len(failures),
        "known_findings_hit": sorted(known_hits),
        "case_kinds": kinds,
        "modelled_not_verified": prop.modelled_not_verified,
        "problems": problems,
        "notes": notes,
        "timings_s": {"lean": round(tl, 1), "harness_build": round(th, 1)},
    }
    coverage.update(prop.extra_coverage(cases, impl))
    core.write_evidence(pid, tier, seed, coverage, list(prop.assumptions), time.time() - t0,
                        len(violations))
    log(f"[{pid}] cases={len(cases)} disagreements={len(disagreements)} oracle_failures={len(failures)} "
        f"known={len(known_hits)} violations={len(violations)} proofs={discharged}/{obligations} "
        f"wall={time.time()-t0:.1f}s")
    return 1 if violations else 0
