"""S-expressions as nested python lists/strings; printing and parsing."""

def show(e):
    if isinstance(e, (list, tuple)):
        return "(" + " ".join(show(x) for x in e) + ")"
    return str(e)

def parse_all(s):
    toks = s.replace("(", " ( ").replace(")", " ) ").split()
    pos = 0
    def one():
        nonlocal pos
        t = toks[pos]; pos += 1
        if t == "(":
            xs = []
            while toks[pos] != ")":
                xs.append(one())
            pos += 1
            return xs
        return t
    out = []
    while pos < len(toks):
        out.append(one())
    return out

def parse(s):
    return parse_all(s)[0]

# ---- values / notifications -------------------------------------------------
def val(v):
    """python value -> sexp: int, bool, None(unit) ... kept simple: ints only + tuples as pairs"""
    if isinstance(v, bool):
        return "T" if v else "F"
    if isinstance(v, int):
        return str(v)
    if isinstance(v, tuple):
        return ["p", val(v[0]), val(v[1])]
    if isinstance(v, list):
        return ["l"] + [val(x) for x in v]
    return str(v)

def N(v): return ["n", val(v)]
def E(e): return ["e", str(e)]
C = "c"
