//! rs2lean — translate the observer state machines of rxRust (`impl Observer for XObserver`) into Lean 4.
//!
//! The output is a *shallow embedding*: one Lean structure per Rust observer struct and one Lean function per
//! `next / error / complete / is_finished` (and per inherent helper method), written as a `do` block in the
//! `Option` monad (`none` = the Rust code would panic: `unwrap()` of `None`, `usize` underflow, loop fuel
//! exhausted).  A call on the downstream observer appends to the output list `out`.  The semantic vocabulary
//! (`Rs.*`) is defined once in `RxModel/Gen/Prelude.lean`.  Anything the translator does not understand is an
//! ERROR for that observer (the Lean file then lacks the definition and the tie theorem fails to build): it
//! never guesses.
//!
//! usage: rs2lean <repo/src> <out dir>      (writes <out dir>/<Module>.lean for every entry of the table)

use proc_macro2::{Delimiter, Group, TokenStream, TokenTree};
use std::collections::HashMap;
use quote::ToTokens as _;
use std::fmt::Write as _;
use syn::{
    BinOp, Block, Expr, Fields, FnArg, GenericArgument, GenericParam, ImplItem, Item, ItemImpl, ItemStruct, Lit,
    Member, Pat, PathArguments, ReturnType, Stmt, Type, TypeParamBound, UnOp,
};

mod derived;
mod holds;
mod table;

#[derive(Clone, Debug, PartialEq)]
pub enum Ty {
    Nat,
    Bool,
    Val,
    Err,
    Obs,
    Unit,
    Opt(Box<Ty>),
    List(Box<Ty>),
    Tuple(Vec<Ty>),
    /// `Result<A, B>`
    Res(Box<Ty>, Box<Ty>),
    /// an opaque future with this output (its `poll` answers come from the oracle `futs`)
    Fut(Box<Ty>),
    /// `Poll<T>`
    Poll(Box<Ty>),
    /// the sending half of an unbounded channel
    Chan,
    /// a signed machine integer (`AtomicI8` flag)
    Int,
    /// an `AtomicWaker`
    Waker,
    Fun(Vec<Ty>, Box<Ty>),
    Counter,
    /// a user callback without result held as a value (`F: FnOnce()` inside an `Option` cell)
    Callback,
    /// a nested subscription (`U: Subscription`)
    Sub,
    /// a boxed subscriber of a subject (`Box<dyn Publisher<..>>`)
    Pub,
    /// the subject of one group of group_by (a token; calls on it are `Ev.to id ..`)
    Grp,
    /// an inner observable handed to a flattening operator (`ObservableItem: Observable<..>`)
    Inner,
    /// a stored closure that subscribes an inner observable later (`Box<dyn FnOnce()>`)
    Lazy,
    /// the scheduler handed to a time operator (`SD: Scheduler<..>`)
    Sched,
    /// a task built for the scheduler (`OnceTask::new(f, args)`)
    Task,
    Named(String),
}

impl Ty {
    fn lean(&self) -> String {
        match self {
            Ty::Nat => "Nat".into(),
            Ty::Bool => "Bool".into(),
            Ty::Val => "Val".into(),
            Ty::Err => "Err".into(),
            Ty::Obs => "Rs.Obs".into(),
            Ty::Unit => "Unit".into(),
            Ty::Counter => "Nat".into(),
            Ty::Callback => "Rs.Callback".into(),
            Ty::Sub => "Rs.Sub".into(),
            Ty::Pub => "Rs.Pub".into(),
            Ty::Grp => "Rs.Grp".into(),
            Ty::Inner => "Rs.Inner".into(),
            Ty::Lazy => "Rs.Lazy".into(),
            Ty::Sched => "Rs.Sched".into(),
            Ty::Task => "Rs.Task".into(),
            Ty::Opt(t) => format!("(Option {})", t.lean()),
            Ty::List(t) => format!("(List {})", t.lean()),
            Ty::Tuple(ts) => format!("({})", ts.iter().map(|t| t.lean()).collect::<Vec<_>>().join(" × ")),
            Ty::Res(a, b) => format!("(Except {} {})", b.lean(), a.lean()),
            Ty::Fut(_) => "Rs.Fut".into(),
            Ty::Poll(t) => format!("(Rs.Poll {})", t.lean()),
            Ty::Chan => "Rs.Chan".into(),
            Ty::Int => "Int".into(),
            Ty::Waker => "Rs.Waker".into(),
            Ty::Fun(a, r) => {
                let mut s = String::new();
                for t in a {
                    s += &t.lean();
                    s += " → ";
                }
                format!("({}{})", s, r.lean())
            }
            Ty::Named(n) => n.clone(),
        }
    }
}

type Res<T> = Result<T, String>;

fn bail<T>(msg: impl Into<String>) -> Res<T> {
    Err(msg.into())
}

fn show_full<T: quote::ToTokens>(t: &T) -> String {
    quote::quote!(#t).to_string()
}

fn show<T: quote::ToTokens>(t: &T) -> String {
    let s = quote::quote!(#t).to_string();
    if s.len() > 120 {
        format!("{}…", &s[..s.char_indices().nth(120).map(|x| x.0).unwrap_or(s.len())])
    } else {
        s
    }
}

/// What is known about the generic parameters of one impl block.
#[derive(Default, Clone)]
pub struct Generics {
    map: HashMap<String, Ty>,
    known: Vec<String>,
    /// `type RcBufferObserver<O, Item> = MutArc<Option<BufferObserver<O, Item>>>;` (parameters are positional)
    aliases: HashMap<String, (Vec<String>, Type)>,
}

fn last_seg(p: &syn::Path) -> String {
    p.segments.last().map(|s| s.ident.to_string()).unwrap_or_default()
}

fn type_args(p: &syn::Path) -> Vec<&Type> {
    match &p.segments.last().unwrap().arguments {
        PathArguments::AngleBracketed(a) => {
            a.args.iter().filter_map(|g| if let GenericArgument::Type(t) = g { Some(t) } else { None }).collect()
        }
        _ => vec![],
    }
}

const CELLS: &[&str] = &["MutRc", "MutArc", "Rc", "Arc", "RefCell", "Mutex", "Cell"];
/// the traits whose impls are translated
const TRAITS: &[&str] = &["Observer", "Subscription", "Publisher", "SubjectSize", "Observable", "Behavior", "Drop"];
const PHANTOMS: &[&str] = &["TypeHint", "PhantomData"];

impl Generics {
    fn of(gen: &syn::Generics, err_names: &[String], known: &[String]) -> Res<Generics> {
        let mut g = Generics { map: HashMap::new(), known: known.to_vec(), aliases: HashMap::new() };
        let mut bounds: Vec<(String, Vec<TypeParamBound>)> = vec![];
        for p in &gen.params {
            if let GenericParam::Type(tp) = p {
                let n = tp.ident.to_string();
                g.map.insert(n.clone(), Ty::Val);
                bounds.push((n, tp.bounds.iter().cloned().collect()));
            }
        }
        if let Some(w) = &gen.where_clause {
            for pr in &w.predicates {
                if let syn::WherePredicate::Type(pt) = pr {
                    if let Type::Path(tp) = &pt.bounded_ty {
                        if tp.path.segments.len() == 1 {
                            bounds.push((last_seg(&tp.path), pt.bounds.iter().cloned().collect()));
                        }
                    }
                }
            }
        }
        for n in err_names {
            if g.map.contains_key(n) {
                g.map.insert(n.clone(), Ty::Err);
            }
        }
        for _ in 0..2 {
            for (n, bs) in &bounds {
                for b in bs {
                    if let TypeParamBound::Trait(tb) = b {
                        let name = last_seg(&tb.path);
                        match name.as_str() {
                            "Observer" | "Observable" => {
                                if name == "Observer" {
                                    g.map.insert(n.clone(), Ty::Obs);
                                } else if g.map.get(n) == Some(&Ty::Val) {
                                    g.map.insert(n.clone(), Ty::Inner);
                                }
                                // the second argument of Observer<Item, Err> / Observable<Item, Err, O> is an error type
                                let ta = type_args(&tb.path);
                                if ta.len() >= 2 {
                                    if let Type::Path(tp) = ta[1] {
                                        let en = last_seg(&tp.path);
                                        if tp.path.segments.len() == 1 && g.map.get(&en) == Some(&Ty::Val) {
                                            g.map.insert(en, Ty::Err);
                                        }
                                    }
                                }
                            }
                            "Fn" | "FnMut" | "FnOnce" => {
                                if let PathArguments::Parenthesized(pa) = &tb.path.segments.last().unwrap().arguments {
                                    let mut args = vec![];
                                    for t in &pa.inputs {
                                        args.push(g.ty(&t.ty)?);
                                    }
                                    let ret = match &pa.output {
                                        ReturnType::Default => Ty::Unit,
                                        ReturnType::Type(_, t) => g.ty(t)?,
                                    };
                                    if ret == Ty::Unit {
                                        g.map.insert(n.clone(), Ty::Counter);
                                    } else {
                                        g.map.insert(n.clone(), Ty::Fun(args, Box::new(ret)));
                                    }
                                }
                            }
                            "Subscription" => {
                                g.map.insert(n.clone(), Ty::Sub);
                            }
                            "Scheduler" => {
                                g.map.insert(n.clone(), Ty::Sched);
                            }
                            "Future" => {
                                g.map.insert(n.clone(), Ty::Fut(Box::new(Ty::Val)));
                            }
                            "Stream" => {
                                // `S: Stream` (items) / `S: Stream<Item = Result<Item, Err>>`: what `poll_next` answers
                                let txt = show_full(&tb.path);
                                let item = if txt.contains("Result") { Ty::Res(Box::new(Ty::Val), Box::new(Ty::Err)) } else { Ty::Val };
                                g.map.insert(n.clone(), Ty::Fut(Box::new(Ty::Opt(Box::new(item)))));
                            }
                            "Extend" | "IntoIterator" | "Iterator" => {
                                g.map.insert(n.clone(), Ty::List(Box::new(Ty::Val)));
                            }
                            _ => {}
                        }
                    }
                }
            }
        }
        Ok(g)
    }

    fn ty(&self, t: &Type) -> Res<Ty> {
        match t {
            Type::Reference(r) => self.ty(&r.elem),
            Type::Paren(p) => self.ty(&p.elem),
            Type::Tuple(tt) => {
                if tt.elems.is_empty() {
                    Ok(Ty::Unit)
                } else {
                    Ok(Ty::Tuple(tt.elems.iter().map(|e| self.ty(e)).collect::<Res<Vec<_>>>()?))
                }
            }
            Type::Array(a) => self.ty(&a.elem),
            Type::FnPtr(fp) => {
                let ins = fp.inputs.iter().map(|a| self.ty(&a.ty)).collect::<Res<Vec<_>>>()?;
                let out = match &fp.output {
                    ReturnType::Default => Ty::Unit,
                    ReturnType::Type(_, t) => self.ty(t)?,
                };
                Ok(Ty::Fun(ins, Box::new(out)))
            }
            Type::ImplTrait(it) => {
                for b in &it.bounds {
                    if let TypeParamBound::Trait(tb) = b {
                        if last_seg(&tb.path) == "Observer" {
                            return Ok(Ty::Obs);
                        }
                    }
                }
                bail(format!("type `{}` not understood", show(t)))
            }
            Type::TraitObject(to) => {
                for b in &to.bounds {
                    if let TypeParamBound::Trait(tb) = b {
                        if last_seg(&tb.path) == "Publisher" {
                            return Ok(Ty::Pub);
                        }
                        if matches!(last_seg(&tb.path).as_str(), "FnOnce" | "FnMut" | "Fn") {
                            return Ok(Ty::Lazy);
                        }
                        if last_seg(&tb.path) == "Any" {
                            return Ok(Ty::Unit); // the payload of a caught panic
                        }
                    }
                }
                bail(format!("type `{}` not understood", show(t)))
            }
            Type::Path(tp) => {
                let name = last_seg(&tp.path);
                let args = type_args(&tp.path);
                match name.as_str() {
                    "Box" if args.len() == 1 => self.ty(args[0]),
                    "SmallVec" if args.len() == 1 => Ok(Ty::List(Box::new(self.ty(args[0])?))),
                    "usize" | "u32" | "u64" | "u8" | "u16" | "Duration" => Ok(Ty::Nat),
                    "bool" | "AtomicBool" => Ok(Ty::Bool),
                    "Option" => Ok(Ty::Opt(Box::new(self.ty(args[0])?))),
                    "Result" if args.len() == 2 => Ok(Ty::Res(Box::new(self.ty(args[0])?), Box::new(self.ty(args[1])?))),
                    "Vec" | "VecDeque" | "HashSet" => Ok(Ty::List(Box::new(self.ty(args[0])?))),
                    "HashMap" if args.len() == 2 => Ok(Ty::List(Box::new(Ty::Tuple(vec![self.ty(args[0])?, self.ty(args[1])?])))),
                    "Infallible" => Ok(Ty::Err),
                    "BoxFuture" | "LocalBoxFuture" => Ok(Ty::Fut(Box::new(args.last().map(|a| self.ty(a)).transpose()?.unwrap_or(Ty::Unit)))),
                    // `CatchUnwind<AssertUnwindSafe<Fut>>`: the output is the future's result or the caught panic
                    "CatchUnwind" if args.len() == 1 => match self.ty(args[0])? {
                        Ty::Fut(o) => Ok(Ty::Fut(Box::new(Ty::Res(o, Box::new(Ty::Unit))))),
                        _ => bail("CatchUnwind of something that is not a future"),
                    },
                    "AssertUnwindSafe" | "Pin" if args.len() == 1 => self.ty(args[0]),
                    "Poll" if args.len() == 1 => Ok(Ty::Poll(Box::new(self.ty(args[0])?))),
                    "UnboundedSender" => Ok(Ty::Chan),
                    "AtomicI8" | "AtomicI32" | "AtomicIsize" | "i8" | "i32" | "i64" | "isize" => Ok(Ty::Int),
                    "AtomicWaker" => Ok(Ty::Waker),
                    // the receiving half: a stream whose `next()` polls are answered by the oracle
                    "UnboundedReceiver" if args.len() == 1 => Ok(Ty::Fut(Box::new(Ty::Opt(Box::new(self.ty(args[0])?))))),
                    "Output" | "Item" if tp.path.segments.len() == 2 && tp.path.segments[0].ident == "Self" && self.map.contains_key(&format!("Self::{}", name)) => {
                        Ok(self.map[&format!("Self::{}", name)].clone())
                    }
                    "Output" if tp.path.segments.len() == 2 => Ok(Ty::Val),
                    "BoxSubscription" | "BoxSubscriptionThreads" | "TaskHandle" | "SubscribeReturn" => Ok(Ty::Sub),
                    "NormalReturn" => Ok(Ty::Unit),
                    _ if CELLS.contains(&name.as_str()) && args.len() == 1 => self.ty(args[0]),
                    _ => {
                        if tp.path.segments.len() == 1 && args.is_empty() {
                            if let Some(t) = self.map.get(&name) {
                                return Ok(t.clone());
                            }
                        }
                        if self.known.contains(&name) {
                            return Ok(Ty::Named(name));
                        }
                        if let Some((ps, body)) = self.aliases.get(&name) {
                            let mut g2 = self.clone();
                            for (p, a) in ps.iter().zip(args.iter()) {
                                g2.map.insert(p.clone(), self.ty(a)?);
                            }
                            return g2.ty(body);
                        }
                        bail(format!("type `{}` not understood", show(t)))
                    }
                }
            }
            _ => bail(format!("type `{}` not understood", show(t))),
        }
    }
}

const LEAN_KEYWORDS: &[&str] = &[
    "end", "at", "from", "have", "show", "fun", "do", "then", "else", "if", "let", "in", "with", "match", "open", "by",
    "instance", "class", "structure", "theorem", "def", "where", "local", "private", "section", "namespace", "variable",
    "universe", "set_option", "return", "for", "unless", "mut", "macro", "syntax", "notation", "prefix", "infix",
    "postfix", "deriving", "extends", "Type", "Prop", "Sort", "using", "calc", "obtain", "suffices", "exists", "out",
    "down", "self_", "self0", "r", "p", "next",
];

fn ident(s: &str) -> String {
    if s == "self" {
        return "self_".into();
    }
    let s = s.trim_start_matches("r#");
    if LEAN_KEYWORDS.contains(&s) {
        format!("{}_", s)
    } else {
        s.to_string()
    }
}

/// A user enum (`enum ZipItem<A, B> { ItemA(A), ItemB(B) }`): constructors with their argument types.
#[derive(Clone)]
pub struct EnumInfo {
    pub name: String,
    pub ctors: Vec<(String, Vec<Ty>)>,
}

/// Everything known about the file being translated.
#[derive(Default)]
pub struct Ctx {
    pub structs: HashMap<String, StructInfo>,
    pub enums: HashMap<String, EnumInfo>,
    pub aliases: HashMap<String, (Vec<String>, Type)>,
}

#[derive(Clone)]
pub struct MethodInfo {
    /// `&mut self` / `self` methods without result thread (self, out); `&self` methods with a result are pure
    pub effectful: bool,
    pub params: Vec<(String, Ty)>,
    /// the body asks subscribers / subscriptions whether they are closed: extra parameter `closedOf`
    pub needs_closed: bool,
    /// the body asks an observer whether it is finished: extra parameter `down`
    pub needs_down: bool,
    /// `actual_subscribe` of a subject: extra parameter `newPub`
    pub needs_pub: bool,
    /// `entry(..).or_insert_with(..)` creating a group subject: extra parameter `newGrp`
    pub needs_grp: bool,
    /// `scheduler.schedule(..)`: the handle it returns is the extra parameter `newHandle`
    pub needs_handle: bool,
    /// result type of a pure method
    pub ret: Ty,
    /// a query that can panic: its Lean function returns `Option ret`
    pub partial: bool,
    /// takes `self` by value
    pub consumes: bool,
    /// a source's `actual_subscribe(self, observer)`: extra parameter `downF : Rs.Out → Bool`
    pub dyn_down: bool,
}

pub struct StructInfo {
    pub name: String,
    pub fields: Vec<(String, Ty)>,
    pub methods: HashMap<String, MethodInfo>,
    /// the state is not a record but a value of this type (`impl Observer for MutRc<Option<O>>`, newtypes)
    pub root_ty: Option<Ty>,
    /// Lean prefix of the functions (`Rx.Gen.RcObserver.` for structs of another module)
    pub prefix: String,
    /// fields that are shared cells (`MutRc<..>` / `MutArc<..>` / `Rc<..>` / `Arc<..>`): a clone is another name
    pub cells: Vec<String>,
}

impl StructInfo {
    fn field_ty(&self, f: &str) -> Option<&Ty> {
        self.fields.iter().find(|(n, _)| n == f).map(|(_, t)| t)
    }
}

#[derive(Clone, Debug, PartialEq)]
enum Seg {
    Field(String),
    Idx(usize, usize),
}

/// an assignable place: a path below `self_` or a local variable
#[derive(Clone, Debug)]
struct Place {
    root_self: bool,
    local: String,
    path: Vec<Seg>,
}

/// Translation of one function body.
pub struct Fx<'a> {
    strukt: &'a StructInfo,
    ctx: &'a Ctx,
    lines: Vec<String>,
    ind: usize,
    tmp: usize,
    locals: HashMap<String, Ty>,
    /// local names that alias a place (`let mut inner = self.rc_deref_mut()`)
    aliases: HashMap<String, Place>,
    effectful: bool,
    /// tuple struct wrapping a cell: `self.0` is the cell
    newtype: bool,
    /// locals that are working copies of the payload of an optional place: every write goes through to it
    payload_of: HashMap<String, Place>,
    /// further definitions produced while translating this body (stored closures)
    extra: Vec<String>,
    /// name of the function being translated
    fname: String,
    /// a source's `actual_subscribe`: `observer.is_finished()` depends on what has been delivered so far
    dyn_down: bool,
    /// inside a `while` with `break` / loop-carried locals: the state tuple a `break` hands back
    loop_state: Option<String>,
    /// the function hands back a value next to the state (`poll`): `return v` is allowed; the Lean type of `v`
    ret_mode: Option<String>,
}

impl<'a> Fx<'a> {
    fn emit(&mut self, s: impl AsRef<str>) {
        let pad = "  ".repeat(self.ind);
        self.lines.push(format!("{}{}", pad, s.as_ref()));
    }

    fn fresh(&mut self, base: &str) -> String {
        self.tmp += 1;
        format!("{}{}", base, self.tmp)
    }

    fn sub(&self) -> Fx<'a> {
        Fx {
            strukt: self.strukt,
            ctx: self.ctx,
            lines: vec![],
            ind: 0,
            tmp: self.tmp + 100,
            locals: self.locals.clone(),
            aliases: self.aliases.clone(),
            effectful: self.effectful,
            newtype: self.newtype,
            payload_of: self.payload_of.clone(),
            extra: vec![],
            fname: self.fname.clone(),
            dyn_down: self.dyn_down,
            loop_state: self.loop_state.clone(),
            ret_mode: self.ret_mode.clone(),
        }
    }

    fn struct_of(&self, t: &Ty) -> Option<&'a StructInfo> {
        if let Ty::Named(n) = t {
            if n == &self.strukt.name {
                return Some(self.strukt);
            }
            return self.ctx.structs.get(n);
        }
        None
    }

    // ------------------------------------------------------------------ places
    fn is_self(e: &Expr) -> bool {
        matches!(e, Expr::Path(p) if p.path.segments.len() == 1 && last_seg(&p.path) == "self")
    }

    /// `self`, `self.0` of a newtype, `self.rc_deref_mut()`, `self.0.rc_deref()` …: the observer state itself
    fn is_root(&self, e: &Expr) -> bool {
        match e {
            Expr::Paren(p) => self.is_root(&p.expr),
            Expr::Reference(r) => self.is_root(&r.expr),
            Expr::Unary(u) if matches!(u.op, UnOp::Deref(_)) => self.is_root(&u.expr),
            Expr::Field(f) => {
                self.newtype && Self::is_self(&f.base) && matches!(&f.member, Member::Unnamed(i) if i.index == 0)
            }
            Expr::MethodCall(m) if m.method == "as_mut" && m.args.is_empty() && self.ret_mode.is_some() && Self::is_self(&m.receiver) => true,
            Expr::MethodCall(m) if m.method == "project" && m.args.is_empty() => {
                // `self.project()` / `self.as_mut().project()` of a pinned future: the fields of the state
                Self::is_self(&m.receiver)
                    || matches!(&*m.receiver, Expr::MethodCall(mm) if mm.method == "as_mut" && mm.args.is_empty() && Self::is_self(&mm.receiver))
            }
            Expr::MethodCall(m) => {
                let n = m.method.to_string();
                matches!(n.as_str(), "rc_deref" | "rc_deref_mut" | "borrow" | "borrow_mut" | "lock" | "unwrap" | "clone")
                    && m.args.is_empty()
                    && (self.is_root(&m.receiver) || (self.newtype_or_cell() && Self::is_self(&m.receiver)))
                    && n != "unwrap"
                    || (n == "unwrap" && matches!(&*m.receiver, Expr::MethodCall(mm) if mm.method == "lock" && self.is_root_recv(&mm.receiver)))
            }
            _ => false,
        }
    }

    fn is_root_recv(&self, e: &Expr) -> bool {
        self.is_root(e) || Self::is_self(e)
    }

    fn newtype_or_cell(&self) -> bool {
        true
    }

    fn place(&self, e: &Expr) -> Res<Place> {
        match e {
            Expr::Paren(p) => self.place(&p.expr),
            Expr::Reference(r) => self.place(&r.expr),
            Expr::Unary(u) if matches!(u.op, UnOp::Deref(_)) => self.place(&u.expr),
            _ if Self::is_self(e) => Ok(Place { root_self: true, local: String::new(), path: vec![] }),
            _ if self.is_root(e) => Ok(Place { root_self: true, local: String::new(), path: vec![] }),
            Expr::Path(p) if p.path.segments.len() == 1 => {
                let n = ident(&last_seg(&p.path));
                if let Some(pl) = self.aliases.get(&n) {
                    return Ok(pl.clone());
                }
                Ok(Place { root_self: false, local: n, path: vec![] })
            }
            Expr::MethodCall(m)
                if m.args.is_empty()
                    && matches!(
                        m.method.to_string().as_str(),
                        "as_mut" | "as_ref" | "borrow_mut" | "borrow" | "rc_deref" | "rc_deref_mut" | "clone" | "as_deref_mut"
                    ) =>
            {
                self.place(&m.receiver)
            }
            Expr::Field(f) => {
                let mut base = self.place(&f.base)?;
                let bt = self.place_ty(&base);
                match &f.member {
                    Member::Named(n) => base.path.push(Seg::Field(n.to_string())),
                    Member::Unnamed(ix) => match bt {
                        Some(Ty::Sub) | Some(Ty::Pub) if ix.index == 0 => {}
                        Some(Ty::Tuple(ts)) => base.path.push(Seg::Idx(ix.index as usize, ts.len())),
                        _ => return bail(format!("tuple index on a place of unknown type: `{}`", show(e))),
                    },
                }
                Ok(base)
            }
            _ => bail(format!("place `{}` not understood", show(e))),
        }
    }

    fn root_ty(&self) -> Ty {
        self.strukt.root_ty.clone().unwrap_or_else(|| Ty::Named(self.strukt.name.clone()))
    }

    fn place_ty(&self, p: &Place) -> Option<Ty> {
        let mut t = if p.root_self { self.root_ty() } else { self.locals.get(&p.local)?.clone() };
        for s in &p.path {
            t = match s {
                Seg::Field(f) => self.struct_of(&t)?.field_ty(f)?.clone(),
                Seg::Idx(i, _) => match t {
                    Ty::Tuple(ts) => ts.get(*i)?.clone(),
                    _ => return None,
                },
            };
        }
        Some(t)
    }

    fn read_place(&self, p: &Place) -> String {
        let mut s = if p.root_self { "self_".to_string() } else { p.local.clone() };
        for seg in &p.path {
            match seg {
                Seg::Field(f) => {
                    s.push('.');
                    s += &ident(f);
                }
                Seg::Idx(i, _) => {
                    s.push('.');
                    s += &(i + 1).to_string();
                }
            }
        }
        s
    }

    fn write_place(&mut self, p: &Place, v: &str) -> Res<()> {
        if !self.effectful {
            return bail("assignment in a pure function");
        }
        // a trailing tuple index is rebuilt explicitly
        let (path, v) = match p.path.last() {
            Some(Seg::Idx(i, n)) => {
                let mut base = p.clone();
                base.path.pop();
                let b = self.read_place(&base);
                let parts: Vec<String> = (0..*n).map(|k| if k == *i { v.to_string() } else { format!("{}.{}", b, k + 1) }).collect();
                (base.path, format!("({})", parts.join(", ")))
            }
            _ => (p.path.clone(), v.to_string()),
        };
        if path.iter().any(|s| matches!(s, Seg::Idx(..))) {
            return bail("assignment below a tuple component");
        }
        let root = if p.root_self { "self_".to_string() } else { p.local.clone() };
        if path.is_empty() {
            self.emit(format!("{} := {}", root, v));
        } else {
            let fs: Vec<String> = path.iter().map(|s| if let Seg::Field(f) = s { ident(f) } else { unreachable!() }).collect();
            self.emit(format!("{} := {{ {} with {} := {} }}", root, root, fs.join("."), v));
        }
        // a working copy of an optional place's payload: write through
        if !p.root_self {
            if let Some(op) = self.payload_of.get(&p.local).cloned() {
                self.write_place(&op, &format!("(some {})", p.local))?;
            }
        }
        Ok(())
    }

    // ------------------------------------------------------------------ types of expressions (best effort)
    fn tyx(&self, e: &Expr) -> Option<Ty> {
        match e {
            Expr::Paren(p) => self.tyx(&p.expr),
            Expr::Group(p) => self.tyx(&p.expr),
            Expr::Reference(r) => self.tyx(&r.expr),
            Expr::Unary(u) if matches!(u.op, UnOp::Deref(_)) => self.tyx(&u.expr),
            Expr::Path(_) | Expr::Field(_) => match self.place(e) {
                Ok(p) => self.place_ty(&p),
                Err(_) => {
                    if let Expr::Field(f) = e {
                        if let Member::Named(n) = &f.member {
                            let bt = self.tyx(&f.base)?;
                            return self.struct_of(&bt)?.field_ty(&n.to_string()).cloned();
                        }
                    }
                    None
                }
            },
            Expr::MethodCall(m) => {
                if self.is_root(e) {
                    return Some(self.root_ty());
                }
                let n = m.method.to_string();
                let rt = self.tyx(&m.receiver)?;
                // a pure method of a translated struct: its declared result
                if let Some(si) = self.struct_of(&rt) {
                    if let Some(mi) = si.methods.get(&n) {
                        if !mi.effectful {
                            return Some(mi.ret.clone());
                        }
                    }
                }
                match (n.as_str(), m.args.len()) {
                    ("clone", 0) | ("as_ref", 0) | ("as_mut", 0) | ("take", 0) | ("borrow", 0) | ("borrow_mut", 0) | ("rc_deref", 0)
                    | ("rc_deref_mut", 0) | ("iter", 0) | ("iter_mut", 0) | ("into_iter", 0) => Some(rt),
                    ("unwrap", 0) | ("expect", 1) => match rt {
                        Ty::Opt(t) => Some(*t),
                        _ => None,
                    },
                    ("pop_front", 0) | ("pop_back", 0) | ("pop", 0) | ("front", 0) | ("back", 0) => match rt {
                        Ty::List(t) => Some(Ty::Opt(t)),
                        _ => None,
                    },
                    ("len", 0) => Some(Ty::Nat),
                    ("next", 0) if matches!(rt, Ty::Fut(_)) => Some(rt),
                    ("load", 1) | ("get", 0) if matches!(rt, Ty::Int | Ty::Bool) => Some(rt),
                    ("unbounded_send", 1) if rt == Ty::Chan => Some(Ty::Res(Box::new(Ty::Unit), Box::new(Ty::Unit))),
                    ("poll", 1) | ("poll_unpin", 1) | ("poll_next", 1) | ("poll_next_unpin", 1) => match rt {
                        Ty::Fut(o) => Some(Ty::Poll(o)),
                        _ => None,
                    },
                    ("actual_subscribe", 1) if rt == Ty::Inner => Some(Ty::Sub),
                    ("schedule", 2) if rt == Ty::Sched => Some(Ty::Sub),
                    ("drain", 0) | ("drain", 1) => Some(rt),
                    _ => None,
                }
            }
            Expr::Call(c) => {
                let mut f = &*c.func;
                while let Expr::Paren(p) = f {
                    f = &p.expr;
                }
                if let Expr::Path(p) = f {
                    if let Some(q) = &p.qself {
                        if let Type::Path(tp) = &*q.ty {
                            if last_seg(&tp.path).starts_with("BoxSubscription") && c.args.len() == 1 {
                                return self.tyx(&c.args[0]);
                            }
                        }
                    }
                    if let Some(en) = self.enum_of_path(&p.path) {
                        return Some(Ty::Named(en));
                    }
                    if last_seg(&p.path) == "Some" && c.args.len() == 1 {
                        return Some(Ty::Opt(Box::new(self.tyx(&c.args[0])?)));
                    }
                    if last_seg(&p.path) == "take" && c.args.len() == 1 {
                        return self.tyx(&c.args[0]);
                    }
                    if last_seg(&p.path) == "new" && p.path.segments.len() == 2 {
                        let h = p.path.segments[0].ident.to_string();
                        if h == "Box" && c.args.len() == 1 {
                            return self.tyx(&c.args[0]);
                        }
                        if h.starts_with("Subscriber") {
                            return Some(Ty::Pub);
                        }
                        if h.starts_with("BoxSubscription") && c.args.len() == 1 {
                            return self.tyx(&c.args[0]);
                        }
                        if h == "OnceTask" {
                            return Some(Ty::Task);
                        }
                    }
                }
                if let Some(Ty::Fun(_, r)) = self.tyx(f) {
                    return Some(*r);
                }
                None
            }
            Expr::Tuple(t) => Some(Ty::Tuple(t.elems.iter().map(|x| self.tyx(x).unwrap_or(Ty::Named("_".into()))).collect())),
            Expr::Lit(l) => match &l.lit {
                Lit::Int(_) => Some(Ty::Nat),
                Lit::Bool(_) => Some(Ty::Bool),
                _ => None,
            },
            _ => None,
        }
    }

    fn bind(&mut self, p: &Pat, t: Option<Ty>) {
        match p {
            Pat::Ident(pi) => {
                let n = ident(&pi.ident.to_string());
                self.aliases.remove(&n);
                match t {
                    Some(t) => {
                        self.locals.insert(n, t);
                    }
                    None => {
                        self.locals.remove(&n);
                    }
                }
            }
            Pat::Reference(r) => self.bind(&r.pat, t),
            Pat::Paren(r) => self.bind(&r.pat, t),
            Pat::Type(r) => self.bind(&r.pat, t),
            Pat::Tuple(tp) => {
                for (i, e) in tp.elems.iter().enumerate() {
                    let ti = match &t {
                        Some(Ty::Tuple(ts)) => ts.get(i).cloned(),
                        _ => None,
                    };
                    self.bind(e, ti);
                }
            }
            Pat::TupleStruct(ts) => {
                let n = last_seg(&ts.path);
                if let Some(en) = self.enum_of_path(&ts.path) {
                    let tys = self.ctx.enums[&en].ctors.iter().find(|(c, _)| c == &n).map(|x| x.1.clone()).unwrap_or_default();
                    for (i, e) in ts.elems.iter().enumerate() {
                        self.bind(e, tys.get(i).cloned());
                    }
                } else if n == "Some" && ts.elems.len() == 1 {
                    let ti = match t {
                        Some(Ty::Opt(t)) => Some(*t),
                        _ => None,
                    };
                    self.bind(&ts.elems[0], ti);
                } else if n == "Ready" && ts.elems.len() == 1 {
                    let ti = match t {
                        Some(Ty::Poll(t)) => Some(*t),
                        _ => None,
                    };
                    self.bind(&ts.elems[0], ti);
                } else if (n == "Ok" || n == "Err") && ts.elems.len() == 1 {
                    let ti = match t {
                        Some(Ty::Res(a, b)) => Some(if n == "Ok" { *a } else { *b }),
                        _ => None,
                    };
                    self.bind(&ts.elems[0], ti);
                } else {
                    for e in &ts.elems {
                        self.bind(e, None);
                    }
                }
            }
            _ => {}
        }
    }

    fn pat(&mut self, p: &Pat) -> Res<String> {
        match p {
            Pat::Ident(pi) => {
                if pi.subpat.is_some() {
                    return bail("`@` pattern");
                }
                let n = pi.ident.to_string();
                if n == "None" {
                    return Ok("none".into());
                }
                if n.starts_with('_') {
                    return Ok("_".into());
                }
                Ok(ident(&n))
            }
            Pat::Wild(_) => Ok("_".into()),
            Pat::Reference(r) => self.pat(&r.pat),
            Pat::Paren(pp) => self.pat(&pp.pat),
            Pat::Tuple(t) => {
                let parts = t.elems.iter().map(|e| self.pat(e)).collect::<Res<Vec<_>>>()?;
                Ok(format!("({})", parts.join(", ")))
            }
            Pat::TupleStruct(ts) => {
                let n = last_seg(&ts.path);
                let parts = ts.elems.iter().map(|e| self.pat(e)).collect::<Res<Vec<_>>>()?;
                if let Some(en) = self.enum_of_path(&ts.path) {
                    return Ok(format!("({}.{} {})", en, n, parts.join(" ")));
                }
                match (n.as_str(), parts.len()) {
                    ("Some", 1) => Ok(format!("(some {})", parts[0])),
                    ("Ready", 1) => Ok(format!("(Rs.Poll.ready {})", parts[0])),
                    ("Ok", 1) => Ok(format!("(Except.ok {})", parts[0])),
                    ("Err", 1) => Ok(format!("(Except.error {})", parts[0])),
                    _ => bail(format!("pattern `{}`", show(p))),
                }
            }
            Pat::Struct(ps) if ps.fields.is_empty() && ps.rest.is_some() && self.enum_of_path(&ps.path).is_some() => {
                // `Enum::Variant { .. }`: whatever the variant carries
                let en = self.enum_of_path(&ps.path).unwrap();
                let c = last_seg(&ps.path);
                let n = self.ctx.enums[&en].ctors.iter().find(|(x, _)| x == &c).map(|x| x.1.len()).unwrap_or(0);
                if n == 0 {
                    Ok(format!("{}.{}", en, c))
                } else {
                    Ok(format!("({}.{}{})", en, c, " _".repeat(n)))
                }
            }
            Pat::Path(pp) if self.enum_of_path(&pp.path).is_some() => {
                Ok(format!("{}.{}", self.enum_of_path(&pp.path).unwrap(), last_seg(&pp.path)))
            }
            Pat::Path(pp) => match last_seg(&pp.path).as_str() {
                "None" => Ok("none".into()),
                "Pending" => Ok("Rs.Poll.pending".into()),
                _ => bail(format!("pattern `{}`", show(p))),
            },
            Pat::Lit(l) => match &l.lit {
                Lit::Int(i) => Ok(i.base10_digits().to_string()),
                Lit::Bool(b) => Ok(if b.value { "true".into() } else { "false".into() }),
                _ => bail("literal pattern"),
            },
            Pat::Type(pt) => self.pat(&pt.pat),
            _ => bail(format!("pattern `{}`", show(p))),
        }
    }

    /// `ZipItem::ItemA` → the enum's name, if it is a translated enum
    fn enum_of_path(&self, p: &syn::Path) -> Option<String> {
        if p.segments.len() == 2 {
            let e = p.segments[0].ident.to_string();
            let c = p.segments[1].ident.to_string();
            if let Some(ei) = self.ctx.enums.get(&e) {
                if ei.ctors.iter().any(|(n, _)| n == &c) {
                    return Some(e);
                }
            }
        }
        None
    }

    fn is_irrefutable(p: &Pat) -> bool {
        match p {
            Pat::Ident(pi) => pi.ident != "None",
            Pat::Wild(_) => true,
            Pat::Reference(r) => Self::is_irrefutable(&r.pat),
            Pat::Paren(r) => Self::is_irrefutable(&r.pat),
            Pat::Type(r) => Self::is_irrefutable(&r.pat),
            Pat::Tuple(t) => t.elems.iter().all(Self::is_irrefutable),
            _ => false,
        }
    }

    // ------------------------------------------------------------------ statements
    fn block_stmts(&mut self, b: &Block) -> Res<()> {
        let n0 = self.lines.len();
        let saved_l = self.locals.clone();
        let saved_a = self.aliases.clone();
        for s in &b.stmts {
            self.stmt(s)?;
        }
        self.locals = saved_l;
        self.aliases = saved_a;
        if self.lines.len() == n0 {
            self.emit("pure ()");
        }
        Ok(())
    }

    fn stmt(&mut self, s: &Stmt) -> Res<()> {
        match s {
            Stmt::Local(l) => {
                let init = l.init.as_ref().ok_or("let without initialiser")?;
                if init.diverge.is_some() {
                    return bail("let-else");
                }
                // `let mut inner = self.rc_deref_mut();` — a name for the state itself
                if let Pat::Ident(pi) = &l.pat {
                    if self.is_root(&init.expr) {
                        let n = ident(&pi.ident.to_string());
                        self.locals.remove(&n);
                        self.aliases.insert(n, Place { root_self: true, local: String::new(), path: vec![] });
                        return Ok(());
                    }
                }
                // `let mut data = self.cell.rc_deref_mut();` / `let cell = self.cell.clone();` — another name for a cell
                if let (Pat::Ident(pi), Expr::MethodCall(mc)) = (&l.pat, &*init.expr) {
                    let mn = mc.method.to_string();
                    if mc.args.is_empty() && matches!(mn.as_str(), "rc_deref_mut" | "rc_deref" | "borrow_mut" | "clone") {
                        if let Ok(pl) = self.place(&mc.receiver) {
                            let cell_field = pl.root_self
                                && pl.path.len() == 1
                                && matches!(&pl.path[0], Seg::Field(f) if self.strukt.cells.contains(f));
                            let is_state = cell_field || match self.place_ty(&pl) {
                                Some(Ty::Named(_)) => true,
                                Some(Ty::Opt(t)) => matches!(*t, Ty::Named(_) | Ty::List(_) | Ty::Obs) || mn != "clone",
                                Some(Ty::List(_)) => mn != "clone",
                                _ => false,
                            };
                            if is_state && (pl.root_self || self.aliases.contains_key(&pl.local)) {
                                let n = ident(&pi.ident.to_string());
                                self.locals.remove(&n);
                                self.aliases.insert(n, pl);
                                return Ok(());
                            }
                        }
                    }
                }
                // `let x = map.entry(k).or_insert_with(|| { … });` — look the key up; only a new key runs the closure
                if let (Pat::Ident(pi), Expr::MethodCall(oi)) = (&l.pat, &*init.expr) {
                    if oi.method == "or_insert_with" && oi.args.len() == 1 {
                        if let (Expr::MethodCall(en), Expr::Closure(cl)) = (&*oi.receiver, &oi.args[0]) {
                            if en.method == "entry" && en.args.len() == 1 && cl.inputs.is_empty() {
                                let mpl = self.place(&en.receiver)?;
                                let vt = match self.place_ty(&mpl) {
                                    Some(Ty::List(t)) => match *t {
                                        Ty::Tuple(kv) if kv.len() == 2 => kv[1].clone(),
                                        _ => return bail("entry() on something that is not a map"),
                                    },
                                    _ => return bail("entry() on something that is not a map"),
                                };
                                let k = self.expr(&en.args[0])?;
                                let x = ident(&pi.ident.to_string());
                                let kk = self.fresh("k");
                                self.emit(format!("let {} := {}", kk, k));
                                let xe = format!("{}_e", x);
                                self.emit(format!("let mut {} : {} := Rs.dflt", xe, vt.lean()));
                                let cur = self.read_place(&mpl);
                                self.emit(format!("match Rs.mapGet {} {} with", cur, kk));
                                self.emit("| some found =>");
                                self.ind += 2;
                                self.emit(format!("{} := found", xe));
                                self.ind -= 2;
                                self.emit("| none =>");
                                self.ind += 2;
                                let saved_l = self.locals.clone();
                                let v = match &*cl.body {
                                    Expr::Block(b) => self.block_value(&b.block)?,
                                    other => self.expr(other)?,
                                };
                                self.locals = saved_l;
                                self.emit(format!("{} := {}", xe, v));
                                let cur2 = self.read_place(&mpl);
                                self.write_place(&mpl, &format!("(Rs.mapInsert {} {} {})", cur2, kk, xe))?;
                                self.ind -= 2;
                                self.emit(format!("let {} := {}", x, xe));
                                self.aliases.remove(&x);
                                self.locals.insert(x, vt);
                                return Ok(());
                            }
                        }
                    }
                }
                // `let S { a, b, .. } = &mut *inner;` — names for the fields
                if let Pat::Struct(ps) = &l.pat {
                    let base = self.place(&init.expr)?;
                    for fp in &ps.fields {
                        if let (Member::Named(n), Pat::Ident(pi)) = (&fp.member, &*fp.pat) {
                            let mut pl = base.clone();
                            pl.path.push(Seg::Field(n.to_string()));
                            let ln = ident(&pi.ident.to_string());
                            self.locals.remove(&ln);
                            self.aliases.insert(ln, pl);
                        } else {
                            return bail("nested pattern in a struct destructuring");
                        }
                    }
                    return Ok(());
                }
                let t = self.tyx(&init.expr);
                let v = self.expr(&init.expr)?;
                let p = self.pat(&l.pat)?;
                if matches!(&l.pat, Pat::Ident(pi) if pi.mutability.is_some()) {
                    self.emit(format!("let mut {} := {}", p, v));
                } else {
                    self.emit(format!("let {} := {}", p, v));
                }
                self.bind(&l.pat, t);
                Ok(())
            }
            Stmt::Expr(e, _) => self.expr_stmt(e),
            Stmt::Macro(m) => self.macro_stmt(&m.mac),
            Stmt::Item(Item::Fn(f)) => self.nested_fn(f),
            Stmt::Item(_) => bail("nested item"),
        }
    }

    fn macro_stmt(&mut self, mac: &syn::Macro) -> Res<()> {
        let n = last_seg(&mac.path);
        match n.as_str() {
            "debug_assert" | "debug_assert_eq" => Ok(()),
            "unreachable" | "panic" | "unimplemented" | "todo" => {
                self.emit("Rs.panic");
                Ok(())
            }
            _ => bail(format!("macro `{}!`", n)),
        }
    }

    fn if_let(&mut self, l: &syn::ExprLet, then: &Block, els: Option<&Expr>) -> Res<()> {
        let t = self.tyx(&l.expr);
        // the payload of an optional struct, borrowed mutably: work on a copy, write it back at the end of the arm
        if let (Some(Ty::Opt(inner)), Pat::TupleStruct(ts)) = (&t, &*l.pat) {
            let by_ref = matches!(&*l.expr, Expr::MethodCall(mc) if mc.method == "as_mut") || matches!(&*l.expr, Expr::Reference(r) if r.mutability.is_some());
            if (matches!(&**inner, Ty::Named(_)) || (matches!(&**inner, Ty::List(_)) && by_ref))
                && last_seg(&ts.path) == "Some"
                && ts.elems.len() == 1
            {
                if let (Pat::Ident(pi), Ok(pl)) = (&ts.elems[0], self.place(&l.expr)) {
                    let v = ident(&pi.ident.to_string());
                    if !pl.root_self && pl.local == v {
                        return bail(format!("`if let Some({}) = {}`: the pattern shadows the place it is taken from", v, v));
                    }
                    let cur = self.read_place(&pl);
                    let saved_l = self.locals.clone();
                    let saved_a = self.aliases.clone();
                    self.emit(format!("match {} with", cur));
                    self.emit(format!("| (some {}0) =>", v));
                    self.ind += 2;
                    self.emit(format!("let mut {} := {}0", v, v));
                    self.aliases.remove(&v);
                    self.locals.insert(v.clone(), (**inner).clone());
                    let saved_p = self.payload_of.clone();
                    self.payload_of.insert(v.clone(), pl.clone());
                    for st in &then.stmts {
                        self.stmt(st)?;
                    }
                    self.payload_of = saved_p;
                    self.ind -= 2;
                    self.locals = saved_l;
                    self.aliases = saved_a;
                    self.emit("| none =>");
                    self.ind += 2;
                    match els {
                        Some(eb) => self.else_stmts(eb)?,
                        None => self.emit("pure ()"),
                    }
                    self.ind -= 2;
                    return Ok(());
                }
            }
        }
        let scrut = self.expr(&l.expr)?;
        let p = self.pat(&l.pat)?;
        let saved_l = self.locals.clone();
        let saved_a = self.aliases.clone();
        self.bind(&l.pat, t);
        self.emit(format!("match {} with", scrut));
        self.emit(format!("| {} =>", p));
        self.ind += 2;
        self.block_stmts(then)?;
        self.ind -= 2;
        self.locals = saved_l;
        self.aliases = saved_a;
        if !Self::is_irrefutable(&l.pat) {
            self.emit("| _ =>");
            self.ind += 2;
            match els {
                Some(eb) => self.else_stmts(eb)?,
                None => self.emit("pure ()"),
            }
            self.ind -= 2;
        }
        Ok(())
    }

    /// An expression whose value is discarded.
    fn expr_stmt(&mut self, e: &Expr) -> Res<()> {
        match e {
            Expr::If(i) => {
                if let Expr::Let(l) = &*i.cond {
                    self.if_let(l, &i.then_branch, i.else_branch.as_ref().map(|x| &*x.1))
                } else {
                    let c = self.expr(&i.cond)?;
                    self.emit(format!("if {} then", c));
                    self.ind += 1;
                    self.block_stmts(&i.then_branch)?;
                    self.ind -= 1;
                    if let Some((_, eb)) = &i.else_branch {
                        self.emit("else");
                        self.ind += 1;
                        self.else_stmts(eb)?;
                        self.ind -= 1;
                    }
                    Ok(())
                }
            }
            Expr::Match(m) => {
                let t = self.tyx(&m.expr);
                // `match cell.as_mut() { Some(vec) => …mutates vec…, None => … }`: the payload is worked on as a copy
                // and written back at the end of the arm (as in `if let`)
                if let (Some(Ty::Opt(inner)), true, 2) = (
                    &t,
                    matches!(&*m.expr, Expr::MethodCall(mc) if mc.method == "as_mut"),
                    m.arms.len(),
                ) {
                    if matches!(&**inner, Ty::List(_) | Ty::Named(_) | Ty::Res(..)) {
                        let some_arm = m.arms.iter().find(|a| matches!(&a.pat, Pat::TupleStruct(ts) if last_seg(&ts.path) == "Some"));
                        let none_arm = m.arms.iter().find(|a| !matches!(&a.pat, Pat::TupleStruct(_)));
                        if let (Some(sa), Some(na), Ok(pl)) = (some_arm, none_arm, self.place(&m.expr)) {
                            if let Pat::TupleStruct(ts) = &sa.pat {
                                if let Some(Pat::Ident(pi)) = ts.elems.first() {
                                    let v = ident(&pi.ident.to_string());
                                    if !pl.root_self && pl.local == v {
                                        return bail(format!("`match {} {{ Some({}) .. }}`: the pattern shadows the place it is taken from", v, v));
                                    }
                                    let cur = self.read_place(&pl);
                                    let saved_l = self.locals.clone();
                                    let saved_a = self.aliases.clone();
                                    self.emit(format!("match {} with", cur));
                                    self.emit(format!("| (some {}0) =>", v));
                                    self.ind += 2;
                                    self.emit(format!("let mut {} := {}0", v, v));
                                    self.aliases.remove(&v);
                                    self.locals.insert(v.clone(), (**inner).clone());
                                    let saved_p = self.payload_of.clone();
                                    self.payload_of.insert(v.clone(), pl.clone());
                                    self.expr_stmt(&sa.body)?;
                                    self.payload_of = saved_p;
                                    self.ind -= 2;
                                    self.locals = saved_l;
                                    self.aliases = saved_a;
                                    self.emit("| none =>");
                                    self.ind += 2;
                                    let n0 = self.lines.len();
                                    self.expr_stmt(&na.body)?;
                                    if self.lines.len() == n0 {
                                        self.emit("pure ()");
                                    }
                                    self.ind -= 2;
                                    return Ok(());
                                }
                            }
                        }
                    }
                }
                let scrut = self.expr(&m.expr)?;
                self.emit(format!("match {} with", scrut));
                for arm in &m.arms {
                    let p = self.pat(&arm.pat)?;
                    let saved_l = self.locals.clone();
                    self.bind(&arm.pat, t.clone());
                    self.emit(format!("| {} =>", p));
                    self.ind += 2;
                    let n0 = self.lines.len();
                    self.expr_stmt(&arm.body)?;
                    if self.lines.len() == n0 || self.lines.last().map(|l| l.trim_start().starts_with("let ")).unwrap_or(false) {
                        self.emit("pure ()");
                    }
                    self.ind -= 2;
                    self.locals = saved_l;
                }
                Ok(())
            }
            Expr::Block(b) => {
                if b.label.is_some() {
                    return bail("labelled block");
                }
                for s in &b.block.stmts {
                    self.stmt(s)?;
                }
                Ok(())
            }
            Expr::Assign(a) => {
                let v = self.expr(&a.right)?;
                let p = self.place(&a.left)?;
                self.write_place(&p, &v)
            }
            Expr::Binary(b) if is_compound(&b.op) => {
                let p = self.place(&b.left)?;
                let cur = self.read_place(&p);
                let r = self.expr(&b.right)?;
                let v = match b.op {
                    BinOp::AddAssign(_) => format!("({} + {})", cur, r),
                    BinOp::SubAssign(_) => {
                        let t = self.fresh("t");
                        self.emit(format!("let {} ← Rs.sub {} {}", t, cur, r));
                        t
                    }
                    _ => return bail("compound assignment operator"),
                };
                self.write_place(&p, &v)
            }
            Expr::While(w) => {
                if w.label.is_some() {
                    return bail("labelled loop");
                }
                if !self.effectful {
                    return bail("loop in a pure function");
                }
                let body_txt = show_full(&w.body);
                let has_break = body_txt.contains("break");
                // locals of the enclosing function that the body mutates (`iter.next()`, `x = ..`, `v.push(..)`)
                let mut carried: Vec<(String, Ty)> = vec![];
                for (n, t) in &self.locals {
                    if *t == Ty::Obs {
                        continue;
                    }
                    let muts = ["next", "push", "pop", "pop_front", "pop_back", "push_back", "push_front", "insert", "clear", "take", "extend"];
                    let hit = muts.iter().any(|m| body_txt.contains(&format!("{} . {} (", n, m)))
                        || body_txt.contains(&format!("{} = ", n))
                        || body_txt.contains(&format!("{} += ", n))
                        || body_txt.contains(&format!("{} -= ", n));
                    if hit {
                        carried.push((n.clone(), t.clone()));
                    }
                }
                carried.sort_by(|a, b| a.0.cmp(&b.0));
                if has_break || !carried.is_empty() {
                    return self.while_general(w, &carried);
                }
                let fuel = self.fuel();
                let mut cond_fx = self.sub();
                let c = cond_fx.expr(&w.cond)?;
                if !cond_fx.lines.is_empty() {
                    return bail("loop condition with effects");
                }
                let mut body = self.sub();
                body.ind = 2;
                body.block_stmts(&w.body)?;
                let sn = &self.strukt.name;
                self.emit(format!(
                    "let r ← Rs.whileFuel ({}) (fun (p : {} × Rs.Out) => let self_ := p.1; {}) (fun (p : {} × Rs.Out) => do",
                    fuel, sn, c, sn
                ));
                self.emit("    let mut self_ := p.1");
                self.emit("    let mut out := p.2");
                for l in body.lines {
                    self.emit(l);
                }
                self.emit("    return (self_, out)) (self_, out)");
                self.emit("self_ := r.1");
                self.emit("out := r.2");
                Ok(())
            }
            Expr::ForLoop(f) => {
                if f.label.is_some() {
                    return bail("labelled loop");
                }
                if !self.effectful {
                    return bail("loop in a pure function");
                }
                let t = match self.tyx(&f.expr) {
                    Some(Ty::List(t)) => Some(*t),
                    _ => None,
                };
                let xs = self.expr(&f.expr)?;
                let p = self.pat(&f.pat)?;
                let mut body = self.sub();
                body.bind(&f.pat, t);
                body.ind = 2;
                body.block_stmts(&f.body)?;
                let sn = &self.strukt.name;
                self.emit(format!("let r ← Rs.forEach ({}) (self_, out) (fun (p : {} × Rs.Out) {} => do", xs, sn, p));
                self.emit("    let mut self_ := p.1");
                self.emit("    let mut out := p.2");
                for l in body.lines {
                    self.emit(l);
                }
                self.emit("    return (self_, out))");
                self.emit("self_ := r.1");
                self.emit("out := r.2");
                Ok(())
            }
            Expr::Break(b) if b.label.is_none() && b.expr.is_some() && self.ret_mode.is_some() && self.loop_state.is_some() => {
                // `break Poll::Ready(..)` out of the `loop` that is the function's result
                let v = self.expr(b.expr.as_ref().unwrap())?;
                let st = self.loop_state.clone().unwrap();
                self.emit(format!("return ({}, true)", st.replace("RET", &format!("(some {})", v))));
                Ok(())
            }
            Expr::Break(b) => {
                if b.label.is_some() || b.expr.is_some() {
                    return bail("labelled break / break with a value");
                }
                match self.loop_state.clone() {
                    Some(st) => {
                        self.emit(format!("return ({}, true)", st.replace("RET", "none")));
                        Ok(())
                    }
                    None => bail("break outside a translated loop"),
                }
            }
            Expr::Return(r) if r.expr.is_some() && self.ret_mode.is_some() => {
                let v = self.expr(r.expr.as_ref().unwrap())?;
                match self.loop_state.clone() {
                    Some(st) => self.emit(format!("return ({}, true)", st.replace("RET", &format!("(some {})", v)))),
                    None => self.emit(format!("return (self_, out, {})", v)),
                }
                Ok(())
            }
            Expr::Loop(l) if self.ret_mode.is_some() => {
                if l.label.is_some() {
                    return bail("labelled loop");
                }
                let rt = self.ret_mode.clone().unwrap();
                let sn = self.state_ty();
                let tty = format!("({} × Rs.Out × Nat × Option {})", sn, rt);
                let mut body = self.sub();
                body.ind = 2;
                body.loop_state = Some("(self_, out, pc, RET)".into());
                body.block_stmts(&l.body)?;
                self.emit(format!("let r ← Rs.loopFuel fuel (fun (_ : {}) => true) (fun (p : {}) => do", tty, tty));
                self.emit("    let mut self_ := p.1");
                self.emit("    let mut out := p.2.1");
                self.emit("    let mut pc := p.2.2.1");
                for l in body.lines {
                    self.emit(l);
                }
                self.emit("    return ((self_, out, pc, none), false)) (self_, out, pc, none)");
                self.emit("self_ := r.1");
                self.emit("out := r.2.1");
                self.emit("pc := r.2.2.1");
                self.emit("match r.2.2.2 with");
                self.emit("| some v => return (self_, out, v)");
                self.emit("| none => pure ()");
                Ok(())
            }
            Expr::Return(r) => {
                if r.expr.is_some() {
                    return bail("return with a value");
                }
                if !self.effectful {
                    return bail("return in a pure function");
                }
                self.emit("return (self_, out)");
                Ok(())
            }
            Expr::Paren(p) => self.expr_stmt(&p.expr),
            // the value a `actual_subscribe` hands back (`RefCountSubscription { subject, subscription }`): plain names,
            // nothing happens
            Expr::Struct(st) if st.rest.is_none() && st.fields.iter().all(|f| matches!(&f.expr, Expr::Path(_)) || matches!(&f.expr, Expr::MethodCall(m) if m.method == "clone" && matches!(&*m.receiver, Expr::Path(_)))) => Ok(()),
            Expr::Macro(m) => self.macro_stmt(&m.mac),
            _ => {
                let _ = self.expr(e)?;
                Ok(())
            }
        }
    }

    /// `while c { .. }` whose body may `break` and mutates locals of the enclosing function: the loop state is the
    /// tuple (self_, out, carried locals); the body answers (state, broke?)
    fn while_general(&mut self, w: &syn::ExprWhile, carried: &[(String, Ty)]) -> Res<()> {
        let sn = self.state_ty();
        let mut names: Vec<String> = vec!["self_".into(), "out".into()];
        let mut tys: Vec<String> = vec![sn, "Rs.Out".into()];
        for (n, t) in carried {
            names.push(n.clone());
            tys.push(t.lean());
        }
        let k = names.len();
        let acc = |i: usize| -> String {
            // component i of a right-nested k-tuple `p`
            let mut s = "p".to_string();
            for _ in 0..i {
                s += ".2";
            }
            if i + 1 < k {
                s += ".1";
            }
            s
        };
        let tuple = format!("({})", names.join(", "));
        let tty = format!("({})", tys.join(" × "));
        let mut fuel_parts: Vec<String> = vec![self.fuel()];
        for (n, t) in carried {
            if matches!(t, Ty::List(_)) {
                fuel_parts.push(format!("{}.length", n));
            }
        }
        if matches!(self.strukt.root_ty, Some(Ty::List(_))) {
            fuel_parts.push("self_.length".into());
        }
        let lets: String = (0..k).map(|i| format!("let {} := {}; ", names[i], acc(i))).collect();
        let mut cond_fx = self.sub();
        let c = cond_fx.expr(&w.cond)?;
        if !cond_fx.lines.is_empty() {
            return bail("loop condition with effects");
        }
        let mut body = self.sub();
        body.ind = 2;
        body.loop_state = Some(tuple.clone());
        body.block_stmts(&w.body)?;
        self.emit(format!("let r ← Rs.loopFuel ({}) (fun (p : {}) => {}{}) (fun (p : {}) => do", fuel_parts.join(" + "), tty, lets, c, tty));
        for i in 0..k {
            self.emit(format!("    let mut {} := {}", names[i], acc(i)));
        }
        for l in body.lines {
            self.emit(l);
        }
        self.emit(format!("    return ({}, false)) {}", tuple, tuple));
        for i in 0..k {
            self.emit(format!("{} := {}", names[i], acc(i).replacen("p", "r", 1)));
        }
        Ok(())
    }

    fn else_stmts(&mut self, e: &Expr) -> Res<()> {
        let n0 = self.lines.len();
        self.expr_stmt(e)?;
        if self.lines.len() == n0 {
            self.emit("pure ()");
        }
        Ok(())
    }

    fn fuel(&self) -> String {
        let mut parts: Vec<String> = vec![];
        for (n, t) in &self.strukt.fields {
            if matches!(t, Ty::List(_)) {
                parts.push(format!("self_.{}.length", ident(n)));
            }
        }
        parts.push("1".into());
        parts.join(" + ")
    }

    // ------------------------------------------------------------------ expressions
    fn expr(&mut self, e: &Expr) -> Res<String> {
        match e {
            Expr::Paren(p) => self.expr(&p.expr),
            Expr::Group(p) => self.expr(&p.expr),
            Expr::Reference(r) => self.expr(&r.expr),
            Expr::Unary(u) => match u.op {
                UnOp::Deref(_) => self.expr(&u.expr),
                UnOp::Not(_) => Ok(format!("(!{})", self.expr(&u.expr)?)),
                UnOp::Neg(_) => Ok(format!("(-{} : Int)", self.expr(&u.expr)?)),
                _ => bail("unary operator"),
            },
            Expr::Lit(l) => match &l.lit {
                Lit::Int(i) => Ok(i.base10_digits().to_string()),
                Lit::Bool(b) => Ok(if b.value { "true".into() } else { "false".into() }),
                _ => bail("literal"),
            },
            Expr::Path(p) => {
                let n = last_seg(&p.path);
                if p.path.segments.len() == 1 {
                    if n == "None" {
                        return Ok("none".into());
                    }
                    let pl = self.place(e)?;
                    Ok(self.read_place(&pl))
                } else if n == "Pending" {
                    Ok("Rs.Poll.pending".into())
                } else if let Some(en) = self.enum_of_path(&p.path) {
                    Ok(format!("{}.{}", en, n))
                } else {
                    bail(format!("path `{}`", show(p)))
                }
            }
            Expr::Field(f) => match self.place(e) {
                Ok(pl) => Ok(self.read_place(&pl)),
                Err(pe) => {
                    // a field of a value (`cell.take().unwrap().observer`)
                    if let Member::Named(n) = &f.member {
                        let b = self.expr(&f.base)?;
                        Ok(format!("{}.{}", b, ident(&n.to_string())))
                    } else {
                        Err(pe)
                    }
                }
            },
            Expr::Tuple(t) => {
                if t.elems.is_empty() {
                    return Ok("()".into());
                }
                let parts = t.elems.iter().map(|x| self.expr(x)).collect::<Res<Vec<_>>>()?;
                Ok(format!("({})", parts.join(", ")))
            }
            Expr::Binary(b) => {
                if is_compound(&b.op) {
                    return bail("compound assignment used as a value");
                }
                let l = self.expr(&b.left)?;
                if matches!(b.op, BinOp::And(_) | BinOp::Or(_)) {
                    // the effects of the right operand must stay conditional
                    let mut rfx = self.sub();
                    rfx.tmp = self.tmp;
                    rfx.ind = self.ind + 2;
                    let r = rfx.expr(&b.right)?;
                    self.tmp = rfx.tmp;
                    if rfx.lines.is_empty() {
                        let op = if matches!(b.op, BinOp::And(_)) { "&&" } else { "||" };
                        return Ok(format!("({} {} {})", l, op, r));
                    }
                    if rfx.lines.iter().any(|x| !x.trim_start().starts_with("let ")) {
                        return bail("state change inside the right operand of a short-circuit operator");
                    }
                    let t = self.fresh("t");
                    let (c, short) =
                        if matches!(b.op, BinOp::And(_)) { (format!("(!{})", l), "false") } else { (l.clone(), "true") };
                    self.emit(format!("let {} ← (if {} then pure {} else do", t, c, short));
                    for x in rfx.lines {
                        self.lines.push(x);
                    }
                    let pad = "  ".repeat(self.ind + 2);
                    self.lines.push(format!("{}pure {})", pad, r));
                    return Ok(t);
                }
                let r = self.expr(&b.right)?;
                match b.op {
                    BinOp::Lt(_) if self.tyx(&b.left) == Some(Ty::Int) => Ok(format!("(decide (({} : Int) < {}))", l, r)),
                    BinOp::Gt(_) if self.tyx(&b.left) == Some(Ty::Int) => Ok(format!("(decide (({} : Int) < {}))", r, l)),
                    BinOp::Ne(_) if self.tyx(&b.left) == Some(Ty::Int) => Ok(format!("(!decide (({} : Int) = {}))", l, r)),
                    BinOp::Eq(_) if self.tyx(&b.left) == Some(Ty::Int) => Ok(format!("(decide (({} : Int) = {}))", l, r)),
                    BinOp::Lt(_) => Ok(format!("(Rs.lt {} {})", l, r)),
                    BinOp::Le(_) => Ok(format!("(Rs.le {} {})", l, r)),
                    BinOp::Gt(_) => Ok(format!("(Rs.lt {} {})", r, l)),
                    BinOp::Ge(_) => Ok(format!("(Rs.le {} {})", r, l)),
                    BinOp::Eq(_) => Ok(format!("(Rs.eq {} {})", l, r)),
                    BinOp::Ne(_) => Ok(format!("(!Rs.eq {} {})", l, r)),
                    BinOp::Add(_) => Ok(format!("({} + {})", l, r)),
                    BinOp::Sub(_) => {
                        let t = self.fresh("t");
                        self.emit(format!("let {} ← Rs.sub {} {}", t, l, r));
                        Ok(t)
                    }
                    _ => bail("binary operator"),
                }
            }
            Expr::Call(c) => self.call(c),
            Expr::MethodCall(m) => self.method(m, e),
            Expr::If(i) => {
                if let Expr::Let(l) = &*i.cond {
                    let t = self.tyx(&l.expr);
                    let scrut = self.expr(&l.expr)?;
                    let p = self.pat(&l.pat)?;
                    let mut fx = self.sub();
                    fx.bind(&l.pat, t);
                    let a = fx.pure_block(&i.then_branch)?;
                    let b = match &i.else_branch {
                        Some((_, eb)) => self.pure_expr(eb)?,
                        None => return bail("value `if let` without else"),
                    };
                    return Ok(format!("(match {} with | {} => {} | _ => {})", scrut, p, a, b));
                }
                let c = self.expr(&i.cond)?;
                let a = self.pure_block(&i.then_branch)?;
                let b = match &i.else_branch {
                    Some((_, eb)) => self.pure_expr(eb)?,
                    None => return bail("value `if` without else"),
                };
                Ok(format!("(if {} then {} else {})", c, a, b))
            }
            Expr::Match(m)
                if self.ret_mode.is_some()
                    && m.arms.len() == 2
                    && m.arms.iter().filter(|a| matches!(&*a.body, Expr::Return(_)) || matches!(&*a.body, Expr::Block(b) if matches!(b.block.stmts.as_slice(), [Stmt::Expr(Expr::Return(_), _)]))).count() == 1 =>
            {
                // `match fut.poll(cx) { Ready(t) => t, Pending => return Pending }` (the `ready!` macro): the other arm's
                // pattern is bound by a `let … | return …`
                let t = self.tyx(&m.expr);
                let scrut = self.expr(&m.expr)?;
                let is_ret = |a: &syn::Arm| matches!(&*a.body, Expr::Return(_)) || matches!(&*a.body, Expr::Block(_));
                let (val_arm, ret_arm) = if is_ret(&m.arms[0]) && !matches!(&*m.arms[1].body, Expr::Return(_)) { (&m.arms[1], &m.arms[0]) } else { (&m.arms[0], &m.arms[1]) };
                let rexpr = match &*ret_arm.body {
                    Expr::Return(r) => r.expr.as_ref(),
                    Expr::Block(b) => match b.block.stmts.as_slice() {
                        [Stmt::Expr(Expr::Return(r), _)] => r.expr.as_ref(),
                        _ => None,
                    },
                    _ => None,
                }
                .ok_or("return without a value")?;
                let rv = self.expr(rexpr)?;
                let p = self.pat(&val_arm.pat)?;
                let alt = match self.loop_state.clone() {
                    Some(st) => format!("return ({}, true)", st.replace("RET", &format!("(some {})", rv))),
                    None => format!("return (self_, out, {})", rv),
                };
                self.emit(format!("let {} := {} | {}", p, scrut, alt));
                self.bind(&val_arm.pat, t);
                self.expr(&val_arm.body)
            }
            Expr::Match(m) => {
                let t = self.tyx(&m.expr);
                let scrut = self.expr(&m.expr)?;
                let mut s = format!("(match {} with", scrut);
                for arm in &m.arms {
                    let p = self.pat(&arm.pat)?;
                    let mut fx = self.sub();
                    fx.bind(&arm.pat, t.clone());
                    let b = fx.pure_expr(&arm.body)?;
                    write!(s, " | {} => {}", p, b).unwrap();
                }
                s.push(')');
                Ok(s)
            }
            Expr::Block(b) => self.pure_block(&b.block),
            Expr::Range(r) if r.start.is_none() && r.end.is_none() => Ok("Rs.full".into()),
            Expr::Struct(st) if last_seg(&st.path).ends_with("ObserverFuture") => {
                // the driver future of from_stream / from_stream_result: the task handed to the scheduler
                Ok(format!("(Rs.Task.mk \"{}\" [])", last_seg(&st.path)))
            }
            Expr::Struct(st) if last_seg(&st.path) == "KeyObservable" => {
                // the announcement of a group: its key and its subject
                let mut k = None;
                let mut g = None;
                for fv in &st.fields {
                    if let Member::Named(n) = &fv.member {
                        let v = self.expr(&fv.expr)?;
                        match n.to_string().as_str() {
                            "key" => k = Some(v),
                            "subject" => g = Some(v),
                            _ => return bail("field of KeyObservable"),
                        }
                    }
                }
                match (k, g) {
                    (Some(k), Some(g)) => Ok(format!("(Rs.keyObs {} {})", k, g)),
                    _ => bail("KeyObservable literal"),
                }
            }
            Expr::Closure(_) => bail("closure in an unexpected position"),
            Expr::Macro(m) => {
                let n = last_seg(&m.mac.path);
                match n.as_str() {
                    "vec" if m.mac.tokens.is_empty() => Ok("Rs.dflt".into()),
                    _ => bail(format!("macro `{}!`", n)),
                }
            }
            _ => bail(format!("expression `{}` not understood", show(e))),
        }
    }

    fn pure_expr(&mut self, e: &Expr) -> Res<String> {
        let mut fx = self.sub();
        let v = fx.expr(e)?;
        if !fx.lines.is_empty() {
            return bail(format!("effects inside a value position: `{}`", show(e)));
        }
        Ok(v)
    }

    fn pure_block(&mut self, b: &Block) -> Res<String> {
        let mut fx = self.sub();
        let mut s = String::new();
        let n = b.stmts.len();
        for (i, st) in b.stmts.iter().enumerate() {
            match st {
                Stmt::Local(l) => {
                    let init = l.init.as_ref().ok_or("let without initialiser")?;
                    if let Pat::Ident(pi) = &l.pat {
                        if fx.is_root(&init.expr) {
                            let n = ident(&pi.ident.to_string());
                            fx.aliases.insert(n, Place { root_self: true, local: String::new(), path: vec![] });
                            continue;
                        }
                    }
                    let t = fx.tyx(&init.expr);
                    let v = fx.expr(&init.expr)?;
                    let p = fx.pat(&l.pat)?;
                    fx.bind(&l.pat, t);
                    write!(s, "let {} := {}; ", p, v).unwrap();
                }
                Stmt::Expr(e, None) if i + 1 == n => {
                    let v = fx.expr(e)?;
                    s += &v;
                }
                _ => return bail("statement inside a value block"),
            }
        }
        if !fx.lines.is_empty() {
            return bail("effects inside a value block");
        }
        Ok(format!("({})", s))
    }

    /// the value of a block whose statements may bind monadically (lines are emitted)
    fn block_value(&mut self, b: &Block) -> Res<String> {
        let n = b.stmts.len();
        for (k, st) in b.stmts.iter().enumerate() {
            match st {
                Stmt::Expr(e, None) if k + 1 == n => return self.expr(e),
                _ => self.stmt(st)?,
            }
        }
        Ok("()".into())
    }

    fn closure1(&mut self, e: &Expr, t: Option<Ty>) -> Res<(String, String)> {
        if let Expr::Closure(c) = e {
            if c.inputs.len() != 1 {
                return bail("closure arity");
            }
            let p = self.pat(&c.inputs[0])?;
            let mut fx = self.sub();
            fx.bind(&c.inputs[0], t);
            let b = fx.pure_expr(&c.body)?;
            Ok((p, b))
        } else {
            bail("expected a closure literal")
        }
    }

    fn call(&mut self, c: &syn::ExprCall) -> Res<String> {
        let mut f = &*c.func;
        loop {
            match f {
                Expr::Paren(p) => f = &p.expr,
                Expr::Unary(u) if matches!(u.op, UnOp::Deref(_)) => f = &u.expr,
                _ => break,
            }
        }
        // a closure stored in a field: (self.f)(args)
        if let Expr::Field(_) = f {
            let pl = self.place(f)?;
            let args = c.args.iter().map(|a| self.expr(a)).collect::<Res<Vec<_>>>()?;
            return match self.place_ty(&pl) {
                Some(Ty::Fun(ps, _)) => {
                    if ps.len() != args.len() {
                        return bail("closure arity");
                    }
                    Ok(format!("({} {})", self.read_place(&pl), args.join(" ")))
                }
                Some(Ty::Counter) => {
                    // a callback without result: the model counts its calls
                    let cur = self.read_place(&pl);
                    self.write_place(&pl, &format!("({} + 1)", cur))?;
                    Ok("()".into())
                }
                _ => bail(format!("call of `{}` which is not a closure field", show(f))),
            };
        }
        if let Expr::Path(p) = f {
            // a free helper of the struct under translation (`send_observable_value(self, v)`): its first argument is the state
            if p.path.segments.len() == 1 && !c.args.is_empty() {
                let n = last_seg(&p.path);
                let first_is_state = self.is_root_recv(&c.args[0])
                    || matches!(&c.args[0], Expr::Reference(r) if self.is_root_recv(&r.expr))
                    || matches!(self.place(&c.args[0]), Ok(pl) if pl.root_self && pl.path.is_empty());
                if self.strukt.methods.contains_key(&n) && first_is_state {
                    let si: &'a StructInfo = self.strukt;
                    let rest: Vec<&Expr> = c.args.iter().skip(1).collect();
                    return self.struct_call(si, &n, &c.args[0], &rest);
                }
            }
            match (last_seg(&p.path).as_str(), c.args.len()) {
                ("Ok", 1) => return Ok(format!("(Except.ok {})", self.expr(&c.args[0])?)),
                ("Err", 1) => return Ok(format!("(Except.error {})", self.expr(&c.args[0])?)),
                ("Ready", 1) => return Ok(format!("(Rs.Poll.ready {})", self.expr(&c.args[0])?)),
                ("new", 1) if p.path.segments.len() == 2 && matches!(p.path.segments[0].ident.to_string().as_str(), "NormalReturn" | "SubscribeReturn") => {
                    return self.expr(&c.args[0]);
                }
                ("new_timer", 1) => {
                    // a timer future is created with this duration
                    let d = self.expr(&c.args[0])?;
                    self.out(format!("Rs.emitTimer {}", d))?;
                    return Ok(format!("(Rs.Fut.timer {})", d));
                }
                ("swap", 2) => {
                    let a = self.place(&c.args[0])?;
                    let b = self.place(&c.args[1])?;
                    let t = self.fresh("t");
                    let av = self.read_place(&a);
                    self.emit(format!("let {} := {}", t, av));
                    let bv = self.read_place(&b);
                    self.write_place(&a, &bv)?;
                    self.write_place(&b, &t)?;
                    return Ok("()".into());
                }
                _ => {}
            }
            // `panic::resume_unwind(e)`: the caught panic of the task is re-raised; `unreachable!()` / `panic!()` expanded
            if last_seg(&p.path) == "resume_unwind" || (last_seg(&p.path) == "panic" && p.path.segments.iter().any(|s| s.ident == "panicking")) {
                self.emit("Rs.panic");
                return Ok("()".into());
            }
            // `<BoxSubscription<'a>>::new(unsub)`: boxing is transparent
            if let Some(q) = &p.qself {
                if let Type::Path(tp) = &*q.ty {
                    if last_seg(&tp.path).starts_with("BoxSubscription") && last_seg(&p.path) == "new" && c.args.len() == 1 {
                        return self.expr(&c.args[0]);
                    }
                }
            }
            // `Observer::next(&mut self.subject, value)`: a method call in function form
            if p.path.segments.len() == 2 && TRAITS.contains(&p.path.segments[0].ident.to_string().as_str()) && !c.args.is_empty() {
                let recv = &c.args[0];
                let recv = match recv {
                    Expr::Reference(r) => &*r.expr,
                    other => other,
                };
                let name = &p.path.segments[1].ident;
                let rest: Vec<&Expr> = c.args.iter().skip(1).collect();
                let mc: syn::ExprMethodCall = syn::parse_quote!(#recv.#name(#(#rest),*));
                let whole = Expr::MethodCall(mc.clone());
                return self.method(&mc, &whole);
            }
            if let Some(en) = self.enum_of_path(&p.path) {
                let args = c.args.iter().map(|a| self.expr(a)).collect::<Res<Vec<_>>>()?;
                return Ok(format!("({}.{} {})", en, last_seg(&p.path), args.join(" ")));
            }
            // a local name for a closure field (`let S { binary_op, .. } = &mut *inner; binary_op(a, b)`)
            if p.path.segments.len() == 1 {
                if let Ok(pl) = self.place(f) {
                    if self.place_ty(&pl) == Some(Ty::Lazy) && c.args.is_empty() {
                        let r = self.read_place(&pl);
                        self.out(format!("Rs.emitLazy {}.id", r))?;
                        return Ok("()".into());
                    }
                    if self.place_ty(&pl) == Some(Ty::Callback) && c.args.is_empty() {
                        let r = self.read_place(&pl);
                        self.out(format!("Rs.emitCall {}.id", r))?;
                        return Ok("()".into());
                    }
                    if let Some(Ty::Fun(ps, _)) = self.place_ty(&pl) {
                        let args = c.args.iter().map(|a| self.expr(a)).collect::<Res<Vec<_>>>()?;
                        if ps.len() != args.len() {
                            return bail("closure arity");
                        }
                        return Ok(format!("({} {})", self.read_place(&pl), args.join(" ")));
                    }
                }
            }
            let full: Vec<String> = p.path.segments.iter().map(|s| s.ident.to_string()).collect();
            let name = full.last().unwrap().as_str();
            let args: Vec<&Expr> = c.args.iter().collect();
            if full.len() == 2 && matches!(name, "default" | "new") && args.is_empty() && self.generic_is_grp(&full[0]) {
                return Ok("newGrp".into());
            }
            match (name, args.len()) {
                ("drop", 1) if full.len() == 1 => return Ok("()".into()),
                ("new", 1) if full.len() == 2 && full[0] == "Box" && !matches!(args[0], Expr::Closure(_)) => return self.expr(args[0]),
                ("new", 1) if full.len() == 2 && full[0].starts_with("Subscriber") => return Ok("newPub".into()),
                ("new", 1) if full.len() == 2 && full[0].starts_with("BoxSubscription") => return self.expr(args[0]),
                ("new", 2) if full.len() == 2 && full[0] == "OnceTask" => {
                    // the task function by name, its non-observer arguments as values; its observer must be the
                    // operator's own slot
                    let fname = match args[0] {
                        Expr::Path(fp) => last_seg(&fp.path),
                        _ => return bail("task function"),
                    };
                    let comps: Vec<&Expr> = match args[1] {
                        Expr::Tuple(t) => t.elems.iter().collect(),
                        other => vec![other],
                    };
                    let mut vals = vec![];
                    let mut observers = 0;
                    for c in comps {
                        match self.tyx(c) {
                            // the task of a source: the subscriber's observer itself
                            Some(Ty::Obs) => observers += 1,
                            // the observable a `subscribe_on` task will subscribe
                            Some(Ty::Inner) => vals.push(format!("Val.obs {}.id", self.expr(c)?)),
                            Some(Ty::Opt(t)) if *t == Ty::Obs => {
                                let pl = self.place(c)?;
                                if !(pl.root_self && pl.path == vec![Seg::Field("observer".into())]) {
                                    return bail("a task whose observer is not the operator's own slot");
                                }
                                observers += 1;
                            }
                            _ => {
                                // another cell of the operator handed to the task (its body is translated as a function
                                // on the operator's state, see `tasks` in the table), or a plain value
                                match self.place(c) {
                                    Ok(pl) if pl.root_self && pl.path.len() == 1 && matches!(self.place_ty(&pl), Some(Ty::Opt(_))) => {}
                                    _ => vals.push(format!("Rs.ToVal.toVal {}", self.expr(c)?)),
                                }
                            }
                        }
                    }
                    if observers != 1 {
                        return bail("a task without (or with several) observers");
                    }
                    return Ok(format!("(Rs.Task.mk \"{}\" [{}])", fname, vals.join(", ")));
                }
                ("new", 3) if full.len() == 2 && full[0] == "FutureTask" => {
                    // a task that awaits the future and then runs `f(output, observer)`
                    let fname = match args[1] {
                        Expr::Path(fp) => last_seg(&fp.path),
                        _ => return bail("task function"),
                    };
                    return Ok(format!("(Rs.Task.mk \"future:{}\" [])", fname));
                }
                ("with_first_delay", 4) | ("new", 3) if full.len() == 2 && full[0] == "RepeatTask" => {
                    // a repeating task: its tick function by name, the delay of the first run and the period
                    let k = args.len();
                    let fname = match args[k - 2] {
                        Expr::Path(fp) => last_seg(&fp.path),
                        _ => return bail("tick function"),
                    };
                    let mut vals = vec![];
                    for a in &args[..k - 2] {
                        vals.push(format!("Rs.ToVal.toVal {}", self.expr(a)?));
                    }
                    let kind = if name == "new" { "repeat_new" } else { "repeat" };
                    return Ok(format!("(Rs.Task.mk \"{}:{}\" [{}])", kind, fname, vals.join(", ")));
                }
                ("new", 1) if full.len() == 2 && full[0] == "Box" && matches!(args[0], Expr::Closure(_)) => {
                    return self.stored_closure(args[0]);
                }
                ("Some", 1) => return Ok(format!("(some {})", self.expr(args[0])?)),
                ("new", 0) | ("default", 0) => return Ok("Rs.dflt".into()),
                ("take", 1) if full.contains(&"mem".to_string()) => {
                    let pl = self.place(args[0])?;
                    let cur = self.read_place(&pl);
                    let t = self.fresh("t");
                    self.emit(format!("let {} := {}", t, cur));
                    self.write_place(&pl, "Rs.dflt")?;
                    return Ok(t);
                }
                ("replace", 2) if full.contains(&"mem".to_string()) => {
                    let v = self.expr(args[1])?;
                    let pl = self.place(args[0])?;
                    let cur = self.read_place(&pl);
                    let t = self.fresh("t");
                    self.emit(format!("let {} := {}", t, cur));
                    self.write_place(&pl, &v)?;
                    return Ok(t);
                }
                _ => {}
            }
        }
        bail(format!("call `{}` not understood", show(c)))
    }

    /// call of a translated method of a (nested or the same) observer struct
    fn struct_call(&mut self, si: &'a StructInfo, mname: &str, recv: &Expr, args: &[&Expr]) -> Res<String> {
        let mi = si.methods.get(mname).ok_or(format!("method `{}::{}` is not translated", si.name, mname))?;
        if mi.params.len() != args.len() {
            return bail(format!("arity of `{}::{}`", si.name, mname));
        }
        let mut a = args.iter().map(|x| self.expr(x)).collect::<Res<Vec<_>>>()?;
        for (k, (_, pt)) in mi.params.iter().enumerate() {
            if *pt == Ty::Val {
                a[k] = format!("(Rs.ToVal.toVal {})", a[k]);
            }
        }
        if mi.needs_pub {
            a.push("newPub".into());
        }
        if mi.needs_grp {
            a.push("newGrp".into());
        }
        if mi.needs_handle {
            a.push("newHandle".into());
        }
        if mi.needs_down {
            a.push("down".into());
        }
        if mi.needs_closed {
            a.push("closedOf".into());
        }
        let pl = self.place(recv)?;
        let cur = self.read_place(&pl);
        if mi.effectful {
            let t = self.fresh("t");
            self.emit(format!("let {} ← {}{}.{} {} {}", t, si.prefix, si.name, mname, cur, a.join(" ")));
            // a pattern-bound value consumed by the call (`if let Some(o) = cell.take() { o.error(err) }`): gone
            if !(mi.consumes && !pl.root_self && pl.path.is_empty() && !self.payload_of.contains_key(&pl.local)) {
                self.write_place(&pl, &format!("{}.1", t))?;
            }
            self.emit(format!("out := out ++ {}.2", t));
            Ok("()".into())
        } else if mi.partial {
            let t = self.fresh("t");
            self.emit(format!("let {} ← {}{}.{} {} {}", t, si.prefix, si.name, mname, cur, a.join(" ")));
            Ok(t)
        } else {
            Ok(format!("({}{}.{} {} {})", si.prefix, si.name, mname, cur, a.join(" ")))
        }
    }

    fn method(&mut self, m: &syn::ExprMethodCall, whole: &Expr) -> Res<String> {
        let name = m.method.to_string();
        let nargs = m.args.len();
        let args: Vec<&Expr> = m.args.iter().collect();
        if self.is_root(whole) {
            return Ok("self_".into());
        }
        // the struct's own methods through `self`
        if Self::is_self(&m.receiver) && self.strukt.methods.contains_key(&name) {
            let si: &'a StructInfo = self.strukt;
            return self.struct_call(si, &name, &m.receiver, &args);
        }
        // methods of translated structs (nested observers, helpers, the state behind a cell)
        let rt = self.tyx(&m.receiver);
        if let Some(t) = &rt {
            if let Some(si) = self.struct_of(t) {
                if si.methods.contains_key(&name) {
                    return self.struct_call(si, &name, &m.receiver, &args);
                }
                return bail(format!("method `{}::{}` is not translated", si.name, name));
            }
        }
        // a shared slot `MutRc<Option<O>>` used as an observer (`impl_rc_observer!` of src/observer.rs)
        if rt == Some(Ty::Opt(Box::new(Ty::Obs))) && matches!((name.as_str(), nargs), ("next", 1) | ("error", 1) | ("complete", 0) | ("is_finished", 0)) {
            if let Some(si) = self.ctx.structs.get("RcObserver") {
                return self.struct_call(si, &name, &m.receiver, &args);
            }
            return bail("the slot observer (RcObserver) is not available in this module");
        }
        // a shared cell holding a translated observer, used as an observer (`RcObserver@X`)
        if let Some(Ty::Opt(inner)) = &rt {
            if let Ty::Named(x) = &**inner {
                if matches!((name.as_str(), nargs), ("next", 1) | ("error", 1) | ("complete", 0) | ("is_finished", 0)) {
                    if let Some(si) = self.ctx.structs.get(&format!("Slot{}", x)) {
                        return self.struct_call(si, &name, &m.receiver, &args);
                    }
                }
            }
        }
        // a cell holding an optional subscription (blanket impl of src/subscription.rs)
        if rt == Some(Ty::Opt(Box::new(Ty::Sub))) && matches!((name.as_str(), nargs), ("unsubscribe", 0) | ("is_closed", 0)) {
            if let Some(si) = self.ctx.structs.get("RcSubscription") {
                return self.struct_call(si, &name, &m.receiver, &args);
            }
            return bail("the cell subscription (RcSubscription) is not available in this module");
        }
        // `cx.waker()` of a poll function
        if name == "waker" && nargs == 0 && matches!(&*m.receiver, Expr::Path(p) if last_seg(&p.path) == "cx") {
            return Ok("()".into());
        }
        // the sending half of a channel
        if rt == Some(Ty::Chan) {
            match (name.as_str(), nargs) {
                ("unbounded_send", 1) => {
                    // the message goes into the channel unless the receiver is gone (`down`); the caller sees which
                    let v = self.expr(args[0])?;
                    self.out(format!("Rs.emitSend down {}", v))?;
                    return Ok("(Rs.sendResult down)".into());
                }
                ("close_channel", 0) => {
                    let pl = self.place(&m.receiver)?;
                    self.write_place(&pl, "Rs.Chan.closed")?;
                    self.out("Rs.emitChClose".to_string())?;
                    return Ok("()".into());
                }
                ("is_closed", 0) => {
                    let r = self.expr(&m.receiver)?;
                    return Ok(format!("(Rs.chanClosed {} down)", r));
                }
                _ => {}
            }
        }
        // the receiving half: `receiver.next()` is the future that is polled; `close()` refuses further messages
        if let Some(Ty::Fut(_)) = &rt {
            if name == "next" && nargs == 0 {
                return self.expr(&m.receiver);
            }
            if name == "close" && nargs == 0 {
                self.out("Rs.emitRxClose".to_string())?;
                return Ok("()".into());
            }
        }
        // an opaque future is polled: the oracle answers
        if let Some(Ty::Fut(_)) = &rt {
            if matches!(name.as_str(), "poll" | "poll_unpin" | "poll_next" | "poll_next_unpin") && nargs == 1 {
                let t = self.fresh("t");
                self.emit(format!("let {} := futs pc", t));
                self.emit("pc := pc + 1");
                return Ok(t);
            }
        }
        // the scheduler
        if rt == Some(Ty::Sched) && name == "schedule" && nargs == 2 {
            let t = self.expr(args[0])?;
            let d = self.expr(args[1])?;
            self.out(format!("Rs.emitSched {} {} newHandle.id", t, d))?;
            return Ok("newHandle".into());
        }
        // an inner observable of a flattening operator
        if rt == Some(Ty::Inner) && name == "actual_subscribe" && nargs == 1 {
            let r = self.expr(&m.receiver)?;
            self.out(format!("Rs.emitStart {}.id", r))?;
            return Ok(format!("(Rs.Sub.mk {}.id)", r));
        }
        // the subject of a group
        if rt == Some(Ty::Grp) {
            let r = self.expr(&m.receiver)?;
            match (name.as_str(), nargs) {
                ("next", 1) => {
                    let v = self.expr(args[0])?;
                    self.out(format!("Rs.emitTo {}.id (Notif.next (Rs.ToVal.toVal {}))", r, v))?;
                    return Ok("()".into());
                }
                ("error", 1) => {
                    let v = self.expr(args[0])?;
                    self.out(format!("Rs.emitTo {}.id (Notif.error {})", r, v))?;
                    return Ok("()".into());
                }
                ("complete", 0) => {
                    self.out(format!("Rs.emitTo {}.id Notif.complete", r))?;
                    return Ok("()".into());
                }
                ("clone", 0) => return Ok(r),
                // a subject token of share / publish: a new subscriber, "has it any subscriber left?", torn down
                ("actual_subscribe", 1) => {
                    self.out(format!("Rs.emitSubj {}.id", r))?;
                    return Ok("(Rs.Sub.mk newPub.id)".into());
                }
                ("is_empty", 0) => return Ok(format!("(closedOf {}.id)", r)),
                ("unsubscribe", 0) => {
                    self.out(format!("Rs.emitGrpUnsub {}.id", r))?;
                    return Ok("()".into());
                }
                _ => return bail(format!("method `.{}` of a group subject", name)),
            }
        }
        // a boxed subscriber of a subject
        if rt == Some(Ty::Pub) {
            let r = self.expr(&m.receiver)?;
            match (name.as_str(), nargs) {
                ("p_next", 1) => {
                    let v = self.expr(args[0])?;
                    self.out(format!("Rs.emitTo {}.id (Notif.next (Rs.ToVal.toVal {}))", r, v))?;
                    return Ok("()".into());
                }
                ("p_error", 1) => {
                    let v = self.expr(args[0])?;
                    self.out(format!("Rs.emitTo {}.id (Notif.error {})", r, v))?;
                    return Ok("()".into());
                }
                ("p_complete", 0) => {
                    self.out(format!("Rs.emitTo {}.id Notif.complete", r))?;
                    return Ok("()".into());
                }
                ("p_unsubscribe", 0) => {
                    self.out(format!("Rs.emitUnsub {}.id", r))?;
                    return Ok("()".into());
                }
                ("p_is_closed", 0) => return Ok(format!("(closedOf {}.id)", r)),
                ("clone", 0) => return Ok(r),
                _ => return bail(format!("method `.{}` of a boxed subscriber", name)),
            }
        }
        // iteration with a closure over a list
        if name == "for_each" && nargs == 1 {
            if let (Some(Ty::List(et)), Expr::Closure(c)) = (rt.clone(), args[0]) {
                if !self.effectful || c.inputs.len() != 1 {
                    return bail("for_each in an unexpected position");
                }
                let xs = self.expr(&m.receiver)?;
                let p = self.pat(&c.inputs[0])?;
                let mut body = self.sub();
                body.bind(&c.inputs[0], Some(*et));
                body.ind = 2;
                body.expr_stmt(&c.body)?;
                if body.lines.is_empty() {
                    body.emit("pure ()");
                }
                let sn = self.state_ty();
                self.emit(format!("let r ← Rs.forEach ({}) (self_, out) (fun (p : {} × Rs.Out) {} => do", xs, sn, p));
                self.emit("    let mut self_ := p.1");
                self.emit("    let mut out := p.2");
                for l in body.lines {
                    self.emit(l);
                }
                self.emit("    return (self_, out))");
                self.emit("self_ := r.1");
                self.emit("out := r.2");
                return Ok("()".into());
            }
        }
        if (name == "all" || name == "any") && nargs == 1 {
            if let (Some(Ty::List(et)), Expr::Closure(_)) = (rt.clone(), args[0]) {
                let (p, b) = self.closure1(args[0], Some(*et))?;
                let r = self.expr(&m.receiver)?;
                return Ok(format!("(List.{} {} (fun {} => {}))", name, r, p, b));
            }
        }
        if name == "retain" && nargs == 1 {
            if let (Some(Ty::List(et)), Expr::Closure(_)) = (rt.clone(), args[0]) {
                let (p, b) = self.closure1(args[0], Some(*et))?;
                let pl = self.place(&m.receiver)?;
                let cur = self.read_place(&pl);
                self.write_place(&pl, &format!("(List.filter (fun {} => {}) {})", p, b, cur))?;
                return Ok("()".into());
            }
        }
        if name == "append" && nargs == 1 {
            if let Some(Ty::List(_)) = rt {
                // `dst.append(&mut src)`: everything moves over, `src` is left empty
                let src = self.mut_list_place(args[0])?;
                let scur = self.read_list_place(&src)?;
                let pl = self.place(&m.receiver)?;
                let cur = self.read_place(&pl);
                self.write_place(&pl, &format!("({} ++ {})", cur, scur))?;
                self.clear_list_place(&src)?;
                return Ok("()".into());
            }
        }
        // a nested subscription
        if rt == Some(Ty::Sub) {
            match (name.as_str(), nargs) {
                ("unsubscribe", 0) => {
                    let r = self.expr(&m.receiver)?;
                    self.out(format!("Rs.emitUnsub {}.id", r))?;
                    return Ok("()".into());
                }
                ("is_closed", 0) | ("boxed_is_closed", 0) => {
                    let r = self.expr(&m.receiver)?;
                    return Ok(format!("(Rs.isClosed {} closedOf)", r));
                }
                ("boxed_unsubscribe", 0) => {
                    let r = self.expr(&m.receiver)?;
                    self.out(format!("Rs.emitUnsub {}.id", r))?;
                    return Ok("()".into());
                }
                _ => {}
            }
        }
        // an `AtomicWaker`
        if rt == Some(Ty::Waker) {
            match (name.as_str(), nargs) {
                ("wake", 0) => {
                    self.out("Rs.emitWake".to_string())?;
                    return Ok("()".into());
                }
                ("register", 1) => {
                    self.out("Rs.emitRegister".to_string())?;
                    return Ok("()".into());
                }
                _ => {}
            }
        }
        // `Cell<bool>` / `AtomicBool` / `AtomicI8`
        if rt == Some(Ty::Bool) || rt == Some(Ty::Int) {
            match (name.as_str(), nargs) {
                ("get", 0) | ("load", 1) => return self.expr(&m.receiver),
                ("set", 1) | ("store", 2) => {
                    let v = self.expr(args[0])?;
                    let pl = self.place(&m.receiver)?;
                    self.write_place(&pl, &v)?;
                    return Ok("()".into());
                }
                _ => {}
            }
        }
        match (name.as_str(), nargs) {
            ("clone", 0) | ("as_ref", 0) | ("as_mut", 0) | ("borrow", 0) | ("borrow_mut", 0) | ("to_owned", 0) | ("iter", 0)
            | ("into_iter", 0) | ("iter_mut", 0) | ("rc_deref", 0) | ("rc_deref_mut", 0) => self.expr(&m.receiver),
            // ---- the downstream observer
            ("next", 1) | ("error", 1) | ("complete", 0) | ("is_finished", 0) => {
                if rt != Some(Ty::Obs) {
                    return bail(format!("`.{}` on a receiver that is not known to be the downstream observer: `{}`", name, show(&m.receiver)));
                }
                let r = self.expr(&m.receiver)?;
                match name.as_str() {
                    "next" => {
                        let v = self.expr(args[0])?;
                        self.out(format!("Rs.emitNext {} {}", r, v))?;
                    }
                    "error" => {
                        let v = self.expr(args[0])?;
                        self.out(format!("Rs.emitError {} {}", r, v))?;
                    }
                    "complete" => self.out(format!("Rs.emitComplete {}", r))?,
                    _ => {
                        if self.dyn_down {
                            return Ok(format!("(Rs.isFinished {} (downF out))", r));
                        }
                        return Ok(format!("(Rs.isFinished {} down)", r));
                    }
                }
                Ok("()".into())
            }
            // ---- pure queries
            ("len", 0) => Ok(format!("(Rs.len {})", self.expr(&m.receiver)?)),
            ("is_empty", 0) => Ok(format!("(Rs.isEmpty {})", self.expr(&m.receiver)?)),
            ("is_some", 0) => Ok(format!("(Rs.isSome {})", self.expr(&m.receiver)?)),
            ("is_none", 0) => Ok(format!("(!Rs.isSome {})", self.expr(&m.receiver)?)),
            ("contains", 1) => {
                let r = self.expr(&m.receiver)?;
                let a = self.expr(args[0])?;
                Ok(format!("(Rs.contains {} {})", r, a))
            }
            ("unwrap", 0) | ("expect", 1) if matches!(rt, Some(Ty::Res(..))) => {
                let r = self.expr(&m.receiver)?;
                let t = self.fresh("t");
                self.emit(format!("let {} ← Rs.unwrapRes {}", t, r));
                Ok(t)
            }
            ("unwrap", 0) | ("expect", 1) => {
                let r = self.expr(&m.receiver)?;
                let t = self.fresh("t");
                self.emit(format!("let {} ← Rs.unwrap {}", t, r));
                Ok(t)
            }
            ("replace", 1) if matches!(rt, Some(Ty::Opt(_))) => {
                // `opt.replace(v)`: the old content is handed back
                let v = self.expr(args[0])?;
                let pl = self.place(&m.receiver)?;
                let cur = self.read_place(&pl);
                let t = self.fresh("t");
                self.emit(format!("let {} := {}", t, cur));
                self.write_place(&pl, &format!("(some {})", v))?;
                Ok(t)
            }
            ("unwrap_or", 1) => {
                let r = self.expr(&m.receiver)?;
                let d = self.pure_expr(args[0])?;
                Ok(format!("(Rs.unwrapOr {} {})", r, d))
            }
            ("map_or", 2) => {
                let inner = match &rt {
                    Some(Ty::Opt(t)) => Some((**t).clone()),
                    _ => None,
                };
                let r = self.expr(&m.receiver)?;
                let d = self.pure_expr(args[0])?;
                match self.closure1(args[1], inner.clone()) {
                    Ok((p, b)) => Ok(format!("(match {} with | some {} => {} | none => {})", r, p, b, d)),
                    Err(_) => {
                        // the closure can panic: keep its effects inside the `some` arm
                        let Expr::Closure(c) = args[1] else { return bail("expected a closure literal") };
                        if c.inputs.len() != 1 {
                            return bail("closure arity");
                        }
                        let p = self.pat(&c.inputs[0])?;
                        let mut fx = self.sub();
                        fx.tmp = self.tmp;
                        fx.bind(&c.inputs[0], inner);
                        fx.ind = self.ind + 3;
                        let b = match &*c.body {
                            Expr::Block(bl) => fx.block_value(&bl.block)?,
                            other => fx.expr(other)?,
                        };
                        self.tmp = fx.tmp;
                        if fx.lines.iter().any(|x| {
                            let t = x.trim_start();
                            !(t.starts_with("let ") || t.starts_with("pure ") || t.starts_with("| ") || t.starts_with("(if "))
                        }) {
                            return bail("state change inside a map_or closure");
                        }
                        let t = self.fresh("t");
                        self.emit(format!("let {} ← (match {} with", t, r));
                        self.emit(format!("  | some {} => do", p));
                        for x in fx.lines {
                            self.lines.push(x);
                        }
                        let pad = "  ".repeat(self.ind + 3);
                        self.lines.push(format!("{}pure {}", pad, b));
                        self.emit(format!("  | none => pure {})", d));
                        Ok(t)
                    }
                }
            }
            ("map", 1) => {
                let inner = match &rt {
                    Some(Ty::Opt(t)) => Some((**t).clone()),
                    _ => None,
                };
                let r = self.expr(&m.receiver)?;
                let (p, b) = self.closure1(args[0], inner)?;
                Ok(format!("(match {} with | some {} => some {} | none => none)", r, p, b))
            }
            ("is_some_and", 1) => {
                let inner = match &rt {
                    Some(Ty::Opt(t)) => Some((**t).clone()),
                    _ => None,
                };
                let r = self.expr(&m.receiver)?;
                let (p, b) = self.closure1(args[0], inner)?;
                Ok(format!("(match {} with | some {} => {} | none => false)", r, p, b))
            }
            ("front", 0) | ("first", 0) => Ok(format!("(Rs.front {})", self.expr(&m.receiver)?)),
            ("back", 0) | ("last", 0) => Ok(format!("(Rs.back {})", self.expr(&m.receiver)?)),
            // ---- mutating methods: the receiver must be a place
            ("take", 0) => {
                let pl = self.place(&m.receiver)?;
                let cur = self.read_place(&pl);
                let t = self.fresh("t");
                self.emit(format!("let {} := {}", t, cur));
                self.write_place(&pl, "none")?;
                Ok(t)
            }
            ("replace", 1) => {
                let v = self.expr(args[0])?;
                let pl = self.place(&m.receiver)?;
                let cur = self.read_place(&pl);
                let t = self.fresh("t");
                self.emit(format!("let {} := {}", t, cur));
                self.write_place(&pl, &format!("(some {})", v))?;
                Ok(t)
            }
            ("push_back", 1) | ("push", 1) => {
                let v = self.expr(args[0])?;
                let pl = self.place(&m.receiver)?;
                let cur = self.read_place(&pl);
                self.write_place(&pl, &format!("(Rs.pushBack {} {})", cur, v))?;
                Ok("()".into())
            }
            ("push_front", 1) => {
                let v = self.expr(args[0])?;
                let pl = self.place(&m.receiver)?;
                let cur = self.read_place(&pl);
                self.write_place(&pl, &format!("(Rs.pushFront {} {})", cur, v))?;
                Ok("()".into())
            }
            ("extend", 1) => {
                let v = self.expr(args[0])?;
                let pl = self.place(&m.receiver)?;
                let cur = self.read_place(&pl);
                self.write_place(&pl, &format!("(Rs.extend {} {})", cur, v))?;
                Ok("()".into())
            }
            ("insert", 1) => {
                let v = self.expr(args[0])?;
                let pl = self.place(&m.receiver)?;
                let cur = self.read_place(&pl);
                let t = self.fresh("t");
                self.emit(format!("let {} := Rs.setInsert {} {}", t, cur, v));
                self.write_place(&pl, &format!("{}.2", t))?;
                Ok(format!("{}.1", t))
            }
            ("next", 0) if matches!(rt, Some(Ty::List(_))) => {
                // `iter.next()` of an iterator over a translated collection
                let pl = self.place(&m.receiver)?;
                let cur = self.read_place(&pl);
                let t = self.fresh("t");
                self.emit(format!("let {} := Rs.popFront {}", t, cur));
                self.write_place(&pl, &format!("{}.2", t))?;
                Ok(format!("{}.1", t))
            }
            ("pop_front", 0) => {
                let pl = self.place(&m.receiver)?;
                let cur = self.read_place(&pl);
                let t = self.fresh("t");
                self.emit(format!("let {} := Rs.popFront {}", t, cur));
                self.write_place(&pl, &format!("{}.2", t))?;
                Ok(format!("{}.1", t))
            }
            ("pop_back", 0) | ("pop", 0) => {
                let pl = self.place(&m.receiver)?;
                let cur = self.read_place(&pl);
                let t = self.fresh("t");
                self.emit(format!("let {} := Rs.popBack {}", t, cur));
                self.write_place(&pl, &format!("{}.2", t))?;
                Ok(format!("{}.1", t))
            }
            ("clear", 0) => {
                let pl = self.place(&m.receiver)?;
                self.write_place(&pl, "Rs.dflt")?;
                Ok("()".into())
            }
            ("drain", 0) => {
                let pl = self.place(&m.receiver)?;
                let cur = self.read_place(&pl);
                let t = self.fresh("t");
                self.emit(format!("let {} := {}", t, cur));
                self.write_place(&pl, "Rs.dflt")?;
                Ok(t)
            }
            ("contains_key", 1) => {
                let r = self.expr(&m.receiver)?;
                let a = self.expr(args[0])?;
                Ok(format!("(Rs.isSome (Rs.mapGet {} {}))", r, a))
            }
            ("drain", 1) => {
                let a = self.expr(args[0])?;
                if a != "Rs.full" {
                    return bail("drain of a partial range");
                }
                let pl = self.place(&m.receiver)?;
                let cur = self.read_place(&pl);
                let t = self.fresh("t");
                self.emit(format!("let {} := {}", t, cur));
                self.write_place(&pl, "Rs.dflt")?;
                Ok(t)
            }
            _ => bail(format!("method `.{}/{}` not understood (receiver `{}`)", name, nargs, show(&m.receiver))),
        }
    }

    /// is `name` a generic parameter standing for a group subject?
    fn generic_is_grp(&self, name: &str) -> bool {
        self.strukt.fields.iter().any(|(_, t)| matches!(t, Ty::List(e) if matches!(&**e, Ty::Tuple(kv) if kv.len() == 2 && kv[1] == Ty::Grp)))
            && name == "Subject"
    }

    /// `Box::new(move || { … })` stored for later: a token naming the inner observable it will subscribe, and a separate
    /// definition `<Struct>.<fn>_lazy` with what running it does
    fn stored_closure(&mut self, e: &Expr) -> Res<String> {
        let Expr::Closure(c) = e else { return bail("expected a closure") };
        if !c.inputs.is_empty() {
            return bail("stored closure with parameters");
        }
        // the inner observable it captures: the receiver of `.actual_subscribe(..)`
        let txt = show_full(&c.body);
        let mut cap = None;
        for (n, t) in &self.locals {
            if *t == Ty::Inner && txt.contains(&format!("{} . actual_subscribe", n.trim_end_matches('_'))) {
                cap = Some(n.clone());
            }
        }
        let cap = cap.ok_or("stored closure that subscribes no inner observable")?;
        let mut fx = self.sub();
        fx.ind = 1;
        fx.payload_of.clear();
        match &*c.body {
            Expr::Block(b) => {
                for st in &b.block.stmts {
                    fx.stmt(st)?;
                }
            }
            other => fx.expr_stmt(other)?,
        }
        let sn = self.state_ty();
        let mut d = format!(
            "def {}.{}_lazy (self0 : {}) ({} : Rs.Inner) : Option ({} × Rs.Out) := do\n  let mut self_ := self0\n  let mut out : Rs.Out := []\n",
            sn, self.fname, sn, cap, sn
        );
        for l in fx.lines {
            d += &l;
            d.push('\n');
        }
        d += "  return (self_, out)\n\n";
        self.extra.push(d);
        Ok(format!("(Rs.Lazy.mk {}.id)", cap))
    }

    /// a `fn` item inside a method (the body of a scheduled task): a definition of its own; what it does to the observer
    /// it is handed
    fn nested_fn(&mut self, f: &syn::ItemFn) -> Res<()> {
        let g = generics_for(&f.sig.generics, &["Err".to_string()], self.ctx, &HashMap::new())?;
        let mut params: Vec<(String, Ty)> = vec![];
        fn flat(p: &Pat, t: &Type, g: &Generics, out: &mut Vec<(String, Ty)>) -> Res<()> {
            match (p, t) {
                (Pat::Tuple(pt), Type::Tuple(tt)) if pt.elems.len() == tt.elems.len() => {
                    for (a, b) in pt.elems.iter().zip(tt.elems.iter()) {
                        flat(a, b, g, out)?;
                    }
                    Ok(())
                }
                (Pat::Ident(pi), t) => {
                    out.push((ident(&pi.ident.to_string()), g.ty(t)?));
                    Ok(())
                }
                _ => bail("parameter pattern of a nested fn"),
            }
        }
        for a in &f.sig.inputs {
            if let FnArg::Typed(pt) = a {
                flat(&pt.pat, &pt.ty, &g, &mut params)?;
            }
        }
        let mut fx = self.sub();
        fx.ind = 1;
        fx.locals = params.iter().cloned().collect();
        fx.aliases.clear();
        fx.payload_of.clear();
        let n = f.block.stmts.len();
        for (k, st) in f.block.stmts.iter().enumerate() {
            // the result (`NormalReturn::new(())`) carries nothing
            if k + 1 == n && matches!(st, Stmt::Expr(Expr::Call(_), None)) {
                continue;
            }
            fx.stmt(st)?;
        }
        if fx.lines.iter().any(|l| l.contains("self_")) {
            return bail("a nested fn that touches the operator state");
        }
        let ps: String = params.iter().map(|(n, t)| format!(" ({} : {})", n, t.lean())).collect();
        let mut d = format!("def {}.{}__{}{} : Option Rs.Out := do\n  let mut out : Rs.Out := []\n", self.state_ty(), self.fname, f.sig.ident, ps);
        for l in fx.lines {
            d += &l;
            d.push('\n');
        }
        d += "  return out\n\n";
        self.extra.push(d);
        Ok(())
    }

    /// the Lean name of the state type
    fn state_ty(&self) -> String {
        self.strukt.name.clone()
    }

    /// `src` of `dst.append(src)`: a list place, or `<Option<list> place>.as_mut().unwrap()`
    fn mut_list_place(&mut self, e: &Expr) -> Res<(Place, bool)> {
        let mut x = e;
        loop {
            match x {
                Expr::Reference(r) => x = &r.expr,
                Expr::Paren(p) => x = &p.expr,
                _ => break,
            }
        }
        if let Expr::MethodCall(m) = x {
            if m.method == "unwrap" && m.args.is_empty() {
                let pl = self.place(&m.receiver)?;
                if matches!(self.place_ty(&pl), Some(Ty::Opt(_))) {
                    return Ok((pl, true));
                }
            }
        }
        Ok((self.place(x)?, false))
    }

    fn read_list_place(&mut self, p: &(Place, bool)) -> Res<String> {
        let cur = self.read_place(&p.0);
        if p.1 {
            let t = self.fresh("t");
            self.emit(format!("let {} ← Rs.unwrap {}", t, cur));
            Ok(t)
        } else {
            Ok(cur)
        }
    }

    fn clear_list_place(&mut self, p: &(Place, bool)) -> Res<()> {
        if p.1 {
            self.write_place(&p.0, "(some [])")
        } else {
            self.write_place(&p.0, "[]")
        }
    }

    fn out(&mut self, what: String) -> Res<()> {
        if !self.effectful {
            return bail("observer call in a pure function");
        }
        self.emit(format!("out := out ++ {}", what));
        Ok(())
    }
}

fn is_compound(op: &BinOp) -> bool {
    matches!(
        op,
        BinOp::AddAssign(_)
            | BinOp::SubAssign(_)
            | BinOp::MulAssign(_)
            | BinOp::DivAssign(_)
            | BinOp::RemAssign(_)
            | BinOp::BitXorAssign(_)
            | BinOp::BitAndAssign(_)
            | BinOp::BitOrAssign(_)
            | BinOp::ShlAssign(_)
            | BinOp::ShrAssign(_)
    )
}

// ====================================================================== items

fn find_struct<'f>(items: &'f [Item], name: &str) -> Option<&'f ItemStruct> {
    items.iter().find_map(|i| match i {
        Item::Struct(s) if s.ident == name => Some(s),
        _ => None,
    })
}

/// `X<..>`, `MutRc<X<..>>`, `MutArc<X<..>>` → (X, its type arguments, behind a cell?)
fn impl_target(t: &Type) -> Option<(String, Vec<&Type>, bool)> {
    if let Type::Path(tp) = t {
        let n = last_seg(&tp.path);
        let args = type_args(&tp.path);
        if CELLS.contains(&n.as_str()) && args.len() == 1 {
            let (n2, a2, _) = impl_target(args[0])?;
            return Some((n2, a2, true));
        }
        Some((n, args, false))
    } else {
        None
    }
}

/// impls whose self type is `name<..>` (possibly behind a cell); for the pseudo struct `RcObserver` the impls
/// for `$rc<Option<O>>` (`impl_rc_observer!`)
fn impls_of<'f>(items: &'f [Item], name: &str) -> Vec<&'f ItemImpl> {
    items
        .iter()
        .filter_map(|i| match i {
            Item::Impl(im) => match impl_target(&im.self_ty) {
                Some((n, _, cell)) if n == name || (name == "RcObserver" && n == "Option" && cell) => Some(im),
                Some((n, a, false))
                    if name == "RcSubscription"
                        && a.is_empty()
                        && im.generics.params.iter().any(|p| matches!(p, GenericParam::Type(tp) if tp.ident == n)) =>
                {
                    Some(im)
                }
                _ => None,
            },
            _ => None,
        })
        .collect()
}

fn merge_generics(a: &syn::Generics, b: &syn::Generics) -> syn::Generics {
    let mut g = a.clone();
    for p in &b.params {
        g.params.push(p.clone());
    }
    if let Some(w) = &b.where_clause {
        let wc = g.make_where_clause();
        for p in &w.predicates {
            wc.predicates.push(p.clone());
        }
    }
    g
}

struct FnUnit<'f> {
    im: &'f ItemImpl,
    f: &'f syn::ImplItemFn,
    /// a free `fn helper(observer: &mut X<..>, ..)`: its first parameter is the state
    free: bool,
}

pub fn parse_spec(spec: &str) -> Ty {
    match spec {
        "slot" => Ty::Opt(Box::new(Ty::Obs)),
        "optval" => Ty::Opt(Box::new(Ty::Val)),
        "val" => Ty::Val,
        "bool" => Ty::Bool,
        "obs" => Ty::Obs,
        "callback" => Ty::Callback,
        "sub" => Ty::Sub,
        "unit" => Ty::Unit,
        "stream" => Ty::Fut(Box::new(Ty::Opt(Box::new(Ty::Val)))),
        "trystream" => Ty::Fut(Box::new(Ty::Opt(Box::new(Ty::Res(Box::new(Ty::Val), Box::new(Ty::Err)))))),
        "future" => Ty::Fut(Box::new(Ty::Val)),
        "grp" => Ty::Grp,
        "inner" => Ty::Inner,
        "lazy" => Ty::Lazy,
        _ if spec.starts_with("named:") => Ty::Named(spec[6..].to_string()),
        _ if spec.starts_with("opt:") => Ty::Opt(Box::new(parse_spec(&spec[4..]))),
        _ => panic!("bad type spec {}", spec),
    }
}

fn generics_for(gen: &syn::Generics, err_names: &[String], ctx: &Ctx, hints: &HashMap<String, Ty>) -> Res<Generics> {
    let mut known: Vec<String> = ctx.structs.keys().cloned().collect();
    known.extend(ctx.enums.keys().cloned());
    let mut g = Generics::of(gen, err_names, &known)?;
    g.aliases = ctx.aliases.clone();
    for (k, v) in hints {
        g.map.insert(k.clone(), v.clone());
    }
    Ok(g)
}

/// `MutRc<..>` / `MutArc<..>` / `Rc<..>` / `Arc<..>` (also behind a type alias): a shared cell
fn is_cell_type(t: &Type, ctx: &Ctx) -> bool {
    if let Type::Path(tp) = t {
        let n = last_seg(&tp.path);
        if matches!(n.as_str(), "MutRc" | "MutArc" | "Rc" | "Arc") {
            return true;
        }
        if let Some((_, body)) = ctx.aliases.get(&n) {
            return is_cell_type(body, ctx);
        }
    }
    false
}

fn is_phantom(t: &Type) -> bool {
    matches!(t, Type::Path(tp) if PHANTOMS.contains(&last_seg(&tp.path).as_str()))
}

/// `enum ZipItem<A, B> { ItemA(A), ItemB(B) }` → a Lean inductive (type parameters read as `Val`)
pub fn translate_enum(items: &[Item], name: &str, ctx: &mut Ctx, hints: &HashMap<String, Ty>) -> Res<String> {
    let en = items
        .iter()
        .find_map(|i| match i {
            Item::Enum(e) if e.ident == name => Some(e),
            _ => None,
        })
        .ok_or(format!("enum {} not found", name))?;
    let g = generics_for(&en.generics, &["E".to_string(), "Err".to_string()], ctx, hints)?;
    let mut ctors = vec![];
    let mut s = format!("inductive {} where\n", name);
    for v in &en.variants {
        let mut tys = vec![];
        match &v.fields {
            Fields::Unnamed(u) => {
                for f in &u.unnamed {
                    tys.push(g.ty(&f.ty)?);
                }
            }
            Fields::Unit => {}
            _ => return bail("enum variant with named fields"),
        }
        let args: String = tys.iter().enumerate().map(|(i, t)| format!(" (a{} : {})", i, t.lean())).collect();
        writeln!(s, "  | {}{}", v.ident, args).unwrap();
        ctors.push((v.ident.to_string(), tys));
    }
    s.push('\n');
    // how a value of the enum is seen as a `Val` (a message that goes into a channel): constructor index and arguments
    if ctors.iter().all(|(_, tys)| tys.len() <= 1 && tys.iter().all(|t| !matches!(t, Ty::Obs | Ty::Sub | Ty::Pub | Ty::Fun(..) | Ty::Named(_)))) {
        writeln!(s, "instance : Rs.ToVal {} := ⟨fun x => match x with", name).unwrap();
        for (k, (c, tys)) in ctors.iter().enumerate() {
            if tys.is_empty() {
                writeln!(s, "  | .{} => Val.pair (Val.int {}) Val.unit", c, k).unwrap();
            } else {
                writeln!(s, "  | .{} a0 => Val.pair (Val.int {}) (Rs.ToVal.toVal a0)", c, k).unwrap();
            }
        }
        s.push_str("⟩\n\n");
    }
    ctx.enums.insert(name.to_string(), EnumInfo { name: name.to_string(), ctors });
    Ok(s)
}

/// The body of a scheduled task that is a free `fn` taking clones of the operator's cells
/// (`fn debounce_task((observer, value): (MutArc<Option<O>>, MutArc<Option<Item>>))`): a function on the operator's
/// state, its parameters being other names for the fields given in the table.
pub fn translate_task_fn(items: &[Item], fname: &str, obs: &str, fields: &[&str], ctx: &Ctx) -> Res<String> {
    let f = items
        .iter()
        .find_map(|i| match i {
            Item::Fn(f) if f.sig.ident == fname => Some(f),
            _ => None,
        })
        .ok_or(format!("fn {} not found", fname))?;
    let obs = if obs == "@obs" { "Observer" } else { obs };
    let si = ctx.structs.get(obs).ok_or(format!("struct {} not translated", obs))?;
    let bare = si.root_ty == Some(Ty::Obs);
    let mut names = vec![];
    fn idents(p: &Pat, out: &mut Vec<String>) {
        match p {
            Pat::Ident(pi) => out.push(ident(&pi.ident.to_string())),
            Pat::Tuple(t) => t.elems.iter().for_each(|e| idents(e, out)),
            Pat::Type(t) => idents(&t.pat, out),
            _ => {}
        }
    }
    for a in &f.sig.inputs {
        if let FnArg::Typed(pt) = a {
            idents(&pt.pat, &mut names);
        }
    }
    if names.len() != fields.len() {
        return bail(format!("task fn {}: {} parameters, {} fields declared", fname, names.len(), fields.len()));
    }
    let mut aliases = HashMap::new();
    let mut locals: HashMap<String, Ty> = HashMap::new();
    let mut extra_params = String::new();
    if bare {
        // the task of a SOURCE: it is handed the subscriber's observer itself (the state) and plain values
        let g = generics_for(&f.sig.generics, &[], ctx, &HashMap::new())?;
        let mut tys: Vec<Ty> = vec![];
        for a in &f.sig.inputs {
            if let FnArg::Typed(pt) = a {
                match g.ty(&pt.ty)? {
                    Ty::Tuple(ts) => tys.extend(ts),
                    t => tys.push(t),
                }
            }
        }
        if tys.len() != names.len() {
            return bail(format!("task fn {}: parameter types", fname));
        }
        for ((n, fl), t) in names.iter().zip(fields.iter()).zip(tys.into_iter()) {
            if *fl == "observer" {
                if t != Ty::Obs {
                    return bail(format!("task fn {}: `{}` is not an observer", fname, n));
                }
                aliases.insert(n.clone(), Place { root_self: true, local: String::new(), path: vec![] });
            } else {
                write!(extra_params, " ({} : {})", n, t.lean()).unwrap();
                locals.insert(n.clone(), t);
            }
        }
    } else {
        for (n, fl) in names.iter().zip(fields.iter()) {
            if si.field_ty(fl).is_none() {
                return bail(format!("task fn {}: no field `{}` in {}", fname, fl, obs));
            }
            aliases.insert(n.clone(), Place { root_self: true, local: String::new(), path: vec![Seg::Field(fl.to_string())] });
        }
    }
    let mut fx = Fx {
        strukt: si,
        ctx,
        lines: vec![],
        ind: 1,
        tmp: 0,
        locals,
        aliases,
        effectful: true,
        newtype: false,
        payload_of: HashMap::new(),
        extra: vec![],
        fname: format!("task_{}", fname),
        dyn_down: false,
        loop_state: None,
        ret_mode: None,
    };
    let n = f.block.stmts.len();
    for (k, st) in f.block.stmts.iter().enumerate() {
        if k + 1 == n {
            if let Stmt::Expr(e @ Expr::Call(c), None) = st {
                // `NormalReturn::new(())` / `SubscribeReturn::new(source.actual_subscribe(observer))`: the value handed
                // back to the scheduler; its argument may have effects
                if !c.args.is_empty() && !matches!(c.args.first(), Some(Expr::Tuple(t)) if t.elems.is_empty()) {
                    fx.expr(e).map_err(|e| format!("task fn {}: {}", fname, e))?;
                }
                continue;
            }
        }
        fx.stmt(st).map_err(|e| format!("task fn {}: {}", fname, e))?;
    }
    let mut d = format!("def {}.task_{} (self0 : {}){} : Option ({} × Rs.Out) := do\n  let mut self_ := self0\n  let mut out : Rs.Out := []\n", obs, fname, obs, extra_params, obs);
    for l in fx.lines {
        d += &l;
        d.push('\n');
    }
    d += "  return (self_, out)\n\n";
    Ok(d)
}

/// A tick function of a repeating task (`fn emit_buffer(observer: &mut RcBufferObserver<..>, _seq: usize) -> bool`):
/// a function on the cell it is given (the translated slot `obs`), returning the new cell, the output and the
/// verdict "keep repeating".
pub fn translate_tick_fn(items: &[Item], fname: &str, obs: &str, ctx: &Ctx) -> Res<String> {
    let f = items
        .iter()
        .find_map(|i| match i {
            Item::Fn(f) if f.sig.ident == fname => Some(f),
            _ => None,
        })
        .ok_or(format!("fn {} not found", fname))?;
    let obs = if obs == "@obs" { "Observer" } else { obs };
    let si = ctx.structs.get(obs).ok_or(format!("struct {} not translated", obs))?;
    let mut aliases = HashMap::new();
    let mut locals = HashMap::new();
    let mut seq_param = String::new();
    for (k, a) in f.sig.inputs.iter().enumerate() {
        if let FnArg::Typed(pt) = a {
            if let Pat::Ident(pi) = &*pt.pat {
                let n = ident(&pi.ident.to_string());
                if k == 0 {
                    aliases.insert(n, Place { root_self: true, local: String::new(), path: vec![] });
                } else {
                    if !pi.ident.to_string().starts_with('_') {
                        write!(seq_param, " ({} : Nat)", n).unwrap();
                    }
                    locals.insert(n, Ty::Nat);
                }
            }
        }
    }
    let mut fx = Fx {
        strukt: si,
        ctx,
        lines: vec![],
        ind: 1,
        tmp: 0,
        locals,
        aliases,
        effectful: true,
        newtype: false,
        payload_of: HashMap::new(),
        extra: vec![],
        fname: format!("tick_{}", fname),
        dyn_down: false,
        loop_state: None,
        ret_mode: None,
    };
    fn tail(fx: &mut Fx, e: &Expr) -> Res<()> {
        match e {
            Expr::If(i) if !matches!(&*i.cond, Expr::Let(_)) => {
                let c = fx.expr(&i.cond)?;
                fx.emit(format!("if {} then", c));
                fx.ind += 1;
                tail_block(fx, &i.then_branch)?;
                fx.ind -= 1;
                match &i.else_branch {
                    Some((_, eb)) => {
                        fx.emit("else");
                        fx.ind += 1;
                        tail(fx, eb)?;
                        fx.ind -= 1;
                        Ok(())
                    }
                    None => bail("a value-producing `if` without else"),
                }
            }
            Expr::Block(b) => tail_block(fx, &b.block),
            _ => {
                let v = fx.expr(e)?;
                fx.emit(format!("ret := {}", v));
                Ok(())
            }
        }
    }
    fn tail_block(fx: &mut Fx, b: &Block) -> Res<()> {
        let n = b.stmts.len();
        for (k, st) in b.stmts.iter().enumerate() {
            match st {
                Stmt::Expr(e, None) if k + 1 == n => return tail(fx, e),
                _ => fx.stmt(st)?,
            }
        }
        bail("a block without a value")
    }
    tail_block(&mut fx, &f.block).map_err(|e| format!("tick fn {}: {}", fname, e))?;
    let mut d = format!(
        "def {}.tick_{} (self0 : {}) (down : Bool){} : Option ({} × Rs.Out × Bool) := do\n  let mut self_ := self0\n  let mut out : Rs.Out := []\n  let mut ret : Bool := false\n",
        obs, fname, obs, seq_param, obs
    );
    for l in fx.lines {
        d += &l;
        d.push('\n');
    }
    d += "  return (self_, out, ret)\n\n";
    Ok(d)
}

/// `impl Future for X { fn poll(self: Pin<&mut Self>, cx) -> Poll<Output> }` of the scheduler's own futures
/// (`Remote`, `OnceTask`, `RepeatTask`, `FutureTask`): a function of the state and of the ORACLE `futs` (what the
/// k-th poll of the wrapped future / timer answers), giving the new state, the events and the `Poll` it returns.
pub fn translate_poll_fn(items: &[Item], name: &str, ctx: &Ctx, hints: &HashMap<String, Ty>) -> Res<String> {
    let si = ctx.structs.get(name).ok_or(format!("struct {} not translated", name))?;
    let im = items
        .iter()
        .find_map(|i| match i {
            Item::Impl(im) if matches!(&im.trait_, Some(tr) if matches!(last_seg(&tr.0).as_str(), "Future" | "Stream")) && matches!(impl_target(&im.self_ty), Some((n, _, _)) if n == name) => Some(im),
            _ => None,
        })
        .ok_or(format!("impl Future / Stream for {} not found", name))?;
    let f = im
        .items
        .iter()
        .find_map(|it| match it {
            ImplItem::Fn(f) if f.sig.ident == "poll" || f.sig.ident == "poll_next" => Some(f),
            _ => None,
        })
        .ok_or("fn poll / poll_next not found")?;
    let pname = f.sig.ident.to_string();
    let mut g = generics_for(&im.generics, &["E".to_string(), "Err".to_string()], ctx, hints)?;
    // `Self::Output` / `Self::Item` in the declared result
    for it in &im.items {
        if let ImplItem::Type(t) = it {
            if let Ok(ty) = g.ty(&t.ty) {
                g.map.insert(format!("Self::{}", t.ident), ty);
            }
        }
    }
    let out_ty = match &f.sig.output {
        ReturnType::Type(_, t) => match g.ty(t)? {
            Ty::Poll(o) => *o,
            _ => return bail("poll does not return Poll<_>"),
        },
        _ => return bail("poll without result"),
    };
    let fut_out = si
        .fields
        .iter()
        .find_map(|(_, t)| match t {
            Ty::Fut(o) => Some((**o).clone()),
            _ => None,
        })
        .unwrap_or(Ty::Unit);
    let rt = format!("(Rs.Poll {})", out_ty.lean());
    let mut fx = Fx {
        strukt: si,
        ctx,
        lines: vec![],
        ind: 1,
        tmp: 0,
        locals: HashMap::new(),
        aliases: HashMap::new(),
        effectful: true,
        newtype: si.root_ty.is_some(),
        payload_of: HashMap::new(),
        extra: vec![],
        fname: pname.clone(),
        dyn_down: true,
        loop_state: None,
        ret_mode: Some(rt.clone()),
    };
    // the tail expression is the value handed back
    fn tail(fx: &mut Fx, e: &Expr) -> Res<()> {
        match e {
            Expr::Match(m) => {
                let t = fx.tyx(&m.expr);
                let scrut = fx.expr(&m.expr)?;
                fx.emit(format!("match {} with", scrut));
                for arm in &m.arms {
                    let p = fx.pat(&arm.pat)?;
                    let saved = fx.locals.clone();
                    fx.bind(&arm.pat, t.clone());
                    fx.emit(format!("| {} =>", p));
                    fx.ind += 2;
                    tail(fx, &arm.body)?;
                    fx.ind -= 2;
                    fx.locals = saved;
                }
                Ok(())
            }
            Expr::Block(b) => tail_block(fx, &b.block),
            Expr::If(i) if !matches!(&*i.cond, Expr::Let(_)) && i.else_branch.is_some() => {
                let c = fx.expr(&i.cond)?;
                fx.emit(format!("if {} then", c));
                fx.ind += 1;
                tail_block(fx, &i.then_branch)?;
                fx.ind -= 1;
                fx.emit("else");
                fx.ind += 1;
                tail(fx, &i.else_branch.as_ref().unwrap().1)?;
                fx.ind -= 1;
                Ok(())
            }
            Expr::Loop(_) => fx.expr_stmt(e),
            _ => {
                let v = fx.expr(e)?;
                fx.emit(format!("pollRet := {}", v));
                Ok(())
            }
        }
    }
    fn tail_block(fx: &mut Fx, b: &Block) -> Res<()> {
        let n = b.stmts.len();
        for (k, st) in b.stmts.iter().enumerate() {
            match st {
                Stmt::Expr(e, None) if k + 1 == n => return tail(fx, e),
                _ => fx.stmt(st)?,
            }
        }
        Ok(())
    }
    tail_block(&mut fx, &f.block).map_err(|e| format!("{}::{}: {}", name, pname, e))?;
    let has_loop = show_full(&f.block).contains("loop");
    let asks_down = show_full(&f.block).contains("is_finished");
    let mut d = String::new();
    for x in &fx.extra {
        d += x;
    }
    writeln!(
        d,
        "def {}.{} (self0 : {}) (futs : Nat → Rs.Poll {}){} : Option ({} × Rs.Out × {}) := do",
        name,
        pname,
        name,
        fut_out.lean(),
        format!("{}{}", if asks_down { " (downF : Rs.Out → Bool)" } else { "" }, if has_loop { " (fuel : Nat)" } else { "" }),
        name,
        rt
    )
    .unwrap();
    writeln!(d, "  let mut self_ := self0\n  let mut out : Rs.Out := []\n  let mut pc : Nat := 0\n  let mut pollRet : {} := Rs.Poll.pending", rt).unwrap();
    for l in fx.lines {
        d += &l;
        d.push('\n');
    }
    d += "  return (self_, out, pollRet)\n\n";
    Ok(d)
}

/// A struct without translated methods (the content of a shared cell, e.g. `ObserverData` of merge_all).
pub fn translate_plain_struct(items: &[Item], name: &str, ctx: &mut Ctx, hints: &HashMap<String, Ty>) -> Res<String> {
    let st = find_struct(items, name).ok_or(format!("struct {} not found", name))?;
    let mut g = generics_for(&st.generics, &["E".to_string(), "Err".to_string()], ctx, hints)?;
    g.known.push(name.to_string());
    let mut fields = vec![];
    match &st.fields {
        Fields::Named(nf) => {
            for f in &nf.named {
                if is_phantom(&f.ty) {
                    continue;
                }
                let n = f.ident.as_ref().unwrap().to_string();
                fields.push((n.clone(), g.ty(&f.ty).map_err(|e| format!("field {}: {}", n, e))?));
            }
        }
        Fields::Unnamed(u) if u.unnamed.len() == 1 => {
            // a newtype: the state is what it wraps
            let t = g.ty(&u.unnamed[0].ty).map_err(|e| format!("field 0: {}", e))?;
            let s = format!("abbrev {} := {}\n\n", name, t.lean());
            ctx.structs.insert(name.to_string(), StructInfo { name: name.to_string(), fields: vec![], methods: HashMap::new(), root_ty: Some(t), prefix: String::new(), cells: vec![] });
            return Ok(s);
        }
        _ => return bail("struct shape"),
    }
    let mut s = format!("structure {} where\n", name);
    for (n, t) in &fields {
        writeln!(s, "  {} : {}", ident(n), t.lean()).unwrap();
    }
    s.push('\n');
    ctx.structs.insert(name.to_string(), StructInfo { name: name.to_string(), fields, methods: HashMap::new(), root_ty: None, prefix: String::new(), cells: vec![] });
    Ok(s)
}

/// Translate one observer struct with its `impl Observer` and inherent helper methods.
pub fn translate_observer(items: &[Item], name: &str, ctx: &mut Ctx, hints: &HashMap<String, Ty>) -> Res<String> {
    // `RcObserver@X`: the slot observer (`impl_rc_observer!`) instantiated over the translated struct `X`
    // (`MutArc<Option<BufferObserver<..>>>` used as an observer); its Lean name is `SlotX`
    let (slot_over, lean_name): (Option<String>, String) = match name.strip_prefix("RcObserver@") {
        Some(x) => (Some(x.to_string()), format!("Slot{}", x)),
        None => (None, name.to_string()),
    };
    // `TaskHandle#NormalReturn`: only the impls whose self type mentions `NormalReturn` (one struct, several impls
    // of the same trait for different type arguments); the Lean name is `TaskHandleNormalReturn`
    let (name, impl_filter): (&str, Option<String>) = match name.split_once('#') {
        Some((a, b)) => (a, Some(b.to_string())),
        None => (name, None),
    };
    let lean_name = match &impl_filter {
        Some(f) => format!("{}{}", lean_name.split('#').next().unwrap(), f),
        None => lean_name,
    };
    let src_name = if slot_over.is_some() { "RcObserver" } else { name };
    let struct_src_name = name.to_string();
    let name: &str = &lean_name;
    let mut hints_owned: HashMap<String, Ty> = hints.clone();
    let pseudo = src_name == "RcObserver";
    let mut impls = impls_of(items, src_name);
    if let Some(f) = &impl_filter {
        impls.retain(|im| show_full(&im.self_ty).contains(f.as_str()) || im.trait_.is_none());
    }
    if let (Some(x), Some(im)) = (&slot_over, impls.first()) {
        // the observer parameter of the macro's impl (`impl<Item, Err, O> Observer<Item, Err> for $rc<Option<O>>`)
        if let Some((_, a, _)) = impl_target(&im.self_ty) {
            if let Some(Type::Path(tp)) = a.first() {
                hints_owned.insert(last_seg(&tp.path), Ty::Named(x.clone()));
            }
        }
    }
    let hints = &hints_owned;
    let obs_impl = impls
        .iter()
        .find(|im| matches!(&im.trait_, Some(tr) if TRAITS.contains(&last_seg(&tr.0).as_str())))
        .or_else(|| impls.iter().find(|im| im.trait_.is_none()))
        .ok_or(format!("impl Observer / Subscription for {} not found", name))?;
    let mut err_names = vec![];
    if let Some(tr) = &obs_impl.trait_ {
        let targs = type_args(&tr.0);
        if targs.len() == 2 {
            if let Type::Path(tp) = targs[1] {
                err_names.push(last_seg(&tp.path));
            }
        }
    }
    ctx.structs.entry(name.to_string()).or_insert(StructInfo {
        name: name.to_string(),
        fields: vec![],
        methods: HashMap::new(),
        root_ty: None,
        prefix: String::new(),
        cells: vec![],
    });
    let g = generics_for(&obs_impl.generics, &err_names, ctx, hints)?;
    let mut fields = vec![];
    let mut cells: Vec<String> = vec![];
    let mut root_ty: Option<Ty> = None;
    let mut newtype = false;
    if let Some(x) = &slot_over {
        root_ty = Some(Ty::Opt(Box::new(Ty::Named(x.clone()))));
    } else if pseudo {
        root_ty = Some(Ty::Opt(Box::new(Ty::Obs)));
    } else if name == "RcSubscription" {
        // `impl<T, S> Subscription for T where T: RcDerefMut<Target = Option<S>>, S: Subscription`: a cell holding
        // an optional subscription (the handler cells of debounce / throttle / buffer_with_time)
        root_ty = Some(Ty::Opt(Box::new(Ty::Sub)));
    } else {
        let st = find_struct(items, &struct_src_name).ok_or(format!("struct {} not found", struct_src_name))?;
        // the struct's own parameter names ↦ the impl's arguments
        let (_, iargs, _) = impl_target(&obs_impl.self_ty).unwrap();
        let sparams: Vec<String> = st
            .generics
            .params
            .iter()
            .filter_map(|p| if let GenericParam::Type(t) = p { Some(t.ident.to_string()) } else { None })
            .collect();
        let mut sg = generics_for(&syn::Generics::default(), &[], ctx, &HashMap::new())?;
        for (p, a) in sparams.iter().zip(iargs.iter()) {
            match g.ty(a) {
                Ok(t) => {
                    sg.map.insert(p.clone(), t);
                }
                Err(e) => {
                    if !is_phantom(a) {
                        return bail(format!("type argument `{}`: {}", show(*a), e));
                    }
                }
            }
        }
        match &st.fields {
            Fields::Named(nf) => {
                for f in &nf.named {
                    if is_phantom(&f.ty) {
                        continue;
                    }
                    let n = f.ident.as_ref().unwrap().to_string();
                    let t = sg.ty(&f.ty).map_err(|e| format!("field {}: {}", n, e))?;
                    if is_cell_type(&f.ty, ctx) {
                        cells.push(n.clone());
                    }
                    fields.push((n, t));
                }
            }
            Fields::Unnamed(u) if !u.unnamed.is_empty() && u.unnamed.iter().skip(1).all(|f| is_phantom(&f.ty)) => {
                // newtype around a cell: the state IS what the cell holds
                newtype = true;
                root_ty = Some(sg.ty(&u.unnamed[0].ty).map_err(|e| format!("field 0: {}", e))?);
            }
            Fields::Unit => {
                newtype = true;
                root_ty = Some(Ty::Unit);
            }
            _ => return bail("struct shape"),
        }
    }
    // collect the functions: Observer methods + inherent methods
    let mut units: Vec<FnUnit> = vec![];
    for im in &impls {
        let is_obs = matches!(&im.trait_, Some(tr) if TRAITS.contains(&last_seg(&tr.0).as_str()));
        if im.trait_.is_some() && !is_obs {
            continue;
        }
        for it in &im.items {
            if let ImplItem::Fn(f) = it {
                let n = f.sig.ident.to_string();
                if n == "new" {
                    continue;
                }
                units.push(FnUnit { im, f, free: false });
            }
        }
    }
    // free helper functions whose first parameter is `&mut X<..>` / `&X<..>`
    let free_fns: Vec<syn::ImplItemFn> = items
        .iter()
        .filter_map(|i| match i {
            Item::Fn(f) => match f.sig.inputs.first() {
                Some(FnArg::Typed(pt)) => match &*pt.ty {
                    Type::Reference(r) => match &*r.elem {
                        Type::Path(tp) if last_seg(&tp.path) == struct_src_name => Some(syn::ImplItemFn {
                            attrs: vec![],
                            vis: f.vis.clone(),
                            modifiers: f.modifiers.clone(),
                            sig: f.sig.clone(),
                            block: (*f.block).clone(),
                        }),
                        _ => None,
                    },
                    _ => None,
                },
                _ => None,
            },
            _ => None,
        })
        .collect();
    for f in &free_fns {
        units.push(FnUnit { im: obs_impl, f, free: true });
    }
    // signatures first (methods may call each other)
    let mut info = StructInfo { name: name.to_string(), fields, methods: HashMap::new(), root_ty: root_ty.clone(), prefix: String::new(), cells };
    let mut sigs = vec![];
    for u in &units {
        let fname = u.f.sig.ident.to_string();
        // the error type parameter of THIS impl: second argument of Observer / Observable / Publisher
        let mut errs_here = err_names.clone();
        if let Some(tr) = &u.im.trait_ {
            let ta = type_args(&tr.0);
            if ta.len() >= 2 && matches!(last_seg(&tr.0).as_str(), "Observer" | "Observable" | "Publisher") {
                if let Type::Path(tp) = ta[1] {
                    errs_here.push(last_seg(&tp.path));
                }
            }
        }
        let gg = generics_for(&merge_generics(&u.im.generics, &u.f.sig.generics), &errs_here, ctx, hints)?;
        let recv = u.f.sig.inputs.first();
        let by_ref_only = matches!(recv, Some(FnArg::Receiver(r)) if matches!(&r.kind, syn::ReceiverKind::Reference(_, _, None)))
            || (u.free && matches!(recv, Some(FnArg::Typed(pt)) if matches!(&*pt.ty, Type::Reference(r) if r.mutability.is_none())));
        if !matches!(recv, Some(FnArg::Receiver(_))) && !u.free {
            continue;
        }
        let mut has_ret = !matches!(u.f.sig.output, ReturnType::Default);
        let subscribe = fname == "actual_subscribe";
        let is_source = subscribe && !["Subscriber", "Box :: new", "actual_subscribe"].iter().any(|k| show_full(&u.f.block).contains(k));
        if subscribe {
            has_ret = false; // the subscription handed back is the new subscriber itself (`newPub`)
        }
        let consumes_self = matches!(recv, Some(FnArg::Receiver(r)) if matches!(&r.kind, syn::ReceiverKind::Value));
        if has_ret && consumes_self && fname != "is_finished" && fname != "is_closed" {
            // `fn connect(self) -> Unsub`: the state is used up; what it hands back is a subscription the caller keeps
            // (callers inside translated code must not look at it)
            has_ret = false;
        }
        if has_ret && !by_ref_only {
            return bail(format!("{}::{}: a method that both mutates and returns a value", name, fname));
        }
        let body_txt = show_full(&u.f.block);
        let needs_closed = body_txt.contains("is_closed")
            || (fname == "is_closed" && u.im.trait_.is_some())
            || (body_txt.contains("subject . is_empty ()") && info.fields.iter().any(|(n, t)| n == "subject" && *t == Ty::Grp));
        let needs_down = (has_ret && (body_txt.contains("is_finished") || fname == "is_finished"))
            || body_txt.contains("unbounded_send")
            || (has_ret && body_txt.contains("sender . is_closed"));
        let ret = match &u.f.sig.output {
            ReturnType::Type(_, t) if has_ret => gg.ty(t).map_err(|e| format!("{}::{}: {}", name, fname, e))?,
            _ => Ty::Unit,
        };
        let mut params = vec![];
        for (k, a) in u.f.sig.inputs.iter().skip(1).enumerate() {
            if let FnArg::Typed(pt) = a {
                let pn = match &*pt.pat {
                    Pat::Ident(pi) => ident(&pi.ident.to_string()),
                    Pat::Wild(_) => format!("_x{}", k),
                    _ => return bail(format!("{}::{}: parameter pattern", name, fname)),
                };
                let ty = gg.ty(&pt.ty).map_err(|e| format!("{}::{}: {}", name, fname, e))?;
                params.push((pn, ty));
            }
        }
        info.methods.insert(
            fname.clone(),
            MethodInfo { effectful: !has_ret, params: params.clone(), needs_closed, needs_down, needs_pub: subscribe && !is_source, needs_grp: body_txt.contains("or_insert_with"), needs_handle: body_txt.contains(". schedule ("), ret: ret.clone(), partial: false, consumes: matches!(recv, Some(FnArg::Receiver(r)) if matches!(&r.kind, syn::ReceiverKind::Value)), dyn_down: subscribe && params.iter().any(|(_, t)| *t == Ty::Obs) && body_txt.contains("is_finished") },
        );
        sigs.push((fname, params, !has_ret));
    }
    // a method that calls a method needing `down` needs it too
    loop {
        let need: Vec<String> = info.methods.iter().filter(|(_, m)| m.needs_down).map(|(k, _)| k.clone()).collect();
        let mut changed = false;
        for u in &units {
            let fname = u.f.sig.ident.to_string();
            let body = show_full(&u.f.block);
            if let Some(mi) = info.methods.get_mut(&fname) {
                if !mi.needs_down && need.iter().any(|n| n != &fname && (body.contains(&format!(". {} (", n)) || body.contains(&format!(" {} (", n)))) {
                    // (only for the channel observers: the ordinary observers ask `is_finished` of a downstream)
                    if body.contains("complete") && need.contains(&"complete".to_string()) && info.fields.iter().any(|(_, t)| *t == Ty::Chan) {
                        mi.needs_down = true;
                        changed = true;
                    }
                }
            }
        }
        if !changed {
            break;
        }
    }
    let mut s = String::new();
    let state_ty = match &root_ty {
        Some(t) => {
            writeln!(s, "abbrev {} := {}\n", name, t.lean()).unwrap();
            name.to_string()
        }
        None => {
            writeln!(s, "structure {} where", name).unwrap();
            for (n, t) in &info.fields {
                writeln!(s, "  {} : {}", ident(n), t.lean()).unwrap();
            }
            writeln!(s).unwrap();
            name.to_string()
        }
    };
    // register (signatures) before translating the bodies: methods may call each other
    ctx.structs.insert(
        name.to_string(),
        StructInfo {
            name: info.name.clone(),
            fields: info.fields.clone(),
            methods: info.methods.iter().map(|(k, v)| (k.clone(), v.clone())).collect(),
            root_ty: info.root_ty.clone(),
            prefix: String::new(),
            cells: info.cells.clone(),
        },
    );
    let mut errors = vec![];
    let mut partials: Vec<String> = vec![];
    let mut order: Vec<usize> = (0..units.len()).collect();
    order.sort_by_key(|i| units[*i].im.trait_.is_some() && !units[*i].free);
    // a method that calls another one of the struct comes after it (Lean wants definitions before their uses)
    {
        let names: Vec<String> = units.iter().map(|u| u.f.sig.ident.to_string()).collect();
        let bodies: Vec<String> = units.iter().map(|u| show_full(&u.f.block)).collect();
        let mut sorted: Vec<usize> = vec![];
        let mut rest = order.clone();
        while !rest.is_empty() {
            let pos = rest.iter().position(|i| {
                rest.iter().all(|j| {
                    j == i || names[*j] == names[*i] || !(bodies[*i].contains(&format!(". {} (", names[*j])) || bodies[*i].contains(&format!(" {} (", names[*j])) || bodies[*i].starts_with(&format!("{{ {} (", names[*j])))
                })
            });
            let k = pos.unwrap_or(0);
            sorted.push(rest.remove(k));
        }
        order = sorted;
    }
    let mut done: Vec<String> = vec![];
    for i in order {
        let u = &units[i];
        let fname = u.f.sig.ident.to_string();
        if done.contains(&fname) {
            continue; // the thread-safe twin of a hand-duplicated impl (same name): first one wins
        }
        let Some((_, params, effectful)) = sigs.iter().find(|x| x.0 == fname) else { continue };
        done.push(fname.clone());
        let mut ps: String = params.iter().map(|(n, t)| format!(" ({} : {})", n, t.lean())).collect();
        let mi = info.methods[&fname].clone();
        if mi.needs_pub {
            ps += " (newPub : Rs.Pub)";
        }
        if mi.needs_grp {
            ps += " (newGrp : Rs.Grp)";
        }
        if mi.needs_handle {
            ps += " (newHandle : Rs.Sub)";
        }
        if mi.needs_down {
            ps += " (down : Bool)";
        }
        if mi.dyn_down {
            ps += " (downF : Rs.Out → Bool)";
        }
        if mi.needs_closed {
            ps += " (closedOf : Nat → Bool)";
        }
        let mut fx = Fx {
            strukt: &info,
            ctx,
            lines: vec![],
            ind: 1,
            tmp: 0,
            locals: params.iter().cloned().collect(),
            aliases: {
                let mut a = HashMap::new();
                if u.free {
                    if let Some(FnArg::Typed(pt)) = u.f.sig.inputs.first() {
                        if let Pat::Ident(pi) = &*pt.pat {
                            a.insert(ident(&pi.ident.to_string()), Place { root_self: true, local: String::new(), path: vec![] });
                        }
                    }
                }
                a
            },
            effectful: *effectful,
            newtype,
            payload_of: HashMap::new(),
            extra: vec![],
            fname: fname.clone(),
            dyn_down: mi.dyn_down,
            loop_state: None,
            ret_mode: None,
        };
        if *effectful {
            let mut ok = true;
            for st in &u.f.block.stmts {
                if let Err(e) = fx.stmt(st) {
                    errors.push(format!("{}::{}: {}", name, fname, e));
                    ok = false;
                    break;
                }
            }
            if ok {
                for x in &fx.extra {
                    s += x;
                }
                writeln!(s, "def {}.{} (self0 : {}){} : Option ({} × Rs.Out) := do", name, fname, state_ty, ps, state_ty).unwrap();
                writeln!(s, "  let mut self_ := self0").unwrap();
                writeln!(s, "  let mut out : Rs.Out := []").unwrap();
                for l in fx.lines {
                    writeln!(s, "{}", l).unwrap();
                }
                writeln!(s, "  return (self_, out)\n").unwrap();
            }
        } else {
            let down = "";
            match fx.pure_block(&u.f.block) {
                Ok(v) => writeln!(s, "def {}.{} (self_ : {}){}{} : {} :=\n  {}\n", name, fname, state_ty, ps, down, mi.ret.lean(), v).unwrap(),
                Err(e1) => {
                    // a query that can panic (`unwrap()`): the same in the Option monad
                    let mut fx2 = Fx { strukt: &info, ctx, lines: vec![], ind: 1, tmp: 0, locals: params.iter().cloned().collect(), aliases: HashMap::new(), effectful: false, newtype, payload_of: HashMap::new(), extra: vec![], fname: fname.clone(), dyn_down: false, loop_state: None, ret_mode: None };
                    let n = u.f.block.stmts.len();
                    let mut res: Res<String> = bail("empty body");
                    for (k, st) in u.f.block.stmts.iter().enumerate() {
                        match st {
                            Stmt::Expr(e, None) if k + 1 == n => res = fx2.expr(e),
                            _ => {
                                if let Err(e) = fx2.stmt(st) {
                                    res = Err(e);
                                    break;
                                }
                            }
                        }
                    }
                    match res {
                        Ok(v) => {
                            partials.push(fname.clone());
                            writeln!(s, "def {}.{} (self_ : {}){}{} : Option {} := do", name, fname, state_ty, ps, down, mi.ret.lean()).unwrap();
                            for l in fx2.lines {
                                writeln!(s, "{}", l).unwrap();
                            }
                            writeln!(s, "  return {}\n", v).unwrap();
                        }
                        Err(e2) => errors.push(format!("{}::{}: {} / {}", name, fname, e1, e2)),
                    }
                }
            }
        }
    }
    if let Some(si) = ctx.structs.get_mut(name) {
        for p in &partials {
            if let Some(m) = si.methods.get_mut(p) {
                m.partial = true;
            }
        }
    }
    if errors.is_empty() {
        Ok(s)
    } else {
        for e in &errors {
            writeln!(s, "-- TRANSLATION FAILED: {}", e.replace('\n', " ")).unwrap();
        }
        Err(format!("{}\n{}", errors.join("; "), s))
    }
}

// ====================================================================== initial states (actual_subscribe)

struct InitFx<'a> {
    op_fields: HashMap<String, Ty>,
    used: Vec<(String, Ty)>,
    ctx: &'a Ctx,
    items: &'a [Item],
    /// locals bound by `let x = self.f;` / `let Self { a, b } = self;` / parameters of `new`
    locals: HashMap<String, String>,
    obs_locals: Vec<String>,
    /// every other `let x = e;` of actual_subscribe
    lets: HashMap<String, Expr>,
}

impl<'a> InitFx<'a> {
    fn param(&mut self, f: &str, want: &Ty) -> Res<String> {
        let mut t = self.op_fields.get(f).ok_or(format!("operator field `{}` has no understood type", f))?.clone();
        if t == Ty::Val && matches!(want, Ty::Fun(..) | Ty::Counter) {
            t = want.clone(); // the closure's signature is only known where it is used
        }
        let n = ident(f);
        if !self.used.iter().any(|(x, _)| x == &n) {
            self.used.push((n.clone(), t));
        }
        Ok(n)
    }

    fn expr(&mut self, e: &Expr, want: &Ty) -> Res<String> {
        if *want == Ty::Sub {
            return Ok("(Rs.Sub.mk 0)".into()); // the subscription the source hands back
        }
        match e {
            Expr::Paren(p) => self.expr(&p.expr, want),
            Expr::Reference(r) => self.expr(&r.expr, want),
            Expr::Lit(l) => match &l.lit {
                Lit::Int(i) => Ok(i.base10_digits().to_string()),
                Lit::Bool(b) => Ok(if b.value { "true".into() } else { "false".into() }),
                _ => bail("literal"),
            },
            Expr::Path(p) if p.path.segments.len() == 1 => {
                let n = last_seg(&p.path);
                if n == "None" {
                    return Ok("none".into());
                }
                if *want == Ty::Obs {
                    return Ok("Rs.Obs.mk".into());
                }
                if let Some(f) = self.locals.get(&n).cloned() {
                    return self.param(&f, want);
                }
                if let Some(e2) = self.lets.remove(&n) {
                    let r = self.expr(&e2, want);
                    self.lets.insert(n.clone(), e2);
                    return r;
                }
                bail(format!("local `{}` in an initial state", n))
            }
            Expr::Field(f) if Fx::is_self(&f.base) => {
                if let Member::Named(n) = &f.member {
                    self.param(&n.to_string(), want)
                } else {
                    bail("tuple field of the operator")
                }
            }
            Expr::Call(c) => {
                if let Expr::Path(p) = &*c.func {
                    let n = last_seg(&p.path);
                    match (n.as_str(), c.args.len()) {
                        ("Some", 1) => {
                            let inner = match want {
                                Ty::Opt(t) => (**t).clone(),
                                _ => return bail("Some(..) where no option is expected"),
                            };
                            return Ok(format!("(some {})", self.expr(&c.args[0], &inner)?));
                        }
                        ("new", 1)
                            if p.path.segments.len() == 2
                                && (CELLS.contains(&p.path.segments[0].ident.to_string().as_str()) || p.path.segments[0].ident == "AtomicBool") =>
                        {
                            return self.expr(&c.args[0], want)
                        }
                        ("new", 0) | ("default", 0) | ("with_capacity", 1) => {
                            return Ok(match want {
                                Ty::List(_) => "[]".into(),
                                _ => "Rs.dflt".into(),
                            })
                        }
                        ("own", 1) => return self.expr(&c.args[0], want),
                        _ => {}
                    }
                }
                bail(format!("initialiser `{}`", show(e)))
            }
            Expr::MethodCall(m) if m.method == "clone" && m.args.is_empty() => self.expr(&m.receiver, want),
            Expr::Macro(m) if last_seg(&m.mac.path) == "vec" && m.mac.tokens.is_empty() => Ok("Rs.dflt".into()),
            Expr::Tuple(t) => {
                let ws: Vec<Ty> = match want {
                    Ty::Tuple(ts) if ts.len() == t.elems.len() => ts.clone(),
                    _ => return bail("tuple initialiser"),
                };
                let parts = t.elems.iter().zip(ws.iter()).map(|(x, w)| self.expr(x, w)).collect::<Res<Vec<_>>>()?;
                Ok(format!("({})", parts.join(", ")))
            }
            Expr::Struct(st) => {
                let n = last_seg(&st.path);
                let n = if n == "Self" { if let Ty::Named(w) = want { w.clone() } else { n } } else { n };
                let si = self.ctx.structs.get(&n).ok_or(format!("struct literal of `{}`", n))?;
                if st.rest.is_some() {
                    return bail("struct update syntax");
                }
                let mut parts = vec![];
                for fv in &st.fields {
                    let fname = match &fv.member {
                        Member::Named(i) => i.to_string(),
                        _ => return bail("tuple struct literal"),
                    };
                    let Some(ft) = si.field_ty(&fname).cloned() else { continue }; // phantom field
                    let v = self.expr(&fv.expr, &ft)?;
                    parts.push(format!("{} := {}", ident(&fname), v));
                }
                Ok(format!("{{ {} : {} }}", parts.join(", "), n))
            }
            _ => bail(format!("initialiser `{}`", show(e))),
        }
    }
}

fn find_struct_lit<'e>(e: &'e Expr, name: &str) -> Option<&'e syn::ExprStruct> {
    struct V<'n, 'e> {
        name: &'n str,
        found: Option<&'e syn::ExprStruct>,
    }
    fn walk<'n, 'e>(v: &mut V<'n, 'e>, e: &'e Expr) {
        if v.found.is_some() {
            return;
        }
        match e {
            Expr::Struct(s) => {
                let n = last_seg(&s.path);
                if n == v.name || n == "Self" {
                    v.found = Some(s);
                    return;
                }
                for f in &s.fields {
                    walk(v, &f.expr);
                }
            }
            Expr::Call(c) => {
                for a in &c.args {
                    walk(v, a);
                }
            }
            Expr::MethodCall(m) => {
                walk(v, &m.receiver);
                for a in &m.args {
                    walk(v, a);
                }
            }
            Expr::Paren(p) => walk(v, &p.expr),
            Expr::Reference(p) => walk(v, &p.expr),
            Expr::Block(b) => walk_block(v, &b.block),
            Expr::Tuple(t) => t.elems.iter().for_each(|x| walk(v, x)),
            _ => {}
        }
    }
    fn walk_block<'n, 'e>(v: &mut V<'n, 'e>, b: &'e Block) {
        for s in &b.stmts {
            match s {
                Stmt::Local(l) => {
                    if let Some(i) = &l.init {
                        walk(v, &i.expr);
                    }
                }
                Stmt::Expr(e, _) => walk(v, e),
                _ => {}
            }
        }
    }
    let mut v = V { name, found: None };
    walk(&mut v, e);
    v.found
}

/// `def XObserver.init (params…) : XObserver` from the struct literal inside `XOp::actual_subscribe`
/// (or, when `actual_subscribe` calls `XObserver::new(..)`, from the literal inside that `new`).
pub fn translate_init(items: &[Item], op: &str, obs: &str, ctx: &Ctx, hints: &HashMap<String, Ty>) -> Res<String> {
    if op == obs {
        // `impl Default for X { fn default() -> Self { Self { .. } } }`
        let f = impls_of(items, op)
            .into_iter()
            .filter(|im| matches!(&im.trait_, Some(tr) if last_seg(&tr.0) == "Default"))
            .flat_map(|im| im.items.iter())
            .find_map(|it| match it {
                ImplItem::Fn(f) if f.sig.ident == "default" => Some(f),
                _ => None,
            })
            .ok_or(format!("impl Default for {} not found", op))?;
        let mut fx = InitFx { op_fields: HashMap::new(), used: vec![], ctx, items, locals: HashMap::new(), obs_locals: vec![], lets: HashMap::new() };
        let body = Expr::Block(syn::ExprBlock { attrs: vec![], label: None, block: f.block.clone() });
        let v = match find_struct_lit(&body, obs) {
            Some(lit) => fx.expr(&Expr::Struct(lit.clone()), &Ty::Named(obs.to_string()))?,
            None => {
                // newtype: `Self(MutRc::own(Some(<_>::default())))`
                let root = ctx.structs.get(obs).and_then(|si| si.root_ty.clone()).ok_or(format!("no struct literal in {}::default", obs))?;
                let call = f
                    .block
                    .stmts
                    .iter()
                    .find_map(|st| match st {
                        Stmt::Expr(Expr::Call(c), _) if matches!(&*c.func, Expr::Path(p) if last_seg(&p.path) == "Self" || last_seg(&p.path) == obs) => Some(c),
                        _ => None,
                    })
                    .ok_or(format!("no `Self(..)` in {}::default", obs))?;
                fx.expr(&call.args[0], &root)?
            }
        };
        let _ = hints;
        return Ok(format!("def {}.init : {} :=\n  {}\n\n", obs, obs, v));
    }
    let st = find_struct(items, op).ok_or(format!("struct {} not found", op))?;
    let im = impls_of(items, op)
        .into_iter()
        .find(|im| matches!(&im.trait_, Some(tr) if last_seg(&tr.0) == "Observable"))
        .ok_or(format!("impl Observable for {} not found", op))?;
    let tr = &im.trait_.as_ref().unwrap().0;
    let targs = type_args(tr);
    let mut err_names = vec![];
    if targs.len() >= 2 {
        if let Type::Path(tp) = targs[1] {
            err_names.push(last_seg(&tp.path));
        }
    }
    let g = generics_for(&im.generics, &err_names, ctx, hints)?;
    let (_, iargs, _) = impl_target(&im.self_ty).unwrap();
    let sparams: Vec<String> = st
        .generics
        .params
        .iter()
        .filter_map(|p| if let GenericParam::Type(t) = p { Some(t.ident.to_string()) } else { None })
        .collect();
    let mut sg = generics_for(&syn::Generics::default(), &[], ctx, &HashMap::new())?;
    for (p, a) in sparams.iter().zip(iargs.iter()) {
        if let Ok(t) = g.ty(a) {
            sg.map.insert(p.clone(), t);
        }
    }
    let mut op_fields = HashMap::new();
    if let Fields::Named(nf) = &st.fields {
        for f in &nf.named {
            if let Ok(t) = sg.ty(&f.ty) {
                op_fields.insert(f.ident.as_ref().unwrap().to_string(), t);
            }
        }
    }
    let f = im
        .items
        .iter()
        .find_map(|it| match it {
            ImplItem::Fn(f) if f.sig.ident == "actual_subscribe" => Some(f),
            _ => None,
        })
        .ok_or("actual_subscribe not found")?;
    let mut fx = InitFx { op_fields, used: vec![], ctx, items, locals: HashMap::new(), obs_locals: vec![], lets: HashMap::new() };
    let _ = (&fx.items, &fx.obs_locals);
    for s in &f.block.stmts {
        if let Stmt::Local(l) = s {
            if let (Pat::Struct(ps), Some(init)) = (&l.pat, &l.init) {
                if Fx::is_self(&init.expr) {
                    for fp in &ps.fields {
                        if let (Member::Named(n), Pat::Ident(pi)) = (&fp.member, &*fp.pat) {
                            fx.locals.insert(pi.ident.to_string(), n.to_string());
                        }
                    }
                }
            }
            if let (Pat::Ident(pi), Some(init)) = (&l.pat, &l.init) {
                if !matches!(&*init.expr, Expr::Field(_)) && pi.ident != "observer" {
                    fx.lets.insert(pi.ident.to_string(), (*init.expr).clone());
                }
                if let Expr::Field(fe) = &*init.expr {
                    if Fx::is_self(&fe.base) {
                        if let Member::Named(n) = &fe.member {
                            fx.locals.insert(pi.ident.to_string(), n.to_string());
                        }
                    }
                }
            }
        }
    }
    let body = Expr::Block(syn::ExprBlock { attrs: vec![], label: None, block: f.block.clone() });
    let want = Ty::Named(obs.to_string());
    let v = match find_struct_lit(&body, obs) {
        Some(lit) => fx.expr(&Expr::Struct(lit.clone()), &want)?,
        None => {
            // `XObserver::new(observer, self.a, ..)`: the literal lives in the inherent `new`
            let newf = impls_of(items, obs)
                .into_iter()
                .filter(|im| im.trait_.is_none())
                .flat_map(|im| im.items.iter())
                .find_map(|it| match it {
                    ImplItem::Fn(f) if f.sig.ident == "new" => Some(f),
                    _ => None,
                })
                .ok_or(format!("no `{} {{ .. }}` literal in {}::actual_subscribe and no {}::new", obs, op, obs))?;
            // find the call `XObserver::new(args)` to map parameters to operator fields
            struct C<'e> {
                obs: String,
                found: Option<&'e syn::ExprCall>,
            }
            fn walk<'e>(c: &mut C<'e>, e: &'e Expr) {
                if c.found.is_some() {
                    return;
                }
                match e {
                    Expr::Call(call) => {
                        if let Expr::Path(p) = &*call.func {
                            let segs: Vec<String> = p.path.segments.iter().map(|s| s.ident.to_string()).collect();
                            if segs.len() == 2 && segs[0] == c.obs && segs[1] == "new" {
                                c.found = Some(call);
                                return;
                            }
                        }
                        for a in &call.args {
                            walk(c, a);
                        }
                    }
                    Expr::MethodCall(m) => {
                        walk(c, &m.receiver);
                        for a in &m.args {
                            walk(c, a);
                        }
                    }
                    Expr::Paren(p) => walk(c, &p.expr),
                    Expr::Block(b) => {
                        for s in &b.block.stmts {
                            match s {
                                Stmt::Local(l) => {
                                    if let Some(i) = &l.init {
                                        walk(c, &i.expr);
                                    }
                                }
                                Stmt::Expr(e, _) => walk(c, e),
                                _ => {}
                            }
                        }
                    }
                    _ => {}
                }
            }
            let mut c = C { obs: obs.to_string(), found: None };
            walk(&mut c, &body);
            let call = c.found.ok_or(format!("no `{}::new(..)` call in {}::actual_subscribe", obs, op))?;
            // parameters of `new` ↦ the argument expressions (operator fields)
            let pnames: Vec<String> = newf
                .sig
                .inputs
                .iter()
                .filter_map(|a| if let FnArg::Typed(pt) = a { if let Pat::Ident(pi) = &*pt.pat { Some(pi.ident.to_string()) } else { None } } else { None })
                .collect();
            for (pn, arg) in pnames.iter().zip(call.args.iter()) {
                if let Expr::Field(fe) = arg {
                    if Fx::is_self(&fe.base) {
                        if let Member::Named(n) = &fe.member {
                            fx.locals.insert(pn.clone(), n.to_string());
                        }
                    }
                }
            }
            let nb = Expr::Block(syn::ExprBlock { attrs: vec![], label: None, block: newf.block.clone() });
            let lit = find_struct_lit(&nb, obs).ok_or(format!("no struct literal in {}::new", obs))?;
            fx.expr(&Expr::Struct(lit.clone()), &want)?
        }
    };
    let ps: String = fx.used.iter().map(|(n, t)| format!(" ({} : {})", n, t.lean())).collect();
    Ok(format!("def {}.init{} : {} :=\n  {}\n\n", obs, ps, obs, v))
}

// ====================================================================== wiring (actual_subscribe)

fn norm_tokens<T: quote::ToTokens>(t: &T) -> String {
    let s = quote::quote!(#t).to_string();
    let s = s.replace(". clone ()", "").replace(" :: ", "::").replace(" . ", ".").replace(" (", "(").replace("( ", "(").replace(" )", ")").replace(" ,", ",");
    s.split_whitespace().collect::<Vec<_>>().join(" ")
}

/// The sharing topology an operator's `actual_subscribe` builds, as data: the cells it allocates (with their
/// initial contents), which field of which observer holds which cell, and the order in which the inputs are
/// subscribed.  The tie theorems pin these lists (`GenTie/Wiring.lean`).
pub fn translate_wiring(items: &[Item], op: &str, observers: &[&str]) -> Res<String> {
    let im = impls_of(items, op)
        .into_iter()
        .find(|im| matches!(&im.trait_, Some(tr) if last_seg(&tr.0) == "Observable"))
        .ok_or(format!("impl Observable for {} not found", op))?;
    let f = im
        .items
        .iter()
        .find_map(|it| match it {
            ImplItem::Fn(f) if f.sig.ident == "actual_subscribe" => Some(f),
            _ => None,
        })
        .ok_or("actual_subscribe not found")?;
    struct W<'o> {
        observers: &'o [&'o str],
        cells: Vec<(String, String)>,
        views: Vec<(String, String, String)>,
        order: Vec<(String, String)>,
    }
    fn walk(w: &mut W, e: &Expr) {
        match e {
            Expr::MethodCall(m) => {
                walk(w, &m.receiver);
                for a in &m.args {
                    walk(w, a);
                }
                if m.method == "actual_subscribe" && m.args.len() == 1 {
                    w.order.push((norm_tokens(&*m.receiver), norm_tokens(&m.args[0])));
                }
            }
            Expr::Call(c) => {
                for a in &c.args {
                    walk(w, a);
                }
                if let Expr::Path(p) = &*c.func {
                    let n = last_seg(&p.path);
                    if p.path.segments.len() == 1 && w.observers.contains(&n.as_str()) {
                        for (i, a) in c.args.iter().enumerate() {
                            w.views.push((n.clone(), i.to_string(), norm_tokens(a)));
                        }
                    }
                }
            }
            Expr::Struct(st) => {
                let n = last_seg(&st.path);
                for fv in &st.fields {
                    walk(w, &fv.expr);
                    if let Member::Named(i) = &fv.member {
                        w.views.push((n.clone(), i.to_string(), norm_tokens(&fv.expr)));
                    }
                }
            }
            Expr::Paren(p) => walk(w, &p.expr),
            Expr::Reference(p) => walk(w, &p.expr),
            Expr::Tuple(t) => t.elems.iter().for_each(|x| walk(w, x)),
            Expr::Block(b) => walk_block(w, &b.block),
            _ => {}
        }
    }
    fn walk_block(w: &mut W, b: &Block) {
        for s in &b.stmts {
            match s {
                Stmt::Local(l) => {
                    if let Some(i) = &l.init {
                        walk(w, &i.expr);
                        let mut pp = &l.pat;
                        if let Pat::Type(pt) = pp {
                            pp = &pt.pat;
                        }
                        if let Pat::Ident(pi) = pp {
                            w.cells.push((pi.ident.to_string(), norm_tokens(&*i.expr)));
                        }
                    }
                }
                Stmt::Expr(e, _) => walk(w, e),
                _ => {}
            }
        }
    }
    let mut w = W { observers, cells: vec![], views: vec![], order: vec![] };
    walk_block(&mut w, &f.block);
    let esc = |x: &str| x.replace('\\', "\\\\").replace('"', "\\\"");
    let mut s = String::new();
    writeln!(s, "/-- `let x = e;` of `{}::actual_subscribe`, in order -/", op).unwrap();
    writeln!(s, "def {}.lets : List (String × String) :=\n  [{}]\n", op, w.cells.iter().map(|(a, b)| format!("(\"{}\", \"{}\")", esc(a), esc(b))).collect::<Vec<_>>().join(",\n   ")).unwrap();
    writeln!(s, "/-- (observer, field, what it is initialised with) -/").unwrap();
    writeln!(s, "def {}.views : List (String × String × String) :=\n  [{}]\n", op, w.views.iter().map(|(a, b, c)| format!("(\"{}\", \"{}\", \"{}\")", esc(a), esc(b), esc(c))).collect::<Vec<_>>().join(",\n   ")).unwrap();
    writeln!(s, "/-- (input, the observer handed to it), in subscription order -/").unwrap();
    writeln!(s, "def {}.order : List (String × String) :=\n  [{}]\n", op, w.order.iter().map(|(a, b)| format!("(\"{}\", \"{}\")", esc(a), esc(b))).collect::<Vec<_>>().join(",\n   ")).unwrap();
    Ok(s)
}

// ====================================================================== macro_rules! expansion

fn subst(ts: TokenStream, map: &HashMap<String, TokenStream>) -> TokenStream {
    let mut out = TokenStream::new();
    let mut it = ts.into_iter().peekable();
    while let Some(tt) = it.next() {
        match tt {
            TokenTree::Punct(p) if p.as_char() == '$' => {
                if let Some(TokenTree::Ident(i)) = it.peek() {
                    if let Some(rep) = map.get(&i.to_string()) {
                        out.extend(rep.clone());
                        it.next();
                        continue;
                    }
                }
                out.extend(std::iter::once(TokenTree::Punct(p)));
            }
            TokenTree::Group(g) => {
                let mut ng = Group::new(g.delimiter(), subst(g.stream(), map));
                ng.set_span(g.span());
                out.extend(std::iter::once(TokenTree::Group(ng)));
            }
            t => out.extend(std::iter::once(t)),
        }
    }
    out
}

fn split_commas(ts: TokenStream) -> Vec<TokenStream> {
    let mut parts = vec![TokenStream::new()];
    let mut depth = 0i32;
    for tt in ts {
        match &tt {
            TokenTree::Punct(p) if p.as_char() == ',' && depth == 0 => {
                parts.push(TokenStream::new());
                continue;
            }
            TokenTree::Punct(p) if p.as_char() == '<' => depth += 1,
            TokenTree::Punct(p) if p.as_char() == '>' => depth -= 1,
            _ => {}
        }
        parts.last_mut().unwrap().extend(std::iter::once(tt));
    }
    if parts.last().map(|p| p.is_empty()).unwrap_or(false) {
        parts.pop();
    }
    parts
}

/// Expand the `which`-th invocation (0-based) of every single-rule `macro_rules!` of the file, in place.
fn expand_file(file: &syn::File, which: usize) -> Vec<Item> {
    let mut rules: HashMap<String, (Vec<String>, TokenStream)> = HashMap::new();
    for it in &file.items {
        if let Item::Macro(m) = it {
            if last_seg(&m.mac.path) == "macro_rules" {
                if let Some(name) = &m.ident {
                    let toks: Vec<TokenTree> = m.mac.tokens.clone().into_iter().collect();
                    // ( params ) => { body }   — single rule only
                    if toks.len() >= 4 {
                        if let (TokenTree::Group(pg), TokenTree::Group(bg)) = (&toks[0], &toks[3]) {
                            if toks.len() <= 5 && bg.delimiter() == Delimiter::Brace {
                                let mut params = vec![];
                                let pt: Vec<TokenTree> = pg.stream().into_iter().collect();
                                let mut i = 0;
                                while i + 1 < pt.len() {
                                    if let (TokenTree::Punct(p), TokenTree::Ident(id)) = (&pt[i], &pt[i + 1]) {
                                        if p.as_char() == '$' {
                                            params.push(id.to_string());
                                        }
                                    }
                                    i += 1;
                                }
                                rules.insert(name.to_string(), (params, bg.stream()));
                            }
                        }
                    }
                }
            }
        }
    }
    let mut count: HashMap<String, usize> = HashMap::new();
    let mut out = vec![];
    for it in &file.items {
        if let Item::Macro(m) = it {
            let n = last_seg(&m.mac.path);
            if let Some((params, body)) = rules.get(&n) {
                let k = count.entry(n.clone()).or_insert(0);
                let mine = *k == which;
                *k += 1;
                if !mine {
                    continue;
                }
                let args = split_commas(m.mac.tokens.clone());
                if args.len() == params.len() {
                    let map: HashMap<String, TokenStream> = params.iter().cloned().zip(args.into_iter()).collect();
                    let ts = subst(body.clone(), &map);
                    if let Ok(f) = syn::parse2::<syn::File>(ts) {
                        out.extend(f.items);
                        continue;
                    }
                }
            }
        }
        out.push(it.clone());
    }
    out
}

fn lean_str(s: &str) -> String {
    s.replace('\\', "\\\\").replace('"', "\\\"").replace('\n', " ")
}

/// `# [doc = "…"]` attributes taken out of a token string
fn strip_docs(s: &str) -> String {
    let mut out = String::new();
    let b: Vec<char> = s.chars().collect();
    let pat: Vec<char> = "# [doc = \"".chars().collect();
    let mut i = 0;
    while i < b.len() {
        if b[i..].starts_with(&pat[..]) {
            // skip to the closing quote (escapes honoured), then to `]`
            let mut j = i + pat.len();
            while j < b.len() && b[j] != '"' {
                if b[j] == '\\' {
                    j += 1;
                }
                j += 1;
            }
            while j < b.len() && b[j] != ']' {
                j += 1;
            }
            i = j + 1;
            while i < b.len() && b[i] == ' ' {
                i += 1;
            }
            continue;
        }
        out.push(b[i]);
        i += 1;
    }
    out
}

/// (name, token text) of every item of a file: functions, types, and the methods of impls / traits one by one
fn pin_items(items: &[Item]) -> Vec<(String, String)> {
    let mut out: Vec<(String, String)> = vec![];
    let tok = |t: &dyn quote::ToTokens| -> String { strip_docs(&t.to_token_stream().to_string()) };
    for it in items {
        match it {
            Item::Use(_) => {}
            Item::Mod(m) => {
                let is_test = m.attrs.iter().any(|a| a.to_token_stream().to_string().contains("test"));
                if !is_test {
                    if let Some((_, inner)) = &m.content {
                        for (n, t) in pin_items(inner) {
                            out.push((format!("mod {} :: {}", m.ident, n), t));
                        }
                    }
                }
            }
            Item::Fn(f) => out.push((format!("fn {}", f.sig.ident), tok(f))),
            Item::Struct(x) => out.push((format!("struct {}", x.ident), tok(x))),
            Item::Enum(x) => out.push((format!("enum {}", x.ident), tok(x))),
            Item::Type(x) => out.push((format!("type {}", x.ident), tok(x))),
            Item::Impl(im) => {
                let head = format!(
                    "impl {}{}",
                    im.trait_.as_ref().map(|t| format!("{} for ", show_full(&t.0))).unwrap_or_default(),
                    show_full(&im.self_ty)
                );
                let mut header = format!("{} {}", show_full(&im.generics), head);
                if let Some(w) = &im.generics.where_clause {
                    header += &format!(" {}", show_full(w));
                }
                out.push((format!("{} (header)", head), strip_docs(&header)));
                for ii in &im.items {
                    match ii {
                        ImplItem::Fn(f) => out.push((format!("{} :: fn {}", head, f.sig.ident), tok(f))),
                        other => out.push((format!("{} :: item", head), tok(other))),
                    }
                }
            }
            Item::Trait(tr) => {
                for ti in &tr.items {
                    let n = match ti {
                        syn::TraitItem::Fn(f) => format!("trait {} :: fn {}", tr.ident, f.sig.ident),
                        _ => format!("trait {} :: item", tr.ident),
                    };
                    out.push((n, tok(ti)));
                }
            }
            Item::Macro(m) => out.push((format!("macro {}", m.ident.as_ref().map(|i| i.to_string()).unwrap_or_else(|| last_seg(&m.mac.path))), tok(m))),
            other => out.push(("item".to_string(), tok(other))),
        }
    }
    out
}

fn main() {
    let a: Vec<String> = std::env::args().collect();
    if a.len() < 3 {
        eprintln!("usage: rs2lean <repo/src> <out dir>");
        std::process::exit(2);
    }
    let src = std::path::Path::new(&a[1]);
    let out = std::path::Path::new(&a[2]);
    std::fs::create_dir_all(out).unwrap();
    let mut failed = 0;
    // structs of the modules translated so far (for `imports`)
    let mut done: HashMap<String, Vec<StructInfo>> = HashMap::new();
    for ent in table::table() {
        if !ent.expanded_mod.is_empty() && a.get(3).is_none() {
            continue; // needs the compiler-expanded source: left as it is when none is given
        }
        let mut lean = String::new();
        writeln!(lean, "/- GENERATED by /verif/rs2lean from src/{} — do not edit. -/", ent.file).unwrap();
        writeln!(lean, "import RxModel.Gen.Prelude").unwrap();
        for i in ent.imports {
            writeln!(lean, "import RxModel.Gen.{}", i).unwrap();
        }
        writeln!(lean, "namespace Rx.Gen.{}\nopen Rx", ent.module).unwrap();
        for i in ent.imports {
            if *i != "RcObserver" {
                writeln!(lean, "open Rx.Gen.{}", i).unwrap();
            }
        }
        writeln!(lean).unwrap();
        // the items of the file (macro stamps expanded), plus those of the extra files
        let mut items: Vec<Item> = vec![];
        let mut parse_err = None;
        if !ent.expanded_mod.is_empty() {
            // the compiler's own macro expansion of the crate (cargo +nightly rustc -- -Zunpretty=expanded)
            match a.get(3) {
                None => parse_err = Some("no expanded source given (nightly toolchain unavailable?)".to_string()),
                Some(path) => {
                    let text = std::fs::read_to_string(path).unwrap_or_default();
                    match syn::parse_file(&text) {
                        Ok(file) => {
                            fn find<'f>(items: &'f [Item], path: &[&str]) -> Option<&'f [Item]> {
                                if path.is_empty() {
                                    return Some(items);
                                }
                                for it in items {
                                    if let Item::Mod(m) = it {
                                        if m.ident == path[0] {
                                            if let Some((_, inner)) = &m.content {
                                                return find(inner, &path[1..]);
                                            }
                                        }
                                    }
                                }
                                None
                            }
                            // (several modules: `a::b+c::d`)
                            for one in ent.expanded_mod.split('+') {
                                let path: Vec<&str> = one.split("::").collect();
                                match find(&file.items, &path) {
                                    Some(its) => items.extend(its.iter().cloned()),
                                    None => parse_err = Some(format!("module {} not found in the expanded source", one)),
                                }
                            }
                        }
                        Err(e) => parse_err = Some(format!("cannot parse the expanded source: {}", e)),
                    }
                }
            }
        }
        for f in std::iter::once(&ent.file).chain(ent.extra_files.iter()).filter(|_| ent.expanded_mod.is_empty()) {
            let text = std::fs::read_to_string(src.join(f)).unwrap_or_default();
            match syn::parse_file(&text) {
                Ok(file) => items.extend(expand_file(&file, ent.flavour)),
                Err(e) => parse_err = Some(format!("cannot parse {}: {}", f, e)),
            }
        }
        if let Some(e) = parse_err {
            failed += 1;
            writeln!(lean, "-- TRANSLATION FAILED: {}", e).unwrap();
        } else {
            let mut ctx = Ctx::default();
            for it in &items {
                if let Item::Type(t) = it {
                    let ps: Vec<String> = t
                        .generics
                        .params
                        .iter()
                        .filter_map(|p| if let GenericParam::Type(tp) = p { Some(tp.ident.to_string()) } else { None })
                        .collect();
                    ctx.aliases.insert(t.ident.to_string(), (ps, (*t.ty).clone()));
                }
            }
            for imp in ent.imports {
                if *imp == "RcObserver" {
                    continue;
                }
                for si in done.get(*imp).map(|v| v.as_slice()).unwrap_or(&[]) {
                    ctx.structs.insert(
                        si.name.clone(),
                        StructInfo {
                            name: si.name.clone(),
                            fields: si.fields.clone(),
                            methods: si.methods.clone(),
                            root_ty: si.root_ty.clone(),
                            prefix: format!("Rx.Gen.{}.", imp),
                            cells: si.cells.clone(),
                        },
                    );
                }
            }
            // the slot observer
            if ent.imports.contains(&"RcObserver") {
                let mut methods = HashMap::new();
                let mi = |e: bool, ps: Vec<(String, Ty)>| MethodInfo { effectful: e, params: ps, needs_closed: false, needs_down: !e, needs_pub: false, needs_grp: false, needs_handle: false, ret: Ty::Bool, partial: false, consumes: false, dyn_down: false };
                methods.insert("next".to_string(), mi(true, vec![("value".into(), Ty::Val)]));
                methods.insert("error".to_string(), mi(true, vec![("err".into(), Ty::Err)]));
                methods.insert("complete".to_string(), mi(true, vec![]));
                methods.insert("is_finished".to_string(), mi(false, vec![]));
                ctx.structs.insert(
                    "RcObserver".into(),
                    StructInfo {
                        name: "RcObserver".into(),
                        fields: vec![],
                        methods,
                        root_ty: Some(Ty::Opt(Box::new(Ty::Obs))),
                        prefix: "Rx.Gen.RcObserver.".into(),
                        cells: vec![],
                    },
                );
            }
            // the tasks / tick functions of a SOURCE work on the subscriber's observer itself
            if ent.tasks.iter().any(|t| t.1 == "@obs") || ent.ticks.iter().any(|t| t.1 == "@obs") {
                lean += "abbrev Observer := Rs.Obs\n\n";
                ctx.structs.insert(
                    "Observer".into(),
                    StructInfo { name: "Observer".into(), fields: vec![], methods: HashMap::new(), root_ty: Some(Ty::Obs), prefix: String::new(), cells: vec![] },
                );
            }
            let mut later_enums: Vec<&str> = vec![];
            for en in ent.enums {
                match translate_enum(&items, en, &mut ctx, &ent.hints.iter().filter(|h| h.0 == *en).map(|h| (h.1.to_string(), parse_spec(h.2))).collect()) {
                    Ok(s) => lean += &s,
                    Err(e) if ent.observers.iter().any(|o| e.contains(&format!("`{} <", o)) || e.contains(&format!("`{}`", o))) => later_enums.push(*en),
                    Err(e) => {
                        failed += 1;
                        eprintln!("{}: enum {}: {}", ent.file, en, e);
                        writeln!(lean, "-- TRANSLATION FAILED for enum {}: {}\n", en, e).unwrap();
                    }
                }
            }
            // (a plain struct that mentions an observer struct of the same file is taken up again after the observers)
            let mut later: Vec<&str> = vec![];
            for pst in ent.structs {
                let hints: HashMap<String, Ty> =
                    ent.hints.iter().filter(|h| h.0 == *pst).map(|h| (h.1.to_string(), parse_spec(h.2))).collect();
                match translate_plain_struct(&items, pst, &mut ctx, &hints) {
                    Ok(s) => lean += &s,
                    Err(e) if ent.observers.iter().any(|o| e.contains(&format!("`{}`", o))) => later.push(*pst),
                    Err(e) => {
                        failed += 1;
                        eprintln!("{}: struct {}: {}", ent.file, pst, e);
                        writeln!(lean, "-- TRANSLATION FAILED for struct {}: {}\n", pst, e).unwrap();
                    }
                }
            }
            for obs in ent.observers {
                let hints: HashMap<String, Ty> =
                    ent.hints.iter().filter(|h| h.0 == *obs).map(|h| (h.1.to_string(), parse_spec(h.2))).collect();
                // an enum that mentions an observer struct of this file is taken up as soon as that struct is there
                later_enums.retain(|en| match translate_enum(&items, en, &mut ctx, &ent.hints.iter().filter(|h| h.0 == *en).map(|h| (h.1.to_string(), parse_spec(h.2))).collect()) {
                    Ok(s) => {
                        lean += &s;
                        false
                    }
                    Err(_) => true,
                });
                match translate_observer(&items, obs, &mut ctx, &hints) {
                    Ok(s) => lean += &s,
                    Err(e) => {
                        failed += 1;
                        let (msg, partial) = match e.split_once('\n') {
                            Some((m, p)) => (m.to_string(), p.to_string()),
                            None => (e.clone(), String::new()),
                        };
                        eprintln!("{}: {}: {}", ent.file, obs, msg);
                        lean += &partial;
                        writeln!(lean, "-- TRANSLATION FAILED for {}: {}\n", obs, msg.replace('\n', " ")).unwrap();
                    }
                }
            }
            for en in later_enums {
                if let Err(e) = translate_enum(&items, en, &mut ctx, &ent.hints.iter().filter(|h| h.0 == en).map(|h| (h.1.to_string(), parse_spec(h.2))).collect()) {
                    failed += 1;
                    eprintln!("{}: enum {}: {}", ent.file, en, e);
                    writeln!(lean, "-- TRANSLATION FAILED for enum {}: {}\n", en, e).unwrap();
                }
            }
            for pst in later {
                let hints: HashMap<String, Ty> =
                    ent.hints.iter().filter(|h| h.0 == pst).map(|h| (h.1.to_string(), parse_spec(h.2))).collect();
                match translate_plain_struct(&items, pst, &mut ctx, &hints) {
                    Ok(s) => lean += &s,
                    Err(e) => {
                        failed += 1;
                        eprintln!("{}: struct {}: {}", ent.file, pst, e);
                        writeln!(lean, "-- TRANSLATION FAILED for struct {}: {}\n", pst, e).unwrap();
                    }
                }
            }
            done.insert(
                ent.module.to_string(),
                ctx.structs
                    .values()
                    .filter(|si| si.prefix.is_empty())
                    .map(|si| StructInfo { name: si.name.clone(), fields: si.fields.clone(), methods: si.methods.clone(), root_ty: si.root_ty.clone(), prefix: String::new(), cells: si.cells.clone() })
                    .collect(),
            );
            for (tf, tobs, tfields) in ent.tasks {
                match translate_task_fn(&items, tf, tobs, tfields, &ctx) {
                    Ok(s) => lean += &s,
                    Err(e) => {
                        failed += 1;
                        eprintln!("{}: task {}: {}", ent.file, tf, e);
                        writeln!(lean, "-- TRANSLATION FAILED for task fn {}: {}\n", tf, e.replace('\n', " ")).unwrap();
                    }
                }
            }
            for pn in ent.polls {
                let hints: HashMap<String, Ty> =
                    ent.hints.iter().filter(|h| h.0 == *pn).map(|h| (h.1.to_string(), parse_spec(h.2))).collect();
                match translate_poll_fn(&items, pn, &ctx, &hints) {
                    Ok(s) => lean += &s,
                    Err(e) => {
                        failed += 1;
                        eprintln!("{}: poll of {}: {}", ent.file, pn, e);
                        writeln!(lean, "-- TRANSLATION FAILED for the poll of {}: {}\n", pn, e.replace('\n', " ")).unwrap();
                    }
                }
            }
            for (tf, tobs) in ent.ticks {
                match translate_tick_fn(&items, tf, tobs, &ctx) {
                    Ok(s) => lean += &s,
                    Err(e) => {
                        failed += 1;
                        eprintln!("{}: tick {}: {}", ent.file, tf, e);
                        writeln!(lean, "-- TRANSLATION FAILED for tick fn {}: {}\n", tf, e.replace('\n', " ")).unwrap();
                    }
                }
            }
            for op in ent.wirings {
                match translate_wiring(&items, op, ent.observers) {
                    Ok(s) => lean += &s,
                    Err(e) => {
                        failed += 1;
                        eprintln!("{}: wiring of {}: {}", ent.file, op, e);
                        writeln!(lean, "-- TRANSLATION FAILED for the wiring of {}: {}\n", op, e.replace('\n', " ")).unwrap();
                    }
                }
            }
            for (op, obs) in ent.inits {
                let hints: HashMap<String, Ty> =
                    ent.hints.iter().filter(|h| h.0 == *op).map(|h| (h.1.to_string(), parse_spec(h.2))).collect();
                match translate_init(&items, op, obs, &ctx, &hints) {
                    Ok(s) => lean += &s,
                    Err(e) => {
                        failed += 1;
                        eprintln!("{}: init of {}: {}", ent.file, obs, e);
                        writeln!(lean, "-- TRANSLATION FAILED for the initial state of {}: {}\n", obs, e.replace('\n', " ")).unwrap();
                    }
                }
            }
        }
        // (recorded below for later imports)
        writeln!(lean, "end Rx.Gen.{}", ent.module).unwrap();
        let p = out.join(format!("{}.lean", ent.module));
        let old = std::fs::read_to_string(&p).unwrap_or_default();
        if old != lean {
            std::fs::write(&p, lean).unwrap();
        }
    }
    // the derived-operator layer (provided methods of ObservableExt)
    {
        let parse = |f: &std::path::Path| -> Vec<Item> {
            std::fs::read_to_string(f).ok().and_then(|t| syn::parse_file(&t).ok()).map(|f| f.items).unwrap_or_default()
        };
        let obs_items = parse(&src.join("observable.rs"));
        let mut ops_files: Vec<Vec<Item>> = vec![parse(&src.join("ops.rs"))];
        if let Ok(rd) = std::fs::read_dir(src.join("ops")) {
            let mut paths: Vec<_> = rd.filter_map(|e| e.ok()).map(|e| e.path()).filter(|p| p.extension().map(|x| x == "rs").unwrap_or(false)).collect();
            paths.sort();
            for pth in paths {
                ops_files.push(parse(&pth));
            }
        }
        let (body, f) = derived::translate_derived(&obs_items, &ops_files, table::DERIVED);
        failed += f;
        let mut lean = String::new();
        writeln!(lean, "/- GENERATED by /verif/rs2lean from src/observable.rs (provided methods of ObservableExt), src/ops.rs and the `new` functions of src/ops/*.rs — do not edit. -/").unwrap();
        writeln!(lean, "import RxModel.Gen.Prelude\nimport RxModel.Spec.ListSem\nset_option linter.unusedVariables false\nnamespace Rx.Gen.Derived\nopen Rx\n").unwrap();
        lean += &body;
        writeln!(lean, "end Rx.Gen.Derived").unwrap();
        let p = out.join("Derived.lean");
        if std::fs::read_to_string(&p).unwrap_or_default() != lean {
            std::fs::write(&p, lean).unwrap();
        }
    }
    // which calls are made while a shared cell is borrowed / locked (holds.rs), from the compiler-expanded source
    if let Some(path) = a.get(3) {
        let text = std::fs::read_to_string(path).unwrap_or_default();
        if let Ok(file) = syn::parse_file(&text) {
            fn find<'f>(items: &'f [Item], path: &[&str]) -> Option<&'f [Item]> {
                if path.is_empty() {
                    return Some(items);
                }
                for it in items {
                    if let Item::Mod(m) = it {
                        if m.ident == path[0] {
                            if let Some((_, inner)) = &m.content {
                                return find(inner, &path[1..]);
                            }
                        }
                    }
                }
                None
            }
            let mut lean = String::new();
            writeln!(lean, "/- GENERATED by /verif/rs2lean (holds.rs) from the compiler-expanded source: per function, every shared cell whose guard is alive while an effect call is made (cell, how the guard is held, the calls) — do not edit. -/").unwrap();
            writeln!(lean, "namespace Rx.Gen.Holds\n").unwrap();
            for (name, module) in table::HOLDS {
                let path: Vec<&str> = module.split("::").collect();
                match find(&file.items, &path) {
                    Some(its) => {
                        let found = holds::analyse_items(its);
                        writeln!(lean, "/-- src/{}.rs -/\ndef {} : List (String × String × String × List String) :=\n  [", module.replace("::", "/"), name).unwrap();
                        let rows: Vec<String> = found
                            .iter()
                            .map(|f| format!("   (\"{}\", \"{}\", \"{}\", [{}])", lean_str(&f.func), lean_str(&f.cell.replace(' ', "")), f.kind, f.effects.iter().map(|e| format!("\"{}\"", lean_str(e))).collect::<Vec<_>>().join(", ")))
                            .collect();
                        writeln!(lean, "{}\n  ]\n", rows.join(",\n")).unwrap();
                    }
                    None => {
                        failed += 1;
                        writeln!(lean, "-- TRANSLATION FAILED: module {} not found in the expanded source\n", module).unwrap();
                    }
                }
            }
            writeln!(lean, "end Rx.Gen.Holds").unwrap();
            let p = out.join("Holds.lean");
            if std::fs::read_to_string(&p).unwrap_or_default() != lean {
                std::fs::write(&p, lean).unwrap();
            }
        }
    }
    // transcription pins: the token text of every item of the files whose Lean model is a HAND transcription
    for (module, file) in table::PINS {
        let text = std::fs::read_to_string(src.join(file)).unwrap_or_default();
        let mut lean = String::new();
        writeln!(lean, "/- GENERATED by /verif/rs2lean from src/{} (token text of every item, doc comments and test modules dropped) — do not edit. -/", file).unwrap();
        writeln!(lean, "namespace Rx.Gen.Pin{}\n", module).unwrap();
        match syn::parse_file(&text) {
            Ok(f) => {
                let items = pin_items(&f.items);
                for (k, (n, t)) in items.iter().enumerate() {
                    writeln!(lean, "def item_{} : String × String := (\"{}\", \"{}\")", k, lean_str(n), lean_str(t)).unwrap();
                }
                let names: Vec<String> = (0..items.len()).map(|k| format!("item_{}", k)).collect();
                writeln!(lean, "\ndef items : List (String × String) := [{}]\n", names.join(", ")).unwrap();
            }
            Err(e) => {
                failed += 1;
                writeln!(lean, "-- TRANSLATION FAILED: cannot parse {}: {}", file, e).unwrap();
            }
        }
        writeln!(lean, "end Rx.Gen.Pin{}", module).unwrap();
        let p = out.join(format!("Pin{}.lean", module));
        if std::fs::read_to_string(&p).unwrap_or_default() != lean {
            std::fs::write(&p, lean).unwrap();
        }
    }
    if failed > 0 {
        eprintln!("{} item(s) could not be translated", failed);
        std::process::exit(1);
    }
}
