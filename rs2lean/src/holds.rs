//! holds.rs — which calls are made WHILE a shared cell is borrowed / locked.
//!
//! The translation of observers is sequential: `MutRc/MutArc/RefCell/Mutex` cells are transparent there.  What it cannot
//! see is the LIFETIME of the guard a `rc_deref_mut()` / `rc_deref()` / `borrow_mut()` / `lock()` returns — and so a change
//! that keeps the sequential behaviour but extends a critical section over a call into user code or into another cell
//! (re-entrancy panic for the local flavour, dead-lock for the thread-safe one).  This pass reads exactly that off the
//! (compiler-expanded) source, with Rust's own rules for temporaries:
//!
//!   `let g = cell.rc_deref_mut();`                 named guard: to the end of the enclosing block (or `drop(g)`)
//!   `let x = &mut *cell.rc_deref_mut();`           the temporary is EXTENDED: to the end of the enclosing block
//!   `if let P = cell.rc_deref_mut().. { B } else { C }` / `match cell.rc_deref_mut().. { arms }` /
//!   `for x in cell.rc_deref_mut().. { B }` / `while let ..`   scrutinee temporary: through the bodies
//!   any other statement `… cell.rc_deref_mut() …;`  to the end of that statement
//!
//! and lists, per function, every guard under which at least one EFFECT call is made (a call on an observer, a subscriber,
//! a subscription, a scheduler, a user callback, a deferred task, another cell's method).  A closure handed to `Box::new`
//! is a deferred body of its own (`<fn>#closure<k>`), not part of the section it is built in.

use crate::{last_seg, show_full};
use syn::{Block, Expr, ImplItem, Item, Local, Pat, Stmt};

const GUARDS: &[&str] = &["rc_deref_mut", "rc_deref", "borrow_mut", "borrow", "lock"];
const EFFECTS: &[&str] = &[
    "next", "error", "complete", "is_finished", "p_next", "p_error", "p_complete", "p_unsubscribe", "p_is_closed", "unsubscribe",
    "boxed_unsubscribe", "is_closed", "actual_subscribe", "box_subscribe", "schedule", "append", "wake", "register", "load",
    "connect", "fork", "emit", "peek",
];

#[derive(Clone)]
struct Guard {
    cell: String,
    kind: &'static str,
    effects: Vec<String>,
}

pub struct Found {
    pub func: String,
    pub cell: String,
    pub kind: &'static str,
    pub effects: Vec<String>,
}

struct Walker {
    /// guards alive right now (innermost last)
    live: Vec<Guard>,
    done: Vec<Guard>,
    deferred: Vec<(usize, Expr)>,
    nclosure: usize,
    /// names of `let`-bound guards, with their index in `live`
    names: Vec<(String, usize)>,
}

fn guard_cell(e: &Expr) -> Option<String> {
    // `<cell>.rc_deref_mut()` possibly followed by `.unwrap()` (Mutex::lock)
    match e {
        Expr::MethodCall(m) if GUARDS.contains(&m.method.to_string().as_str()) && m.args.is_empty() => Some(show_full(&m.receiver)),
        Expr::MethodCall(m) if m.method == "unwrap" && m.args.is_empty() => match &*m.receiver {
            Expr::MethodCall(mm) if mm.method == "lock" && mm.args.is_empty() => Some(show_full(&mm.receiver)),
            _ => None,
        },
        Expr::Paren(p) => guard_cell(&p.expr),
        _ => None,
    }
}

/// `&mut *G`, `&*G`, `&G`, `&mut G` with G a guard call: the temporary is extended to the enclosing block
fn extended_guard(e: &Expr) -> Option<String> {
    match e {
        Expr::Reference(r) => match &*r.expr {
            Expr::Unary(u) if matches!(u.op, syn::UnOp::Deref(_)) => guard_cell(&u.expr),
            other => guard_cell(other),
        },
        Expr::Paren(p) => extended_guard(&p.expr),
        _ => None,
    }
}

impl Walker {
    fn effect(&mut self, name: String) {
        for g in self.live.iter_mut() {
            if !g.effects.contains(&name) {
                g.effects.push(name.clone());
            }
        }
    }

    fn open(&mut self, cell: String, kind: &'static str) -> usize {
        self.live.push(Guard { cell, kind, effects: vec![] });
        self.live.len() - 1
    }

    fn close_to(&mut self, n: usize) {
        while self.live.len() > n {
            let g = self.live.pop().unwrap();
            self.done.push(g);
        }
    }

    /// the guards created somewhere inside `e` (not inside closures / nested blocks with their own statements)
    fn temp_guards(e: &Expr, out: &mut Vec<String>) {
        if let Some(c) = guard_cell(e) {
            out.push(c);
        }
        match e {
            Expr::MethodCall(m) => {
                Self::temp_guards(&m.receiver, out);
                for a in &m.args {
                    if !matches!(a, Expr::Closure(_)) {
                        Self::temp_guards(a, out);
                    }
                }
            }
            Expr::Call(c) => {
                Self::temp_guards(&c.func, out);
                for a in &c.args {
                    if !matches!(a, Expr::Closure(_)) {
                        Self::temp_guards(a, out);
                    }
                }
            }
            Expr::Field(f) => Self::temp_guards(&f.base, out),
            Expr::Unary(u) => Self::temp_guards(&u.expr, out),
            Expr::Reference(r) => Self::temp_guards(&r.expr, out),
            Expr::Paren(p) => Self::temp_guards(&p.expr, out),
            Expr::Assign(a) => {
                Self::temp_guards(&a.left, out);
                Self::temp_guards(&a.right, out);
            }
            Expr::Binary(b) => {
                Self::temp_guards(&b.left, out);
                Self::temp_guards(&b.right, out);
            }
            Expr::Let(l) => Self::temp_guards(&l.expr, out),
            Expr::Tuple(t) => t.elems.iter().for_each(|x| Self::temp_guards(x, out)),
            Expr::Cast(c) => Self::temp_guards(&c.expr, out),
            Expr::Try(t) => Self::temp_guards(&t.expr, out),
            Expr::Index(i) => {
                Self::temp_guards(&i.expr, out);
                Self::temp_guards(&i.index, out);
            }
            _ => {}
        }
    }

    /// every effect call syntactically inside `e` (closures that run in place included, deferred closures set aside)
    fn effects_in(&mut self, e: &Expr) {
        match e {
            Expr::MethodCall(m) => {
                self.effects_in(&m.receiver);
                for a in &m.args {
                    self.effects_in(a);
                }
                let n = m.method.to_string();
                if EFFECTS.contains(&n.as_str()) {
                    self.effect(n);
                }
            }
            Expr::Call(c) => {
                // `Box::new(closure)`: a deferred body
                if let Expr::Path(p) = &*c.func {
                    let segs: Vec<String> = p.path.segments.iter().map(|s| s.ident.to_string()).collect();
                    if segs.len() == 2 && segs[0] == "Box" && segs[1] == "new" && c.args.len() == 1 {
                        if let Expr::Closure(cl) = &c.args[0] {
                            self.nclosure += 1;
                            self.deferred.push((self.nclosure, (*cl.body).clone()));
                            return;
                        }
                    }
                    let n = last_seg(&p.path);
                    if EFFECTS.contains(&n.as_str()) && p.path.segments.len() >= 2 {
                        self.effect(n); // UFCS: `Observer::next(&mut x, v)`
                    } else if p.path.segments.len() == 1 && !matches!(n.as_str(), "Some" | "Ok" | "Err" | "drop" | "Box") && n.chars().next().map(|c| c.is_lowercase()).unwrap_or(false) {
                        self.effect(format!("call:{}", n)); // a local closure / task / free fn
                    }
                } else {
                    // `(self.func)(..)`, `(this.task)(..)`
                    self.effect(format!("call:{}", show_full(&c.func).replace(' ', "")));
                    self.effects_in(&c.func);
                }
                for a in &c.args {
                    self.effects_in(a);
                }
            }
            Expr::Closure(c) => self.effects_in(&c.body),
            Expr::Block(b) => self.block(&b.block),
            Expr::Unsafe(b) => self.block(&b.block),
            Expr::If(_) | Expr::Match(_) | Expr::ForLoop(_) | Expr::While(_) | Expr::Loop(_) => self.construct(e),
            Expr::Field(f) => self.effects_in(&f.base),
            Expr::Unary(u) => self.effects_in(&u.expr),
            Expr::Reference(r) => self.effects_in(&r.expr),
            Expr::Paren(p) => self.effects_in(&p.expr),
            Expr::Assign(a) => {
                self.effects_in(&a.right);
                self.effects_in(&a.left);
            }
            Expr::Binary(b) => {
                self.effects_in(&b.left);
                self.effects_in(&b.right);
            }
            Expr::Let(l) => self.effects_in(&l.expr),
            Expr::Tuple(t) => t.elems.iter().for_each(|x| self.effects_in(x)),
            Expr::Struct(s) => s.fields.iter().for_each(|f| self.effects_in(&f.expr)),
            Expr::Return(r) => {
                if let Some(x) = &r.expr {
                    self.effects_in(x)
                }
            }
            Expr::Break(b) => {
                if let Some(x) = &b.expr {
                    self.effects_in(x)
                }
            }
            Expr::Cast(c) => self.effects_in(&c.expr),
            Expr::Try(t) => self.effects_in(&t.expr),
            Expr::Index(i) => {
                self.effects_in(&i.expr);
                self.effects_in(&i.index);
            }
            _ => {}
        }
    }

    /// `if` / `if let` / `match` / `for` / `while (let)` / `loop`
    fn construct(&mut self, e: &Expr) {
        let mark = self.live.len();
        match e {
            Expr::If(i) => {
                let is_let = matches!(&*i.cond, Expr::Let(_));
                let mut gs = vec![];
                Self::temp_guards(&i.cond, &mut gs);
                for c in gs {
                    self.open(c, if is_let { "scrutinee" } else { "condition" });
                }
                self.effects_in(&i.cond);
                if !is_let {
                    self.close_to(mark); // the temporaries of a plain condition die before the block
                }
                self.block(&i.then_branch);
                if let Some((_, eb)) = &i.else_branch {
                    self.effects_in(eb);
                }
            }
            Expr::Match(m) => {
                let mut gs = vec![];
                Self::temp_guards(&m.expr, &mut gs);
                for c in gs {
                    self.open(c, "scrutinee");
                }
                self.effects_in(&m.expr);
                for a in &m.arms {
                    self.effects_in(&a.body);
                }
            }
            Expr::ForLoop(f) => {
                let mut gs = vec![];
                Self::temp_guards(&f.expr, &mut gs);
                for c in gs {
                    self.open(c, "scrutinee");
                }
                self.effects_in(&f.expr);
                self.block(&f.body);
            }
            Expr::While(w) => {
                let is_let = matches!(&*w.cond, Expr::Let(_));
                let mut gs = vec![];
                Self::temp_guards(&w.cond, &mut gs);
                for c in gs {
                    self.open(c, if is_let { "scrutinee" } else { "condition" });
                }
                self.effects_in(&w.cond);
                if !is_let {
                    self.close_to(mark);
                }
                self.block(&w.body);
            }
            Expr::Loop(l) => self.block(&l.body),
            _ => {}
        }
        self.close_to(mark);
    }

    fn local(&mut self, l: &Local) {
        let Some(init) = &l.init else { return };
        // a named or extended guard lives to the end of the ENCLOSING block: it is opened here and closed by `block`
        if let Some(c) = guard_cell(&init.expr) {
            let name = match &l.pat {
                Pat::Ident(pi) => pi.ident.to_string(),
                Pat::Type(pt) => match &*pt.pat {
                    Pat::Ident(pi) => pi.ident.to_string(),
                    _ => String::new(),
                },
                _ => String::new(),
            };
            self.effects_in(&init.expr);
            let k = self.open(c, "let");
            self.live[k].kind = "let";
            self.names.push((name, k));
            return;
        }
        if let Some(c) = extended_guard(&init.expr) {
            self.effects_in(&init.expr);
            self.open(c, "extended");
            return;
        }
        // otherwise: statement temporaries
        let mark = self.live.len();
        let mut gs = vec![];
        Self::temp_guards(&init.expr, &mut gs);
        for c in gs {
            self.open(c, "statement");
        }
        self.effects_in(&init.expr);
        if let Some((_, d)) = &init.diverge {
            self.effects_in(d);
        }
        self.close_to(mark);
    }

    fn block(&mut self, b: &Block) {
        let mark = self.live.len();
        let names_mark = self.names.len();
        for st in &b.stmts {
            match st {
                Stmt::Local(l) => self.local(l),
                Stmt::Expr(e, _) => {
                    // `drop(g)` ends a named guard
                    if let Expr::Call(c) = e {
                        if let (Expr::Path(p), 1) = (&*c.func, c.args.len()) {
                            if last_seg(&p.path) == "drop" {
                                if let Expr::Path(a) = &c.args[0] {
                                    let n = last_seg(&a.path);
                                    if let Some(pos) = self.names.iter().rposition(|x| x.0 == n) {
                                        let k = self.names[pos].1;
                                        if k < self.live.len() {
                                            // close this guard only (it is the innermost one in every use in the crate)
                                            let g = self.live.remove(k);
                                            self.done.push(g);
                                            self.names.remove(pos);
                                            for x in self.names.iter_mut() {
                                                if x.1 > k {
                                                    x.1 -= 1;
                                                }
                                            }
                                        }
                                        continue;
                                    }
                                }
                            }
                        }
                    }
                    match e {
                        Expr::If(_) | Expr::Match(_) | Expr::ForLoop(_) | Expr::While(_) | Expr::Loop(_) | Expr::Block(_) => self.effects_in(e),
                        _ => {
                            let m2 = self.live.len();
                            let mut gs = vec![];
                            Self::temp_guards(e, &mut gs);
                            for c in gs {
                                self.open(c, "statement");
                            }
                            self.effects_in(e);
                            self.close_to(m2);
                        }
                    }
                }
                Stmt::Macro(_) | Stmt::Item(_) => {}
            }
        }
        self.names.truncate(names_mark);
        self.close_to(mark);
    }
}

// (field added late: names of `let`-bound guards, with their index in `live`)
impl Walker {
    fn new() -> Walker {
        Walker { live: vec![], done: vec![], deferred: vec![], nclosure: 0, names: vec![] }
    }
}

pub fn analyse_fn(name: &str, block: &Block, out: &mut Vec<Found>) {
    let mut w = Walker::new();
    w.block(block);
    let mut pending: Vec<(usize, Expr)> = std::mem::take(&mut w.deferred);
    for g in w.done.drain(..) {
        if !g.effects.is_empty() {
            out.push(Found { func: name.to_string(), cell: g.cell, kind: g.kind, effects: g.effects });
        }
    }
    // deferred closures: bodies of their own
    let mut depth = 0;
    while let Some((k, body)) = pending.pop() {
        depth += 1;
        if depth > 50 {
            break;
        }
        let mut w2 = Walker::new();
        match &body {
            Expr::Block(b) => w2.block(&b.block),
            other => {
                let m2 = w2.live.len();
                let mut gs = vec![];
                Walker::temp_guards(other, &mut gs);
                for c in gs {
                    w2.open(c, "statement");
                }
                w2.effects_in(other);
                w2.close_to(m2);
            }
        }
        for g in w2.done.drain(..) {
            if !g.effects.is_empty() {
                out.push(Found { func: format!("{}#closure{}", name, k), cell: g.cell, kind: g.kind, effects: g.effects });
            }
        }
    }
}

/// every function of the items (impl methods by `Type::method`, free fns by name)
pub fn analyse_items(items: &[Item]) -> Vec<Found> {
    let mut out = vec![];
    for it in items {
        match it {
            Item::Fn(f) => analyse_fn(&f.sig.ident.to_string(), &f.block, &mut out),
            Item::Impl(im) => {
                let target = show_full(&im.self_ty).replace(' ', "");
                let tr = im.trait_.as_ref().map(|t| last_seg(&t.0)).unwrap_or_default();
                for ii in &im.items {
                    if let ImplItem::Fn(f) = ii {
                        let n = if tr.is_empty() { format!("{}::{}", target, f.sig.ident) } else { format!("<{} as {}>::{}", target, tr, f.sig.ident) };
                        analyse_fn(&n, &f.block, &mut out);
                    }
                }
            }
            // (nested modules are listed on their own in table::HOLDS)
            _ => {}
        }
    }
    out
}
