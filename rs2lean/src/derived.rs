//! The derived-operator layer: the provided methods of `trait ObservableExt` (src/observable.rs), each of which
//! only BUILDS a pipeline of operator structs (`self.take(1)`, `DefaultIfEmptyOp::new(self.first(), default)`,
//! `self.scan_initial(start, acc).last().map(avg)` …).  Each listed method becomes a Lean definition of the chain
//! it builds, as a `List Spec.Op1` (source side first), with the closures the library itself supplies
//! (`always_false`, `not`, `|acc, v| acc + v`, `max_fn`, `accumulate_item`, `average_floats` …) translated to
//! typed Lean functions.  What the user's item type contributes (`Add`, `PartialOrd`, `Default`, `Mul<f64>`) is
//! the record `Rs.ItemOps`.  Operator structs map to `Op1` constructors through `OPS` below; the constructor
//! functions `XOp::new` are READ from src/ops/*.rs (positional argument ↦ field), and a field that holds
//! operator state must be initialised with the value the model's initial state assumes (`is_empty: true`,
//! `last: None`) or the translation fails.

use crate::{bail, ident, last_seg, show, type_args, Res};
use std::collections::HashMap;
use std::fmt::Write as _;
use syn::{BinOp, Block, Expr, FnArg, GenericParam, ImplItem, Item, Lit, Member, Pat, ReturnType, Stmt, TraitItem, Type, TypeParamBound, UnOp};

#[derive(Clone, Debug, PartialEq)]
pub enum DT {
    Val,
    /// a method-level type parameter (seen as `Val` inside the method; its `Default` is a parameter)
    Param(String),
    Nat,
    Bool,
    Err,
    F64,
    Unit,
    Opt(Box<DT>),
    Tup(Vec<DT>),
    List(Box<DT>),
    Fun(Vec<DT>, Box<DT>),
    Chain,
}

impl DT {
    fn lean(&self) -> String {
        match self {
            DT::Val | DT::Param(_) => "Val".into(),
            DT::Nat => "Nat".into(),
            DT::Bool => "Bool".into(),
            DT::Err => "Err".into(),
            DT::F64 => "Rs.F64".into(),
            DT::Unit => "Unit".into(),
            DT::Opt(t) => format!("(Option {})", t.lean()),
            DT::List(t) => format!("(List {})", t.lean()),
            DT::Tup(ts) => format!("({})", ts.iter().map(|t| t.lean()).collect::<Vec<_>>().join(" × ")),
            DT::Fun(a, r) => format!("({} → {})", a.iter().map(|t| t.lean()).collect::<Vec<_>>().join(" → "), r.lean()),
            DT::Chain => "(List Spec.Op1)".into(),
        }
    }
    fn is_val(&self) -> bool {
        matches!(self, DT::Val | DT::Param(_))
    }
    fn same(&self, o: &DT) -> bool {
        match (self, o) {
            (a, b) if a.is_val() && b.is_val() => true,
            (DT::Opt(a), DT::Opt(b)) | (DT::List(a), DT::List(b)) => a.same(b),
            (DT::Tup(a), DT::Tup(b)) => a.len() == b.len() && a.iter().zip(b).all(|(x, y)| x.same(y)),
            (DT::Fun(a, r), DT::Fun(b, s)) => a.len() == b.len() && a.iter().zip(b).all(|(x, y)| x.same(y)) && r.same(s),
            (a, b) => a == b,
        }
    }
}

#[derive(Clone, Copy)]
enum Kind {
    Nat,
    Bool,
    Val,
    Fn1,
    Fn2,
    Pred,
    FnOpt,
    FnErr,
}

/// operator struct ↦ (Op1 constructor, fields that are its arguments, state fields with the value they must have)
const OPS: &[(&str, &str, &[(&str, Kind)], &[(&str, &str)])] = &[
    ("TakeOp", "take", &[("count", Kind::Nat)], &[]),
    ("SkipOp", "skip", &[("count", Kind::Nat)], &[]),
    ("TakeLastOp", "takeLast", &[("count", Kind::Nat)], &[]),
    ("SkipLastOp", "skipLast", &[("count", Kind::Nat)], &[]),
    ("TakeWhileOp", "takeWhile", &[("callback", Kind::Pred), ("inclusive", Kind::Bool)], &[]),
    ("SkipWhileOp", "skipWhile", &[("predicate", Kind::Pred)], &[]),
    ("MapOp", "map", &[("func", Kind::Fn1)], &[]),
    ("MapToOp", "mapTo", &[("value", Kind::Val)], &[]),
    ("FilterOp", "filter", &[("filter", Kind::Pred)], &[]),
    ("FilterMapOp", "filterMap", &[("f", Kind::FnOpt)], &[]),
    ("TapOp", "tap", &[], &[("func", "*")]),
    ("OnErrorMapOp", "onErrorMap", &[("func", Kind::FnErr)], &[]),
    ("LastOp", "last", &[], &[("last", "none")]),
    ("DefaultIfEmptyOp", "defaultIfEmpty", &[("default_value", Kind::Val)], &[("is_empty", "true")]),
    ("ScanOp", "scan", &[("binary_op", Kind::Fn2), ("initial_value", Kind::Val)], &[]),
    ("DistinctOp", "distinct", &[], &[]),
    ("DistinctKeyOp", "distinctKey", &[("key", Kind::Fn1)], &[]),
    ("DistinctUntilChangedOp", "distinctUntilChanged", &[], &[]),
    ("DistinctUntilKeyChangedOp", "distinctUntilKeyChanged", &[("key", Kind::Fn1)], &[]),
    ("PairwiseOp", "pairwise", &[], &[]),
    ("BufferWithCountOp", "bufferCount", &[("count", Kind::Nat)], &[]),
    ("ContainsOp", "contains", &[("target", Kind::Val)], &[]),
    ("CollectOp", "collect", &[], &[("collection", "[]")]),
];

#[derive(Clone)]
enum Local {
    Chain(String),
    Val(String, DT),
    /// `let max_fn = |max, v| …;` — translated where its type is known (a cast, a parameter, the return type)
    Closure(syn::ExprClosure),
}

/// `XOp::new(source, a, b) -> Self { Self { source, a, b, state: init } }`
struct NewFn {
    params: Vec<String>,
    fields: Vec<(String, Expr)>,
}

struct MSig {
    /// value parameters (after `self`)
    params: Vec<(String, DT, Type)>,
    /// method-level type parameters with a `Default` bound: extra parameter `dflt_<T>`
    dflts: Vec<String>,
    /// method-level type parameters
    tparams: Vec<String>,
    /// `F: Fn(A, B) -> C` bounds of method-level type parameters
    fn_bounds: HashMap<String, (Vec<Type>, Option<Type>)>,
    /// method-level type parameters as seen inside the method
    tp_map: HashMap<String, DT>,
}

pub struct DCtx<'a> {
    methods: HashMap<String, &'a syn::TraitItemFn>,
    listed: Vec<String>,
    news: HashMap<String, NewFn>,
    aliases: HashMap<String, (Vec<String>, Type)>,
    /// type parameters of the trait: Item ↦ Val, Err ↦ Err
    trait_params: HashMap<String, DT>,
}

struct MFx<'a, 'c> {
    ctx: &'c DCtx<'a>,
    /// method-level type parameters (and those of inlined callees)
    tparams: HashMap<String, DT>,
    locals: HashMap<String, Local>,
    self_chain: String,
    /// `fn(..) -> ..` types of the declared return type, for closures without annotation
    ret_fns: Vec<DT>,
    next_ret_fn: usize,
    depth: usize,
    /// unconstrained type parameters (`fn distinct_key<F>(self, key: F)`) that turned out to be closures: F ↦ its type
    retype: std::cell::RefCell<HashMap<String, DT>>,
    used_ret_fns: Vec<bool>,
}

fn alias_map(items: &[Item], out: &mut HashMap<String, (Vec<String>, Type)>) {
    for it in items {
        if let Item::Type(t) = it {
            let ps: Vec<String> = t
                .generics
                .params
                .iter()
                .filter_map(|p| match p {
                    GenericParam::Type(tp) => Some(tp.ident.to_string()),
                    GenericParam::Lifetime(_) => None,
                    _ => None,
                })
                .collect();
            out.insert(t.ident.to_string(), (ps, (*t.ty).clone()));
        }
    }
}

impl<'a> DCtx<'a> {
    pub fn new(obs_items: &'a [Item], ops_files: &'a [Vec<Item>], listed: &[&str]) -> Res<DCtx<'a>> {
        let mut methods = HashMap::new();
        let mut trait_params = HashMap::new();
        for it in obs_items {
            if let Item::Trait(tr) = it {
                if tr.ident == "ObservableExt" {
                    for p in &tr.generics.params {
                        if let GenericParam::Type(tp) = p {
                            let n = tp.ident.to_string();
                            trait_params.insert(n.clone(), if n == "Err" { DT::Err } else { DT::Val });
                        }
                    }
                    for ti in &tr.items {
                        if let TraitItem::Fn(f) = ti {
                            if f.default.is_some() {
                                methods.insert(f.sig.ident.to_string(), f);
                            }
                        }
                    }
                }
            }
        }
        if methods.is_empty() {
            return bail("trait ObservableExt with provided methods not found");
        }
        let mut aliases = HashMap::new();
        alias_map(obs_items, &mut aliases);
        let mut news = HashMap::new();
        for items in ops_files {
            alias_map(items, &mut aliases);
            for it in items {
                if let Item::Impl(im) = it {
                    if im.trait_.is_some() {
                        continue;
                    }
                    let sn = match &*im.self_ty {
                        Type::Path(tp) => last_seg(&tp.path),
                        _ => continue,
                    };
                    for ii in &im.items {
                        if let ImplItem::Fn(f) = ii {
                            if f.sig.ident != "new" {
                                continue;
                            }
                            let mut params = vec![];
                            for a in &f.sig.inputs {
                                if let FnArg::Typed(pt) = a {
                                    if let Pat::Ident(pi) = &*pt.pat {
                                        params.push(pi.ident.to_string());
                                    }
                                }
                            }
                            // the body must be ONE struct literal of Self
                            let lit = match f.block.stmts.as_slice() {
                                [Stmt::Expr(Expr::Struct(s), None)] => Some(s),
                                _ => None,
                            };
                            if let Some(s) = lit {
                                if s.rest.is_some() {
                                    continue;
                                }
                                let mut fields = vec![];
                                for fv in &s.fields {
                                    if let Member::Named(n) = &fv.member {
                                        fields.push((n.to_string(), fv.expr.clone()));
                                    }
                                }
                                news.insert(sn.clone(), NewFn { params, fields });
                            }
                        }
                    }
                }
            }
        }
        Ok(DCtx { methods, listed: listed.iter().map(|s| s.to_string()).collect(), news, aliases, trait_params })
    }

    fn sig(&self, f: &syn::TraitItemFn) -> Res<MSig> {
        let mut tparams = vec![];
        let mut bounds: Vec<(String, Vec<TypeParamBound>)> = vec![];
        for p in &f.sig.generics.params {
            if let GenericParam::Type(tp) = p {
                tparams.push(tp.ident.to_string());
                bounds.push((tp.ident.to_string(), tp.bounds.iter().cloned().collect()));
            }
        }
        if let Some(w) = &f.sig.generics.where_clause {
            for pr in &w.predicates {
                if let syn::WherePredicate::Type(pt) = pr {
                    if let Type::Path(tp) = &pt.bounded_ty {
                        if tp.path.segments.len() == 1 {
                            bounds.push((last_seg(&tp.path), pt.bounds.iter().cloned().collect()));
                        }
                    }
                }
            }
        }
        let mut dflts = vec![];
        let mut fn_bounds = HashMap::new();
        for (n, bs) in &bounds {
            if !tparams.contains(n) {
                continue;
            }
            for b in bs {
                if let TypeParamBound::Trait(tb) = b {
                    let bn = last_seg(&tb.path);
                    if bn == "Default" && !dflts.contains(n) {
                        dflts.push(n.clone());
                    }
                    if matches!(bn.as_str(), "Fn" | "FnMut" | "FnOnce") {
                        if let syn::PathArguments::Parenthesized(pa) = &tb.path.segments.last().unwrap().arguments {
                            let ins: Vec<Type> = pa.inputs.iter().map(|a| a.ty.clone()).collect();
                            let out = match &pa.output {
                                ReturnType::Default => None,
                                ReturnType::Type(_, t) => Some((**t).clone()),
                            };
                            fn_bounds.insert(n.clone(), (ins, out));
                        }
                    }
                }
            }
        }
        let mut tp_map: HashMap<String, DT> = HashMap::new();
        for t in &tparams {
            tp_map.insert(t.clone(), DT::Param(t.clone()));
        }
        for (n, bs) in &bounds {
            if !tparams.contains(n) {
                continue;
            }
            for b in bs {
                if let TypeParamBound::Trait(tb) = b {
                    if matches!(last_seg(&tb.path).as_str(), "Extend" | "IntoIterator") {
                        // a collection the items are gathered into
                        tp_map.insert(n.clone(), DT::List(Box::new(DT::Val)));
                    }
                }
            }
        }
        dflts.retain(|d| matches!(tp_map.get(d), Some(DT::Param(_))));
        // `F: Fn(Err) -> B`: B is the new error type
        for (ins, out) in fn_bounds.values() {
            if ins.len() == 1 {
                if let (Ok(DT::Err), Some(Type::Path(op))) = (self.dty_with(&ins[0], &tp_map, &HashMap::new()), out) {
                    let on = last_seg(&op.path);
                    if op.path.segments.len() == 1 && tparams.contains(&on) {
                        tp_map.insert(on, DT::Err);
                    }
                }
            }
        }
        let mut params = vec![];
        for a in f.sig.inputs.iter().skip(1) {
            if let FnArg::Typed(pt) = a {
                let n = match &*pt.pat {
                    Pat::Ident(pi) => pi.ident.to_string(),
                    _ => return bail("parameter pattern"),
                };
                let t = self.dty_with(&pt.ty, &tp_map, &fn_bounds)?;
                params.push((n, t, (*pt.ty).clone()));
            }
        }
        Ok(MSig { params, dflts, tparams, fn_bounds, tp_map })
    }

    /// a type as seen inside a method whose type parameters are `tp` (closure-typed parameters through their bound)
    fn dty_with(&self, t: &Type, tp: &HashMap<String, DT>, fnb: &HashMap<String, (Vec<Type>, Option<Type>)>) -> Res<DT> {
        match t {
            Type::Reference(r) => self.dty_with(&r.elem, tp, fnb),
            Type::Paren(p) => self.dty_with(&p.elem, tp, fnb),
            Type::Tuple(tt) => Ok(DT::Tup(tt.elems.iter().map(|e| self.dty_with(e, tp, fnb)).collect::<Res<Vec<_>>>()?)),
            Type::FnPtr(bf) => {
                let ins = bf.inputs.iter().map(|a| self.dty_with(&a.ty, tp, fnb)).collect::<Res<Vec<_>>>()?;
                let out = match &bf.output {
                    ReturnType::Default => return bail("fn type without result"),
                    ReturnType::Type(_, t) => self.dty_with(t, tp, fnb)?,
                };
                Ok(DT::Fun(ins, Box::new(out)))
            }
            Type::Path(p) => {
                let n = last_seg(&p.path);
                let args = type_args(&p.path);
                match n.as_str() {
                    "usize" | "u32" | "u64" => Ok(DT::Nat),
                    "bool" => Ok(DT::Bool),
                    "f64" | "f32" => Ok(DT::F64),
                    "Self" => Ok(DT::Chain),
                    "Option" if args.len() == 1 => Ok(DT::Opt(Box::new(self.dty_with(args[0], tp, fnb)?))),
                    "Vec" if args.len() == 1 => Ok(DT::List(Box::new(self.dty_with(args[0], tp, fnb)?))),
                    _ => {
                        if p.path.segments.len() == 1 && args.is_empty() {
                            if let Some((ins, out)) = fnb.get(&n) {
                                let i = ins.iter().map(|a| self.dty_with(a, tp, fnb)).collect::<Res<Vec<_>>>()?;
                                let o = match out {
                                    Some(t) => self.dty_with(t, tp, fnb)?,
                                    None => DT::Unit,
                                };
                                return Ok(DT::Fun(i, Box::new(o)));
                            }
                            if let Some(d) = tp.get(&n) {
                                return Ok(d.clone());
                            }
                            if let Some(d) = self.trait_params.get(&n) {
                                return Ok(d.clone());
                            }
                        }
                        if let Some((ps, body)) = self.aliases.get(&n) {
                            let mut tp2 = tp.clone();
                            for (pn, a) in ps.iter().zip(args.iter()) {
                                tp2.insert(pn.clone(), self.dty_with(a, tp, fnb)?);
                            }
                            return self.dty_with(body, &tp2, fnb);
                        }
                        if n.ends_with("Op") || n.ends_with("Observable") {
                            return Ok(DT::Chain);
                        }
                        bail(format!("type `{}` not understood", show(t)))
                    }
                }
            }
            _ => bail(format!("type `{}` not understood", show(t))),
        }
    }

    /// the `fn(..) -> ..` types inside a (fully alias-expanded) type, in order of appearance
    fn fn_types(&self, t: &Type, tp: &HashMap<String, DT>, subst: &HashMap<String, Type>, out: &mut Vec<DT>, depth: usize) {
        if depth > 12 {
            return;
        }
        match t {
            Type::FnPtr(_) => {
                // (parameters of an alias are substituted textually first)
                let t2 = subst_type(t, subst);
                if let Ok(d) = self.dty_with(&t2, tp, &HashMap::new()) {
                    out.push(d);
                }
            }
            Type::Tuple(tt) => tt.elems.iter().for_each(|e| self.fn_types(e, tp, subst, out, depth + 1)),
            Type::Reference(r) => self.fn_types(&r.elem, tp, subst, out, depth + 1),
            Type::Paren(p) => self.fn_types(&p.elem, tp, subst, out, depth + 1),
            Type::Path(p) => {
                let n = last_seg(&p.path);
                let args = type_args(&p.path);
                if p.path.segments.len() == 1 && args.is_empty() {
                    if let Some(t2) = subst.get(&n) {
                        self.fn_types(t2, tp, &HashMap::new(), out, depth + 1);
                        return;
                    }
                }
                if let Some((ps, body)) = self.aliases.get(&n) {
                    let mut s2: HashMap<String, Type> = HashMap::new();
                    for (pn, a) in ps.iter().zip(args.iter()) {
                        s2.insert(pn.clone(), subst_type(a, subst));
                    }
                    self.fn_types(body, tp, &s2, out, depth + 1);
                    return;
                }
                for a in args {
                    self.fn_types(a, tp, subst, out, depth + 1);
                }
            }
            _ => {}
        }
    }
}

/// replace single-segment type names by the types they stand for
fn subst_type(t: &Type, subst: &HashMap<String, Type>) -> Type {
    if subst.is_empty() {
        return t.clone();
    }
    struct S<'s>(&'s HashMap<String, Type>);
    impl<'s> S<'s> {
        fn go(&self, t: &Type) -> Type {
            match t {
                Type::Path(p) if p.path.segments.len() == 1 && type_args(&p.path).is_empty() => {
                    let n = last_seg(&p.path);
                    self.0.get(&n).cloned().unwrap_or_else(|| t.clone())
                }
                Type::Path(p) => {
                    let mut p2 = p.clone();
                    if let Some(seg) = p2.path.segments.last_mut() {
                        if let syn::PathArguments::AngleBracketed(ab) = &mut seg.arguments {
                            for a in ab.args.iter_mut() {
                                if let syn::GenericArgument::Type(ty) = a {
                                    *ty = self.go(ty);
                                }
                            }
                        }
                    }
                    Type::Path(p2)
                }
                Type::Tuple(tt) => {
                    let mut t2 = tt.clone();
                    for e in t2.elems.iter_mut() {
                        *e = self.go(e);
                    }
                    Type::Tuple(t2)
                }
                Type::Reference(r) => {
                    let mut r2 = r.clone();
                    r2.elem = Box::new(self.go(&r.elem));
                    Type::Reference(r2)
                }
                Type::FnPtr(bf) => {
                    let mut b2 = bf.clone();
                    for a in b2.inputs.iter_mut() {
                        a.ty = self.go(&a.ty);
                    }
                    if let ReturnType::Type(_, t) = &mut b2.output {
                        **t = self.go(t);
                    }
                    Type::FnPtr(b2)
                }
                _ => t.clone(),
            }
        }
    }
    S(subst).go(t)
}

impl<'a, 'c> MFx<'a, 'c> {
    fn dty(&self, t: &Type) -> Res<DT> {
        self.ctx.dty_with(t, &self.tparams, &HashMap::new())
    }

    fn default_of(&self, t: &DT) -> Res<String> {
        Ok(match t {
            DT::Val => "I.dflt".into(),
            DT::Param(p) => format!("dflt_{}", p),
            DT::Nat => "(0 : Nat)".into(),
            DT::Bool => "false".into(),
            DT::Opt(t) => format!("(none : (Option {}))", t.lean()),
            DT::List(_) => "[]".into(),
            DT::Tup(ts) => format!("({})", ts.iter().map(|x| self.default_of(x)).collect::<Res<Vec<_>>>()?.join(", ")),
            _ => return bail("default of this type"),
        })
    }

    /// a value of type `actual` where `expected` is wanted (closures over typed items are re-read over `Val`)
    fn coerce(&self, e: &str, actual: &DT, expected: &DT) -> Res<String> {
        if actual.same(expected) {
            return Ok(e.to_string());
        }
        match (actual, expected) {
            (DT::Param(p), DT::Fun(..)) => {
                // an unconstrained type parameter used as a closure: that is its type
                self.retype.borrow_mut().insert(p.clone(), expected.clone());
                Ok(e.to_string())
            }
            (_, x) if x.is_val() && !matches!(actual, DT::Fun(..) | DT::Chain) => Ok(format!("(Rs.ToVal.toVal {})", e)),
            (DT::Fun(a, r), DT::Fun(b, s)) if a.len() == b.len() && b.iter().all(|x| x.is_val()) => match (a.len(), &**s) {
                (1, x) if x.is_val() => Ok(format!("(Rs.enc1 {})", e)),
                (1, DT::Bool) if **r == DT::Bool => Ok(format!("(Rs.encPred {})", e)),
                (2, x) if x.is_val() => Ok(format!("(Rs.enc2 {})", e)),
                _ => bail(format!("cannot re-read a closure of type {} as {}", actual.lean(), expected.lean())),
            },
            _ => bail(format!("a value of type {} where {} is wanted: `{}`", actual.lean(), expected.lean(), e)),
        }
    }

    fn closure(&mut self, c: &syn::ExprClosure, want: Option<&DT>) -> Res<(String, DT)> {
        let want: DT = match want {
            Some(DT::Fun(a, r)) => DT::Fun(a.clone(), r.clone()),
            _ => {
                // explicit parameter types, or the next `fn` type of the declared result
                let mut tys = vec![];
                let mut all = true;
                for p in &c.inputs {
                    match p {
                        Pat::Type(pt) => tys.push(self.dty(&pt.ty)?),
                        _ => all = false,
                    }
                }
                if all && !tys.is_empty() {
                    DT::Fun(tys, Box::new(DT::Val)) // result type fixed below
                } else if let Some(k) = (0..self.ret_fns.len()).find(|k| {
                    !self.used_ret_fns.get(*k).copied().unwrap_or(false) && matches!(&self.ret_fns[*k], DT::Fun(a, _) if a.len() == c.inputs.len())
                }) {
                    if self.used_ret_fns.len() < self.ret_fns.len() {
                        self.used_ret_fns.resize(self.ret_fns.len(), false);
                    }
                    self.used_ret_fns[k] = true;
                    self.ret_fns[k].clone()
                } else {
                    return bail(format!("the type of closure `{}` is not known", show(c)));
                }
            }
        };
        let (ins, _) = match &want {
            DT::Fun(a, r) => (a.clone(), r.clone()),
            _ => unreachable!(),
        };
        if ins.len() != c.inputs.len() {
            return bail("closure arity");
        }
        let saved = self.locals.clone();
        let mut ps = String::new();
        for (k, (p, t)) in c.inputs.iter().zip(ins.iter()).enumerate() {
            let n = match p {
                Pat::Ident(pi) => pi.ident.to_string(),
                Pat::Type(pt) => match &*pt.pat {
                    Pat::Ident(pi) => pi.ident.to_string(),
                    _ => format!("_x{}", k),
                },
                Pat::Wild(_) => format!("_x{}", k),
                _ => return bail("closure parameter pattern"),
            };
            let ln = if n.starts_with('_') { format!("_x{}", k) } else { ident(&n) };
            write!(ps, " ({} : {})", ln, t.lean()).unwrap();
            self.locals.insert(n, Local::Val(ln, t.clone()));
        }
        let (b, bt) = self.val(&c.body, match &want {
            DT::Fun(_, r) => Some(&**r),
            _ => None,
        })?;
        self.locals = saved;
        Ok((format!("(fun{} => {})", ps, b), DT::Fun(ins, Box::new(bt))))
    }

    fn nested_fn(&mut self, f: &syn::ItemFn) -> Res<(String, DT)> {
        let mut tp = self.tparams.clone();
        for p in &f.sig.generics.params {
            if let GenericParam::Type(t) = p {
                tp.insert(t.ident.to_string(), DT::Val);
            }
        }
        let saved_tp = std::mem::replace(&mut self.tparams, tp);
        let saved = self.locals.clone();
        let r = (|| {
            let mut ps = String::new();
            let mut ins = vec![];
            for (k, a) in f.sig.inputs.iter().enumerate() {
                if let FnArg::Typed(pt) = a {
                    let t = self.dty(&pt.ty)?;
                    let n = match &*pt.pat {
                        Pat::Ident(pi) => pi.ident.to_string(),
                        _ => format!("_x{}", k),
                    };
                    let ln = if n.starts_with('_') { format!("_x{}", k) } else { ident(&n) };
                    write!(ps, " ({} : {})", ln, t.lean()).unwrap();
                    self.locals.insert(n, Local::Val(ln, t.clone()));
                    ins.push(t);
                }
            }
            let rt = match &f.sig.output {
                ReturnType::Type(_, t) => self.dty(t)?,
                _ => return bail("nested fn without result"),
            };
            let (b, bt) = self.block_val(&f.block, Some(&rt))?;
            let b = self.coerce(&b, &bt, &rt)?;
            Ok((format!("(fun{} => {})", ps, b), DT::Fun(ins, Box::new(rt))))
        })();
        self.locals = saved;
        self.tparams = saved_tp;
        r
    }

    fn block_val(&mut self, b: &Block, want: Option<&DT>) -> Res<(String, DT)> {
        let saved = self.locals.clone();
        let mut lets = String::new();
        let n = b.stmts.len();
        let mut res: Res<(String, DT)> = bail("block without a value");
        for (k, st) in b.stmts.iter().enumerate() {
            match st {
                Stmt::Expr(e, None) if k + 1 == n => {
                    res = self.val(e, want);
                }
                Stmt::Local(l) => {
                    let init = l.init.as_ref().ok_or("let without initialiser")?;
                    let name = match &l.pat {
                        Pat::Ident(pi) => pi.ident.to_string(),
                        Pat::Type(pt) => match &*pt.pat {
                            Pat::Ident(pi) => pi.ident.to_string(),
                            _ => return bail("let pattern"),
                        },
                        _ => return bail("let pattern"),
                    };
                    let (v, t) = self.val(&init.expr, None)?;
                    let ln = ident(&name);
                    write!(lets, "let {} : {} := {}; ", ln, t.lean(), v).unwrap();
                    self.locals.insert(name, Local::Val(ln, t));
                }
                _ => return bail(format!("statement `{}` in a value block", show(st))),
            }
        }
        self.locals = saved;
        let (v, t) = res?;
        if lets.is_empty() {
            Ok((v, t))
        } else {
            Ok((format!("({}{})", lets, v), t))
        }
    }

    fn val(&mut self, e: &Expr, want: Option<&DT>) -> Res<(String, DT)> {
        match e {
            Expr::Paren(p) => self.val(&p.expr, want),
            Expr::Group(p) => self.val(&p.expr, want),
            Expr::Reference(r) => self.val(&r.expr, want),
            Expr::Block(b) => self.block_val(&b.block, want),
            Expr::Lit(l) => match &l.lit {
                Lit::Int(i) => match want {
                    Some(x) if x.is_val() => Ok((format!("(Val.int {})", i.base10_digits()), DT::Val)),
                    _ => Ok((format!("({} : Nat)", i.base10_digits()), DT::Nat)),
                },
                Lit::Bool(b) => Ok((if b.value { "true".into() } else { "false".into() }, DT::Bool)),
                Lit::Float(f) => Ok((format!("(Rs.F64.lit \"{}\")", f.base10_digits()), DT::F64)),
                _ => bail("literal"),
            },
            Expr::Path(p) => {
                let n = last_seg(&p.path);
                if p.path.segments.len() == 1 {
                    if n == "None" {
                        let t = match want {
                            Some(DT::Opt(t)) => (**t).clone(),
                            _ => DT::Val,
                        };
                        return Ok((format!("(none : (Option {}))", t.lean()), DT::Opt(Box::new(t))));
                    }
                    match self.locals.get(&n).cloned() {
                        Some(Local::Val(l, t)) => return Ok((l, t)),
                        Some(Local::Closure(c)) => return self.closure(&c, want),
                        Some(Local::Chain(_)) => return bail(format!("`{}` is a pipeline, not a value", n)),
                        None => {}
                    }
                }
                bail(format!("name `{}`", show(e)))
            }
            Expr::Closure(c) => self.closure(c, want),
            Expr::Cast(c) => {
                let t = self.dty(&c.ty)?;
                match &t {
                    DT::F64 => {
                        let (v, vt) = self.val(&c.expr, None)?;
                        if vt == DT::Nat {
                            Ok((format!("(Rs.F64.ofNat {})", v), DT::F64))
                        } else {
                            bail("cast to f64")
                        }
                    }
                    DT::Fun(..) => {
                        if let Some(k) = (0..self.ret_fns.len()).find(|k| !self.used_ret_fns.get(*k).copied().unwrap_or(false) && self.ret_fns[*k].same(&t)) {
                            if self.used_ret_fns.len() < self.ret_fns.len() {
                                self.used_ret_fns.resize(self.ret_fns.len(), false);
                            }
                            self.used_ret_fns[k] = true;
                        }
                        let (v, vt) = self.val(&c.expr, Some(&t))?;
                        if !vt.same(&t) {
                            return bail(format!("cast of a {} to {}", vt.lean(), t.lean()));
                        }
                        Ok((v, t))
                    }
                    _ => bail(format!("cast to `{}`", show(&c.ty))),
                }
            }
            Expr::Unary(u) => match u.op {
                UnOp::Not(_) => {
                    let (v, t) = self.val(&u.expr, Some(&DT::Bool))?;
                    if t != DT::Bool {
                        return bail("`!` on a non-bool");
                    }
                    Ok((format!("(!{})", v), DT::Bool))
                }
                UnOp::Deref(_) => self.val(&u.expr, want),
                _ => bail("unary operator"),
            },
            Expr::Binary(b) => {
                let (l, lt) = self.val(&b.left, None)?;
                let (r, rt) = self.val(&b.right, Some(&lt))?;
                match (&b.op, &lt, &rt) {
                    (BinOp::Add(_), DT::Nat, DT::Nat) => Ok((format!("({} + {})", l, r), DT::Nat)),
                    (BinOp::Add(_), a, c) if a.is_val() && c.is_val() => Ok((format!("(I.add {} {})", l, r), lt.clone())),
                    (BinOp::Mul(_), a, DT::F64) if a.is_val() => Ok((format!("(I.mulf {} {})", l, r), lt.clone())),
                    (BinOp::Div(_), DT::F64, DT::F64) => Ok((format!("(Rs.F64.div {} {})", l, r), DT::F64)),
                    (BinOp::Gt(_), a, c) if a.is_val() && c.is_val() => Ok((format!("(I.gt {} {})", l, r), DT::Bool)),
                    (BinOp::Lt(_), a, c) if a.is_val() && c.is_val() => Ok((format!("(I.lt {} {})", l, r), DT::Bool)),
                    _ => bail(format!("operator in `{}` on {} and {}", show(e), lt.lean(), rt.lean())),
                }
            }
            Expr::Field(f) => {
                let (v, t) = self.val(&f.base, None)?;
                match (&t, &f.member) {
                    (DT::Tup(ts), Member::Unnamed(i)) if ts.len() == 2 && (i.index as usize) < 2 => {
                        Ok((format!("{}.{}", v, i.index + 1), ts[i.index as usize].clone()))
                    }
                    _ => bail(format!("field access `{}`", show(e))),
                }
            }
            Expr::Tuple(t) => {
                let wants: Vec<Option<DT>> = match want {
                    Some(DT::Tup(ts)) if ts.len() == t.elems.len() => ts.iter().cloned().map(Some).collect(),
                    _ => vec![None; t.elems.len()],
                };
                let mut vs = vec![];
                let mut ts = vec![];
                for (x, w) in t.elems.iter().zip(wants.iter()) {
                    let (v, vt) = self.val(x, w.as_ref())?;
                    vs.push(v);
                    ts.push(vt);
                }
                Ok((format!("({})", vs.join(", ")), DT::Tup(ts)))
            }
            Expr::Call(c) => {
                if let Expr::Path(p) = &*c.func {
                    let n = last_seg(&p.path);
                    if n == "Some" && c.args.len() == 1 {
                        let w = match want {
                            Some(DT::Opt(t)) => Some((**t).clone()),
                            _ => None,
                        };
                        let (v, t) = self.val(&c.args[0], w.as_ref())?;
                        return Ok((format!("(some {})", v), DT::Opt(Box::new(t))));
                    }
                    if n == "default" && c.args.is_empty() && p.path.segments.len() == 2 {
                        let tn = p.path.segments[0].ident.to_string();
                        let t = if let Some(d) = self.tparams.get(&tn) {
                            d.clone()
                        } else if let Some(d) = self.ctx.trait_params.get(&tn) {
                            d.clone()
                        } else {
                            match tn.as_str() {
                                "usize" => DT::Nat,
                                "bool" => DT::Bool,
                                _ => return bail(format!("`{}::default()`", tn)),
                            }
                        };
                        return Ok((self.default_of(&t)?, t));
                    }
                }
                bail(format!("call `{}`", show(e)))
            }
            Expr::MethodCall(m) => {
                let n = m.method.to_string();
                match (n.as_str(), m.args.len()) {
                    ("clone", 0) => self.val(&m.receiver, want),
                    ("unwrap", 0) => {
                        let (v, t) = self.val(&m.receiver, None)?;
                        match t {
                            DT::Opt(inner) => Ok((format!("(Rs.unwrapP {})", v), *inner)),
                            _ => bail("unwrap of a non-option"),
                        }
                    }
                    _ => bail(format!("method `{}` in a value", n)),
                }
            }
            Expr::Match(m) => {
                let (s, st) = self.val(&m.expr, None)?;
                let mut out = format!("(match {} with", s);
                let mut rt: Option<DT> = want.cloned();
                for (k, arm) in m.arms.iter().enumerate() {
                    let (pat, guard) = match &arm.pat {
                        Pat::Guard(g) => (&*g.pat, Some(&*g.guard)),
                        p => (p, None),
                    };
                    let saved = self.locals.clone();
                    let ps = self.pat(pat, &st)?;
                    let (b, bt) = self.val(&arm.body, rt.as_ref())?;
                    if rt.is_none() {
                        rt = Some(bt.clone());
                    }
                    let body = match guard {
                        None => b,
                        Some(g) => {
                            // a guarded arm falls through to the arms below: supported when ONE catch-all arm follows
                            let (gv, gt) = self.val(g, Some(&DT::Bool))?;
                            if gt != DT::Bool {
                                return bail("guard that is not a bool");
                            }
                            if k + 2 != m.arms.len() || !matches!(&m.arms[k + 1].pat, Pat::Wild(_)) {
                                return bail("a guarded arm that is not followed by exactly one catch-all arm");
                            }
                            self.locals = saved.clone();
                            let (fb, _) = self.val(&m.arms[k + 1].body, rt.as_ref())?;
                            // (names bound by the pattern must not be used by the fall-through arm: checked by Lean's scoping only
                            // if they shadow; the catch-all body is evaluated in the outer scope above)
                            format!("if {} then {} else {}", gv, b, fb)
                        }
                    };
                    self.locals = saved;
                    write!(out, " | {} => {}", ps, body).unwrap();
                }
                out.push(')');
                Ok((out, rt.ok_or("match without arms")?))
            }
            Expr::If(i) => {
                let (c, ct) = self.val(&i.cond, Some(&DT::Bool))?;
                if ct != DT::Bool {
                    return bail("condition that is not a bool");
                }
                let (a, at) = self.block_val(&i.then_branch, want)?;
                let (b, _) = match &i.else_branch {
                    Some((_, e)) => self.val(e, Some(&at))?,
                    None => return bail("if without else in a value"),
                };
                Ok((format!("(if {} then {} else {})", c, a, b), at))
            }
            _ => bail(format!("expression `{}`", show(e))),
        }
    }

    fn pat(&mut self, p: &Pat, t: &DT) -> Res<String> {
        match p {
            Pat::Wild(_) => Ok("_".into()),
            Pat::Ident(pi) => {
                let n = pi.ident.to_string();
                if n == "None" {
                    return Ok("none".into());
                }
                let ln = ident(&n);
                self.locals.insert(n, Local::Val(ln.clone(), t.clone()));
                Ok(ln)
            }
            Pat::Path(pp) if last_seg(&pp.path) == "None" => Ok("none".into()),
            Pat::TupleStruct(ts) if last_seg(&ts.path) == "Some" && ts.elems.len() == 1 => {
                let inner = match t {
                    DT::Opt(x) => (**x).clone(),
                    _ => return bail("`Some(_)` pattern on a non-option"),
                };
                Ok(format!("(some {})", self.pat(&ts.elems[0], &inner)?))
            }
            Pat::Tuple(tp) => match t {
                DT::Tup(ts) if ts.len() == tp.elems.len() => {
                    let mut parts = vec![];
                    for (e, et) in tp.elems.iter().zip(ts.iter()) {
                        parts.push(self.pat(e, et)?);
                    }
                    Ok(format!("({})", parts.join(", ")))
                }
                _ => bail("tuple pattern"),
            },
            Pat::Reference(r) => self.pat(&r.pat, t),
            _ => bail(format!("pattern `{}`", show(p))),
        }
    }

    // ------------------------------------------------------------------ pipelines

    fn is_chain_expr(&self, e: &Expr) -> bool {
        match e {
            Expr::Paren(p) => self.is_chain_expr(&p.expr),
            Expr::Path(p) if p.path.segments.len() == 1 => {
                let n = last_seg(&p.path);
                n == "self" || matches!(self.locals.get(&n), Some(Local::Chain(_)))
            }
            Expr::Struct(s) => last_seg(&s.path).ends_with("Op"),
            Expr::Call(c) => match &*c.func {
                Expr::Path(p) => p.path.segments.len() >= 2 && last_seg(&p.path) == "new" && p.path.segments[p.path.segments.len() - 2].ident.to_string().ends_with("Op"),
                _ => false,
            },
            Expr::MethodCall(m) => self.is_chain_expr(&m.receiver) && self.ctx.methods.contains_key(&m.method.to_string()),
            _ => false,
        }
    }

    fn op(&mut self, sname: &str, src: &str, fields: &[(String, String, DT)]) -> Res<String> {
        let spec = OPS.iter().find(|o| o.0 == sname).ok_or(format!("operator struct `{}` has no entry in the table", sname))?;
        let mut args = String::new();
        for (f, k) in spec.2 {
            let (v, t) = fields.iter().find(|x| &x.0 == f).map(|x| (x.1.clone(), x.2.clone())).ok_or(format!("{}: field `{}` not initialised", sname, f))?;
            let want = match k {
                Kind::Nat => DT::Nat,
                Kind::Bool => DT::Bool,
                Kind::Val => DT::Val,
                Kind::Fn1 => DT::Fun(vec![DT::Val], Box::new(DT::Val)),
                Kind::Fn2 => DT::Fun(vec![DT::Val, DT::Val], Box::new(DT::Val)),
                Kind::Pred => DT::Fun(vec![DT::Val], Box::new(DT::Bool)),
                Kind::FnOpt => DT::Fun(vec![DT::Val], Box::new(DT::Opt(Box::new(DT::Val)))),
                Kind::FnErr => DT::Fun(vec![DT::Err], Box::new(DT::Err)),
            };
            let c = self.coerce(&v, &t, &want).map_err(|e| format!("{}.{}: {}", sname, f, e))?;
            write!(args, " {}", c).unwrap();
        }
        for (f, must) in spec.3 {
            let v = fields.iter().find(|x| &x.0 == f).map(|x| x.1.clone()).ok_or(format!("{}: state field `{}` not initialised", sname, f))?;
            if *must != "*" && v != *must && !v.starts_with(&format!("({} :", must)) {
                return bail(format!("{}: state field `{}` starts as `{}`, the model's initial state assumes `{}`", sname, f, v, must));
            }
        }
        for (f, _, _) in fields {
            if !spec.2.iter().any(|x| x.0 == f) && !spec.3.iter().any(|x| x.0 == f) {
                return bail(format!("{}: field `{}` is not known to the table", sname, f));
            }
        }
        let ctor = if args.is_empty() { format!("Spec.Op1.{}", spec.1) } else { format!("(Spec.Op1.{}{})", spec.1, args) };
        Ok(format!("({} ++ [{}])", src, ctor))
    }

    /// the expected type of a field of an operator struct, to read literals and closures against
    fn field_want(sname: &str, f: &str) -> Option<DT> {
        let spec = OPS.iter().find(|o| o.0 == sname)?;
        let k = spec.2.iter().find(|x| x.0 == f)?.1;
        Some(match k {
            Kind::Nat => DT::Nat,
            Kind::Bool => DT::Bool,
            _ => return None,
        })
    }

    fn chain(&mut self, e: &Expr) -> Res<String> {
        match e {
            Expr::Paren(p) => self.chain(&p.expr),
            Expr::Path(p) if p.path.segments.len() == 1 => {
                let n = last_seg(&p.path);
                if n == "self" {
                    return Ok(self.self_chain.clone());
                }
                match self.locals.get(&n) {
                    Some(Local::Chain(c)) => Ok(c.clone()),
                    _ => bail(format!("`{}` is not a pipeline", n)),
                }
            }
            Expr::Struct(s) => {
                let sname = last_seg(&s.path);
                if s.rest.is_some() {
                    return bail("struct update syntax");
                }
                let mut src = None;
                let mut fields = vec![];
                for fv in &s.fields {
                    let fname = match &fv.member {
                        Member::Named(n) => n.to_string(),
                        _ => return bail("tuple struct literal"),
                    };
                    if fname == "source" {
                        src = Some(self.chain(&fv.expr)?);
                    } else if fname.starts_with('_') {
                        continue; // TypeHint / PhantomData
                    } else {
                        let w = Self::field_want(&sname, &fname);
                        let (v, t) = self.val(&fv.expr, w.as_ref())?;
                        fields.push((fname, v, t));
                    }
                }
                let src = src.ok_or("operator struct without `source`")?;
                self.op(&sname, &src, &fields)
            }
            Expr::Call(c) => {
                let p = match &*c.func {
                    Expr::Path(p) => p,
                    _ => return bail("call"),
                };
                let segs: Vec<String> = p.path.segments.iter().map(|s| s.ident.to_string()).collect();
                if segs.len() < 2 || segs[segs.len() - 1] != "new" {
                    return bail(format!("call `{}`", show(e)));
                }
                let sname = segs[segs.len() - 2].clone();
                let nf = self.ctx.news.get(&sname).ok_or(format!("`{}::new` not found (or not a single struct literal)", sname))?;
                if nf.params.len() != c.args.len() || nf.params.first().map(|s| s.as_str()) != Some("source") {
                    return bail(format!("`{}::new`: arity / first parameter is not `source`", sname));
                }
                let src = self.chain(&c.args[0])?;
                // the arguments, named as the parameters of `new`; then its struct literal is read in that scope
                let mut argv: HashMap<String, Local> = HashMap::new();
                for (pn, a) in nf.params.iter().zip(c.args.iter()).skip(1) {
                    // which field does this parameter initialise (for the expected type of literals)?
                    let fld = nf.fields.iter().find(|(_, ex)| matches!(ex, Expr::Path(pp) if last_seg(&pp.path) == *pn)).map(|x| x.0.clone());
                    let w = fld.and_then(|f| Self::field_want(&sname, &f));
                    let (v, t) = self.val(a, w.as_ref())?;
                    argv.insert(pn.clone(), Local::Val(v, t));
                }
                let saved = std::mem::replace(&mut self.locals, argv);
                let r = (|| {
                    let mut fields = vec![];
                    for (fname, ex) in &nf.fields {
                        if fname == "source" {
                            if !matches!(ex, Expr::Path(pp) if last_seg(&pp.path) == "source") {
                                return bail(format!("`{}::new` does not pass `source` through", sname));
                            }
                            continue;
                        }
                        if fname.starts_with('_') {
                            continue;
                        }
                        let w = Self::field_want(&sname, fname);
                        let (v, t) = self.val(ex, w.as_ref())?;
                        fields.push((fname.clone(), v, t));
                    }
                    Ok(fields)
                })();
                self.locals = saved;
                let fields = r?;
                self.op(&sname, &src, &fields)
            }
            Expr::MethodCall(m) => {
                let name = m.method.to_string();
                let recv = self.chain(&m.receiver)?;
                let f = *self.ctx.methods.get(&name).ok_or(format!("`.{}` is not a provided method of ObservableExt", name))?;
                let sig = self.ctx.sig(f)?;
                if sig.params.len() != m.args.len() {
                    return bail(format!("arity of `{}`", name));
                }
                // arguments, read against the callee's parameter types where those are concrete
                let mut binds: HashMap<String, DT> = HashMap::new();
                let mut argv = vec![];
                for ((_, pt, psyn), a) in sig.params.iter().zip(m.args.iter()) {
                    let want = match pt {
                        DT::Nat | DT::Bool => Some(pt.clone()),
                        _ => None,
                    };
                    let (v, t) = self.val(a, want.as_ref())?;
                    self.unify(psyn, &t, &sig, &mut binds);
                    argv.push((v, t));
                }
                if self.ctx.listed.contains(&name) {
                    let mut call = format!("ObservableExt.{} I", ident(&name));
                    for d in &sig.dflts {
                        let b = binds.get(d).cloned().ok_or(format!("`{}`: cannot tell what `{}` is at this call", name, d))?;
                        let dv = self.default_of(&b)?;
                        write!(call, " {}", self.coerce(&dv, &b, &DT::Val)?).unwrap();
                    }
                    for ((v, t), (_, pt, _)) in argv.iter().zip(sig.params.iter()) {
                        write!(call, " {}", self.coerce(v, t, pt)?).unwrap();
                    }
                    Ok(format!("({} ++ {})", recv, call))
                } else {
                    // not listed: its body is read in place
                    if self.depth > 6 {
                        return bail("inlining too deep");
                    }
                    let mut locals = HashMap::new();
                    for ((v, t), (pn, _, _)) in argv.iter().zip(sig.params.iter()) {
                        locals.insert(pn.clone(), Local::Val(v.clone(), t.clone()));
                    }
                    let mut tps = sig.tp_map.clone();
                    for tp in &sig.tparams {
                        if let Some(b) = binds.get(tp) {
                            tps.insert(tp.clone(), b.clone());
                        }
                    }
                    let mut sub = MFx { ctx: self.ctx, tparams: tps, locals, self_chain: recv, ret_fns: vec![], next_ret_fn: 0, depth: self.depth + 1, retype: Default::default(), used_ret_fns: vec![] };
                    sub.body(f.default.as_ref().unwrap())
                }
            }
            _ => bail(format!("`{}` is not a pipeline expression", show(e))),
        }
    }

    /// bind the callee's method-level type parameters by matching a declared parameter type against an argument
    fn unify(&self, decl: &Type, actual: &DT, sig: &MSig, binds: &mut HashMap<String, DT>) {
        match decl {
            Type::Reference(r) => self.unify(&r.elem, actual, sig, binds),
            Type::Path(p) if p.path.segments.len() == 1 && type_args(&p.path).is_empty() => {
                let n = last_seg(&p.path);
                if let Some((ins, out)) = sig.fn_bounds.get(&n) {
                    if let DT::Fun(a, r) = actual {
                        for (d, x) in ins.iter().zip(a.iter()) {
                            self.unify(d, x, sig, binds);
                        }
                        if let Some(o) = out {
                            self.unify(o, r, sig, binds);
                        }
                    }
                } else if sig.tparams.contains(&n) {
                    binds.entry(n).or_insert_with(|| actual.clone());
                }
            }
            Type::Path(p) => {
                let n = last_seg(&p.path);
                let args = type_args(&p.path);
                if let (true, 1, DT::Opt(x)) = (n == "Option", args.len(), actual) {
                    self.unify(args[0], x, sig, binds);
                }
            }
            Type::Tuple(tt) => {
                if let DT::Tup(ts) = actual {
                    for (d, x) in tt.elems.iter().zip(ts.iter()) {
                        self.unify(d, x, sig, binds);
                    }
                }
            }
            _ => {}
        }
    }

    fn body(&mut self, b: &Block) -> Res<String> {
        let n = b.stmts.len();
        for (k, st) in b.stmts.iter().enumerate() {
            match st {
                Stmt::Expr(e, None) if k + 1 == n => return self.chain(e),
                Stmt::Item(Item::Fn(f)) => {
                    let (v, t) = self.nested_fn(f)?;
                    self.locals.insert(f.sig.ident.to_string(), Local::Val(v, t));
                }
                Stmt::Local(l) => {
                    let init = l.init.as_ref().ok_or("let without initialiser")?;
                    let (name, ann) = match &l.pat {
                        Pat::Ident(pi) => (pi.ident.to_string(), None),
                        Pat::Type(pt) => match &*pt.pat {
                            Pat::Ident(pi) => (pi.ident.to_string(), Some(&*pt.ty)),
                            _ => return bail("let pattern"),
                        },
                        _ => return bail("let pattern"),
                    };
                    if self.is_chain_expr(&init.expr) {
                        let c = self.chain(&init.expr)?;
                        self.locals.insert(name, Local::Chain(c));
                    } else if let Expr::Closure(c) = &*init.expr {
                        self.locals.insert(name, Local::Closure(c.clone()));
                    } else {
                        let w = match ann {
                            Some(t) => self.dty(t).ok(),
                            None => None,
                        };
                        let (v, t) = self.val(&init.expr, w.as_ref())?;
                        self.locals.insert(name, Local::Val(v, t));
                    }
                }
                _ => return bail(format!("statement `{}`", show(st))),
            }
        }
        bail("method body without a result")
    }
}

/// Translate the listed provided methods of `ObservableExt`.
pub fn translate_derived(obs_items: &[Item], ops_files: &[Vec<Item>], listed: &[&str]) -> (String, usize) {
    let mut out = String::new();
    let mut failed = 0;
    let ctx = match DCtx::new(obs_items, ops_files, listed) {
        Ok(c) => c,
        Err(e) => {
            writeln!(out, "-- TRANSLATION FAILED: {}", e).unwrap();
            return (out, 1);
        }
    };
    for name in listed {
        let r: Res<String> = (|| {
            let f = *ctx.methods.get(*name).ok_or(format!("provided method `{}` not found", name))?;
            let sig = ctx.sig(f)?;
            let tparams = sig.tp_map.clone();
            let mut locals = HashMap::new();
            for (n, t, _) in &sig.params {
                locals.insert(n.clone(), Local::Val(ident(n), t.clone()));
            }
            let mut ret_fns = vec![];
            if let ReturnType::Type(_, t) = &f.sig.output {
                ctx.fn_types(t, &tparams, &HashMap::new(), &mut ret_fns, 0);
            }
            let mut fx = MFx { ctx: &ctx, tparams, locals, self_chain: "[]".into(), ret_fns, next_ret_fn: 0, depth: 0, retype: Default::default(), used_ret_fns: vec![] };
            let body = fx.body(f.default.as_ref().unwrap())?;
            let mut ps = String::from(" (I : Rs.ItemOps)");
            for d in &sig.dflts {
                write!(ps, " (dflt_{} : Val)", d).unwrap();
            }
            let rt = fx.retype.borrow();
            for (n, t, _) in &sig.params {
                let t2 = match t {
                    DT::Param(p) => rt.get(p).cloned().unwrap_or(t.clone()),
                    _ => t.clone(),
                };
                write!(ps, " ({} : {})", ident(n), t2.lean()).unwrap();
            }
            Ok(format!("def ObservableExt.{}{} : List Spec.Op1 :=\n  {}\n\n", ident(name), ps, body))
        })();
        match r {
            Ok(s) => out += &s,
            Err(e) => {
                failed += 1;
                eprintln!("observable.rs: ObservableExt::{}: {}", name, e);
                writeln!(out, "-- TRANSLATION FAILED for ObservableExt::{}: {}\n", name, e.replace('\n', " ")).unwrap();
            }
        }
    }
    (out, failed)
}
