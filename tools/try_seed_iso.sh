#!/bin/bash
# usage: try_seed_iso.sh <seed id> <property> [<property> ...]
# Like try_seed.sh but leaves /repo untouched: works on scratch copies of /repo and /verif under /tmp
# (for use while something else builds against /repo).  The copies are removed afterwards.
set -u
ID=$1; shift
R=/tmp/repo-iso-$$; V=/tmp/verif-iso-$$
rsync -a --exclude target --exclude .git /repo/ $R/
( cd $R && git init -q . 2>/dev/null; patch -p1 -s < /verif/seeded/$ID/patch.diff ) || { echo "patch does not apply"; rm -rf $R; exit 2; }
rsync -a --exclude .git --exclude replays --exclude work /verif/ $V/
sed -i "s#path = \"/repo\"#path = \"$R\"#" $V/harness/Cargo.toml
cd $V; export VERIF_REPO=$R
for P in "$@"; do
  OUT=$(./check $P 2>&1); RC=$?
  echo "== $P rc=$RC"
  echo "$OUT" | grep -E "^VIOLATION|^\[" | cut -c1-220
  mkdir -p /verif/seeded/$ID/results
  echo "$OUT" | grep -E "^VIOLATION|^KNOWN|^\[" > /verif/seeded/$ID/results/$P.txt
  for f in $(echo "$OUT" | grep -oE "replay=[^ ]+" | cut -d= -f2 | head -2); do cp $f /verif/seeded/$ID/results/ 2>/dev/null; done
done
cd /; rm -rf $R $V
