#!/bin/bash
# usage: try_seed.sh <seed id> <property> [<property> ...]
# Applies /verif/seeded/<id>/patch.diff to /repo, runs the given checks, reverts.
set -u
ID=$1; shift
cd /verif
git -C /repo apply /verif/seeded/$ID/patch.diff || { echo "patch does not apply"; exit 2; }
for P in "$@"; do
  OUT=$(./check $P 2>&1)
  RC=$?
  echo "== $P rc=$RC"
  echo "$OUT" | grep -E "^VIOLATION|^\[" | cut -c1-220
  mkdir -p seeded/$ID/results
  echo "$OUT" | grep -E "^VIOLATION|^KNOWN|^\[" > seeded/$ID/results/$P.txt
  for f in $(echo "$OUT" | grep -oE "replay=[^ ]+" | cut -d= -f2 | head -2); do cp $f seeded/$ID/results/ 2>/dev/null; done
  rm -rf replays/$P
done
git -C /repo checkout -- .
git -C /repo status --short | head -3
