#!/bin/bash
# every quick check once on the current tree; one summary line per property (a population imported by another plugin
# must be re-checked there too)
cd /verif
for i in $(seq -w 1 20); do ./check C$i --tier quick 2>&1 | grep -v "^KNOWN" | tail -1; done
