#!/usr/bin/env python3
"""Regenerate MANIFEST.json from the registry below (kept here so that the
manifest is always schema-valid and in step with the plugins that exist)."""
import json
import os
import sys

ROOT = os.path.dirname(os.path.dirname(os.path.abspath(__file__)))

COMMON_NOTE = ("Trusted: Lean 4.33 kernel + propext/Classical.choice/Quot.sound (audited per run); the "
               "hand-written model is tied to /repo only by the sampled correspondence check (counts in "
               "evidence); harness, driver, protocol and comparison script; rustc and std semantics. ")

CLAIMS = {
 "C03": dict(
  text="Lean 4 theorems (C03_operator, C03_chain, C03_pipeline, C03_error_only, C03_source, derived-operator theorems) prove for ALL finite inputs, all operator parameters, all closures and chains of any length that the observer state machines compute the documented list semantics; the machines are tied to /repo on every run by differential execution of the real crate against the compiled Lean model (bounded-exhaustive depth-1 + random chains).",
  note=COMMON_NOTE + "Spec decisions where docs are silent are marked DECISION in Spec/ListSem.lean.",
  technique="Lean 4 proof (structural induction over input lists and operator chains) over a hand-written executable model + differential correspondence check against the real crate"),
 "C04": dict(
  text="Lean 4 theorems C04_merge … C04_buffer_no_loss, C04_one_terminal prove for EVERY timeline (all interleavings, terminals anywhere, malformed inputs) that the two-input cells compute the list-level definition of each combinator; correspondence: all merged timelines of two short scripts per operator on the real crate (local and _threads) + random cold/hot mixes.",
  note=COMMON_NOTE + "zip completes after both inputs have (docs silent).",
  technique="Lean 4 proof (induction over the merged timeline with generalised cell state) + differential correspondence check"),
 "C01": dict(
  text="Lean 4 theorem C01_grammar: for EVERY pipeline of the modelled synchronous catalogue (structural induction over the Pipe type: hot subjects, all cold sources incl. create with malformed scripts, every single-input operator with arbitrary closures/parameters, start_with, defer, the eight two-input combinators; any depth/shape) and EVERY event list (post-terminal events, repeated terminals, unsubscription anywhere) the probe log is items* terminal?. Correspondence on random pipelines under the kind projection; oracle regex N*(E|C)? on the implementation log.",
  note=COMMON_NOTE + "Catalogue: the Pipe type of RxModel/Pipe/World.lean; scheduler-using operators, merge_all, share and group_by are exercised by their own suites. Rust move semantics (an un-shared observer cannot be called after its terminal) is modelled, not verified.",
  technique="Lean 4 proof (structural induction over pipelines + simulation lemmas per node kind + discipline lemma for slot-owning cells) + differential correspondence check"),
 "C02": dict(
  text="Lean 4 theorem C02_silent: for every pipeline of the synchronous catalogue, every history before the cut and every continuation, nothing is delivered after unsubscribe() (invariant `quiet`: every subscriber slot at a leaf is empty, preserved by every action and implying empty output). Correspondence: unsub injected at every position of the C01 case population; oracle: no delivery after the cut on the implementation.",
  note=COMMON_NOTE + "Partial: synchronous catalogue only in this revision; scheduler-owned tasks (delay, observe_on, debounce, throttle, interval …) and the lock-level interleavings of _threads forms are not yet covered here.",
  technique="Lean 4 proof (invariant by induction over event lists and pipelines) + differential correspondence check"),
 "C17": dict(
  text="Lean 4 theorems C17_sound, C17_monotone, C17_after_unsub over the subscription algebra of the synchronous catalogue ((), Subscriber, ZipSubscription, boxed): closed ⇒ quiet ⇒ nothing delivered, for all pipelines and histories. Correspondence: is_closed() sampled after every event; oracle on the implementation: no delivery after closed=1, monotone, closed after unsubscribe.",
  note=COMMON_NOTE + "Partial: MultiSubscription/TaskHandle/RefCount/Finalizer subscriptions and late append are not yet covered in this revision.",
  technique="Lean 4 proof (structural induction, closed ⇒ quiet invariant) + differential correspondence check"),
}

def chk(pid, c):
    return {"property_id": pid, "quick_cmd": f"./check {pid} --tier quick",
            "thorough_cmd": f"./check {pid} --tier thorough",
            "evidence_file": f"/verif/evidence/{pid}.json",
            "replay_cmd_template": f"./check {pid} --replay {{path}}",
            "engine": "lean4-model+correspondence",
            "level_claimed": {"category": "proof", "text": c["text"], "design_ref": f"DESIGN.md §6 {pid}"},
            "level_note": c["note"], "technique": c["technique"]}

def main():
    hooks_commits = []
    hp = os.path.join(ROOT, "hooks_commits.txt")
    if os.path.exists(hp):
        hooks_commits = [l.split()[0] for l in open(hp) if l.strip() and not l.startswith("#")]
    all_ids = [f"C{i:02d}" for i in range(1, 21)]
    checks = [chk(p, CLAIMS[p]) for p in all_ids if p in CLAIMS]
    m = {"version": 1, "setup_cmd": "./setup.sh",
         "hooks": {"guard": "verif_hooks",
                   "enable": "cargo feature `verif_hooks` of the rxrust crate, enabled by harness/Cargo.toml on its path dependency /repo",
                   "baseline_off_cmd": "cd /repo && cargo test --workspace --no-fail-fast --offline",
                   "source_commits": hooks_commits, "add_only": True},
         "engines": [{"name": "lean4-model+correspondence", "path": "/verif/check",
                      "serves_properties": [c["property_id"] for c in checks],
                      "kind_free_text": "Lean 4 theorems over an executable model (lean/RxModel) + Rust harness (harness/) running the real crate + compiled Lean driver (rxdriver) + python orchestration (vlib/)"}],
         "checks": checks,
         "notes": "See DESIGN.md. Properties are claimed as their theorems and suites land.",
         "not_applicable": [{"property_id": p, "reason": "not yet built in this revision (planned, DESIGN.md §6); not a claim that the technique cannot apply"}
                            for p in all_ids if p not in CLAIMS]}
    json.dump(m, open(os.path.join(ROOT, "MANIFEST.json"), "w"), indent=1)
    print("claimed:", [c["property_id"] for c in checks])

if __name__ == "__main__":
    main()
