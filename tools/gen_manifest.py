#!/usr/bin/env python3
"""Regenerate MANIFEST.json from the registry below (kept here so that the
manifest is always schema-valid and in step with the plugins that exist)."""
import json
import os
import sys

ROOT = os.path.dirname(os.path.dirname(os.path.abspath(__file__)))

COMMON_NOTE = ("Trusted: Lean 4.33 kernel + propext/Classical.choice/Quot.sound (audited per run); the "
               "hand-written model is tied to /repo only by the sampled correspondence check (counts in "
               "evidence); harness, driver, protocol and comparison script; rustc and std semantics. ")

CLAIMS = {
 "C03": dict(
  text="Lean 4 theorems (C03_operator, C03_chain, C03_pipeline, C03_error_only, C03_source, derived-operator theorems) prove for ALL finite inputs, all operator parameters, all closures and chains of any length that the observer state machines compute the documented list semantics; the machines are tied to /repo on every run by differential execution of the real crate against the compiled Lean model (bounded-exhaustive depth-1 + random chains).",
  note=COMMON_NOTE + "Spec decisions where docs are silent are marked DECISION in Spec/ListSem.lean.",
  technique="Lean 4 proof (structural induction over input lists and operator chains) over a hand-written executable model + differential correspondence check against the real crate"),
 "C04": dict(
  text="Lean 4 theorems C04_merge … C04_buffer_no_loss, C04_one_terminal prove for EVERY timeline (all interleavings, terminals anywhere, malformed inputs) that the two-input cells compute the list-level definition of each combinator; correspondence: all merged timelines of two short scripts per operator on the real crate (local and _threads) + random cold/hot mixes.",
  note=COMMON_NOTE + "zip completes after both inputs have (docs silent).",
  technique="Lean 4 proof (induction over the merged timeline with generalised cell state) + differential correspondence check"),
 "C01": dict(
  text="Lean 4 theorem C01_grammar: for EVERY pipeline of the modelled synchronous catalogue (structural induction over the Pipe type: hot subjects, all cold sources incl. create with malformed scripts, every single-input operator with arbitrary closures/parameters, start_with, defer, the eight two-input combinators; any depth/shape) and EVERY event list (post-terminal events, repeated terminals, unsubscription anywhere) the probe log is items* terminal?. Correspondence on random pipelines under the kind projection; oracle regex N*(E|C)? on the implementation log.",
  note=COMMON_NOTE + "Catalogue: the Pipe type of RxModel/Pipe/World.lean; scheduler-using operators, merge_all, share and group_by are exercised by their own suites. Rust move semantics (an un-shared observer cannot be called after its terminal) is modelled, not verified.",
  technique="Lean 4 proof (structural induction over pipelines + simulation lemmas per node kind + discipline lemma for slot-owning cells) + differential correspondence check"),
 "C02": dict(
  text="Lean 4 theorem C02_silent: for every pipeline of the synchronous catalogue, every history before the cut and every continuation, nothing is delivered after unsubscribe() (invariant `quiet`: every subscriber slot at a leaf is empty, preserved by every action and implying empty output). Correspondence: unsub injected at every position of the C01 case population; oracle: no delivery after the cut on the implementation.",
  note=COMMON_NOTE + "Partial: synchronous catalogue only in this revision; scheduler-owned tasks (delay, observe_on, debounce, throttle, interval …) and the lock-level interleavings of _threads forms are not yet covered here.",
  technique="Lean 4 proof (invariant by induction over event lists and pipelines) + differential correspondence check"),
 "C17": dict(
  text="Lean 4 theorems C17_sound, C17_monotone, C17_after_unsub over the subscription algebra of the synchronous catalogue ((), Subscriber, ZipSubscription, boxed): closed ⇒ quiet ⇒ nothing delivered, for all pipelines and histories. Correspondence: is_closed() sampled after every event; oracle on the implementation: no delivery after closed=1, monotone, closed after unsubscribe.",
  note=COMMON_NOTE + "Partial: MultiSubscription/TaskHandle/RefCount/Finalizer subscriptions and late append are not yet covered in this revision.",
  technique="Lean 4 proof (structural induction, closed ⇒ quiet invariant) + differential correspondence check"),
 "C05": dict(
  text="Lean 4 theorems C05_limit, C05_once_in_order, C05_completion, C05_accounting, C05_no_stuck (for the repaired code; counterexample + _partial kept for the code before the fix): for every outer script, any mix of cold and hot inner observables, every limit n>=1 and every interleaving, merge_all keeps subscribed<=n, emits each inner's items exactly once in order, completes exactly when outer and all inners have, and never panics/re-locks. Correspondence: suite `flatten` on the real crate (merge_all/concat_all/flatten/flat_map/concat_map, local and _threads) + python oracle computed from the case alone.",
  note=COMMON_NOTE + "n=1 'outer order' and hot-inner once/in-order are checked by the oracle only; one model serves both flavours (PANIC vs RELOCK differ only in the printed word).",
  technique="Lean 4 proof (invariants by induction over the event list, ghost provenance tags) + differential correspondence check"),
 "C06": dict(
  text="Lean 4 theorems C06_refines, C06_plain, C06_len, C06_finished_empty, C06_spec_* : for EVERY history of subscribe/unsubscribe/next/error/complete/retain/unsubscribe-subject/clone-issued ops/subscribe-in-callback the two-list (observers+chamber) subject refines the abstract {live, done} spec (each item once, in order, to exactly the current subscribers; one terminal each; nothing after; in-callback subscriber misses the in-flight item). Lock level (C06T): per-subscriber logs are subsequences of one global order fixed by acquisition of the observers mutex. Correspondence: all five subject types on the real crate, bounded-exhaustive op sequences + random histories; python oracle from the history.",
  note=COMMON_NOTE + "Threads part proved for the lock-level LTS only (std Mutex, OS scheduler trusted). Self-unsubscription from inside the subscriber's own callback panics (BorrowMut) and is modelled as such; it is outside the property.",
  technique="Lean 4 proof (refinement to an abstract spec by induction over histories; LTS for the thread-safe form) + differential correspondence check"),
 "C07": dict(
  text='Lean 4 theorems over the chain model (scheduler Sched/Core + operators Sched/Chain) for EVERY history of emissions, clock jumps and FIFO executor runs over a hot source: C07_observeOn_fifo (the log is a prefix of the gated script, equal after a run, terminals included), C07_delay_fifo / C07_delay_order / C07_delay_after_run / C07_delay_prompt_fifo / C07_delay0_fifo (exact characterisation of what delay(d) has delivered: source order, each once, the terminal last; an error cuts pending items), C07_delay_never_early (te + d <= clock for everything delivered), C07_fire_only_due; the any-run-order clause is REFUTED in the model (C07_reorder_counterexample) and on the real code (known finding, replayed through hook H1). Correspondence: delay/observe_on/subscribe_on/delay_subscription in chains on the real crate under a harness-controlled executor, FIFO and arbitrary run orders; oracle on the implementation: never early, nothing invented/duplicated, order and completeness under FIFO.',
  note=COMMON_NOTE + 'The theorems cover one observe_on / delay stage over a hot source under FIFO runs (unbounded histories); compositions and subscribe_on/delay_subscription rest on the validated model + oracle. Executor = harness queue, not LocalPool/ThreadPool.',
  technique='Lean 4 proof (simulation by an abstract queue machine + invariant induction over histories; decide counterexample for non-FIFO) + differential correspondence under all run orders + implementation oracle'),
 "C08": dict(
  text='Lean 4 theorems over the chain model for ARBITRARY event lists (sub, unsub, any clock jumps, any fire/poll order, run): C08_interval_seq (consecutive integers from 0, nothing else, no terminal), C08_interval_never_early(_prefix) (fewer than k+1 ticks while clock < t_sub + first + k*p), C08_interval_spacing, C08_interval_prompt (exact tick count under prompt unit steps), C08_timer_once / C08_timer_never_early / C08_timer_prompt, C08_unsub_stops_interval / _timer, C08_silent_before_sub, C08_tick_seq; async sources: C08_stream_relay / C08_stream_completes / C08_stream_promise_wf (from_stream(_result) deliver a prefix of the scripted promise whatever the polling, all of it when the driver finished, values up to the first Err then the terminal), C08_future_relay / C08_future_once, C08_async_cancelled_silent. Correspondence: interval / interval_at / timer / timer_at on the virtual clock and from_future(_result) / from_stream(_result) over scripted futures/streams (ready / pending-with-wake / pending-without-wake / error steps) on the real crate; oracle on the implementation: consecutive integers, never early, spacing, exact times under prompt schedules, timer once then complete, relay of the script.',
  note=COMMON_NOTE + "Time theorems are over a bare source (no operator between source and probe) — operators are covered by the other properties' theorems plus the correspondence; real Instant arithmetic is replaced by the virtual clock of hook H1 (timers ask the harness for sleeps; the requested durations are compared).",
  technique='Lean 4 proof (invariant induction over arbitrary event lists; closed forms under prompt schedules; induction over scripts for async sources) + differential correspondence on a virtual clock + implementation oracle'),
 "C12": dict(
  text="Lean 4 theorems C12_refines, C12_peek, C12_subscribe_gets_latest, C12_next_by, C12_next_stores for EVERY history over any number of clones: a new subscriber first gets the latest value, then every later item once; peek = latest; next_by f = next (f peek). Lock level (C12T): the property's concurrent clause is stated and REFUTED (C12_race_counterexample: store a, store b, broadcast b, broadcast a) and proved for a single producer (C12_threads_partial). Correspondence: BehaviorSubject over Subject and SubjectThreads, exhaustive short histories + random.",
  note=COMMON_NOTE + "The two-producer race is a property of the code's two critical sections (store, then broadcast); it is shown in the LTS, not replayed on OS threads in this revision.",
  technique="Lean 4 proof (refinement by induction over histories; LTS counterexample and partial theorem) + differential correspondence check"),
 "C15": dict(
  text="Lean 4 theorems C15_once, C15_not_before, C15_once_count, C15_shapes, C15_chain_at_most_once, C15_chain_le_one, C15_chain_partial for EVERY item prefix and every sequence of complete/error/unsubscribe: the finalizer runs exactly once, right after the first trigger's delivery, never before, never twice; lock level (C15T): in every interleaving of a terminating and an unsubscribing thread the callback runs exactly once. Correspondence: finalize / finalize_threads in operator chains on the real crate; python oracle on marker position and count.",
  note=COMMON_NOTE + "Known finding: with a self-completing operator below finalize (finalize(f).take(n)) the source terminal is filtered out by the subject (is_finished) and the callback runs only on unsubscribe (C15_chain_full refuted, C15_chain_partial proved).",
  technique="Lean 4 proof (case analysis + induction over event sequences; verified schedule enumeration for the 2-3 thread LTS) + differential correspondence check"),
 "C20": dict(
  text="Lean 4 theorems C20_groups, C20_routing, C20_routing_own, C20_flatten, C20_terminal (for EVERY drain order), C20_terminal_once, C20_after_terminal, C20_world: for every item list, key function and attach policy group_by announces one group per distinct key in first-appearance order, routes each item once, in order, to its own group only, delivers the source terminal once to every group and the outer stream, and flattening reproduces the source. Correspondence: group_by over Subject/SubjectThreads, all scripts <=6 over 4 values x 4 key functions x terminals; python oracle from the script.",
  note=COMMON_NOTE + "Known finding: group_by(..).take(n) on the outer stream — after take completed, the source terminal never reaches the announced groups (subject filters finished observers).",
  technique="Lean 4 proof (induction over the item list; permutation-parametric terminal fan-out) + differential correspondence check"),
 "C11": dict(
  text="Lean 4 theorems C11_lazy_connect, C11_once, C11_multicast, C11_release (Fixed model), C11_release_code_counterexample, C11_release_partial: for EVERY history of subscribe/unsubscribe/source events, publish does not subscribe before connect(), share subscribes the source at most once (exactly once iff somebody subscribed) and multicasts to every present subscriber; the release clause is REFUTED for the code as it is (known finding) and proved for the repaired model and for cold sources. Correspondence: share/share_threads/publish on the real crate, all histories <=7 over 3 subscribers; python oracle with source-subscription and upstream-tap counters.",
  note=COMMON_NOTE + "Known finding: share never releases its source (is_empty counts closed subscribers; the connect() subscription is dropped). No interval source in this suite.",
  technique="Lean 4 proof (induction over histories; counterexample + partial theorem) + differential correspondence check"),
 "C14": dict(
  text="Lean 4 theorems C14_future, C14_collect, C14_stream, C14_future_result, C14_ready_when_terminated, C14_status_flag, C14_status_ready (all event lists: any source script with polls anywhere) for the repaired code, with the counterexample/_partial theorems for the code before the fixes; lock level (C14T): C14_lost_wakeup_counterexample for check-then-register and C14_no_lost_wakeup_fixed for register-then-recheck over all interleavings. Correspondence: to_future / collect().to_future() / to_stream / complete_status on the real crate with polls before, between and after source events; the lost-wakeup interleaving is replayed on the real code through hook H3.",
  note=COMMON_NOTE + "std::sync, futures::channel and AtomicWaker are trusted; the race is replayed at one hooked yield point, other interleavings are covered by the LTS theorem only.",
  technique="Lean 4 proof (induction over event lists; verified schedule enumeration for the 2-thread LTS) + differential correspondence check incl. deterministic race replay"),
 "C19": dict(
  text="Lean 4 theorems C19_once, C19_repeat_seq, C19_repeat_spacing, C19_never_early(_repeat,_nth), C19_cancelled_stays, C19_done_stays, C19_closed_sound, C19_decline_stops, clock/timer lemmas: for EVERY action list of a legal executor (any number of tasks, spurious polls, any order, any clock advance) over the scheduler model (schedule, Remote::poll, OnceTask, RepeatTask, handles); lock level (C19T): unsubscribe and poll exclude each other on the handle mutex. Correspondence: the same model drives suite `time` against the real scheduler code through hook H1 with cancellation injected at every phase and arbitrary fire/poll orders.",
  note=COMMON_NOTE + "The scheduler-only transition system abstracts task bodies (their own scheduling effects are separate actions); SubscribeReturn handles' is_closed is covered by the correspondence only.",
  technique="Lean 4 proof (invariants over all executor histories) + differential correspondence check on a virtual clock"),
 "C09": dict(
  text='Lean 4 theorems over the chain model for EVERY history over a hot source: C09_{buffer,debounce,throttle}_subsequence (delivered items are a subsequence of the source items), _nodup (no item twice given distinct source items), _wf (output well-formed: nothing after the terminal), C09_buffer_complete (concatenation of buffers = source on completion), C09_debounce_final / C09_throttle_trailing_final, C09_flush_nonempty, C09_buffer_bounded, C09_sample. Correspondence: debounce / throttle (three edges) / buffer_with_time / buffer_with_count_and_time / sample on the real crate on the virtual clock (prompt unit-step schedules with every gap pattern around the window, arbitrary fire/poll orders); oracle on the implementation: only source items, each at most once, in order; buffers non-empty and within the limit; debounce/throttle characterisation under prompt schedules.',
  note=COMMON_NOTE + 'Theorems are for one rate-limiting stage over a hot source (unbounded histories, any scheduling events); compositions rest on the validated model + oracle.',
  technique='Lean 4 proof (rate invariant preserved by every world step, induction over histories) + differential correspondence on a virtual clock + implementation oracle'),
 "C13": dict(
  text="Lean 4 theorems C13_lazy, C13_independent, C13_once_per_subscription over the multi-subscription model (a pipeline description is immutable; every actual_subscribe instantiates its own observer states): building does nothing; every subscription's log is the log of a freshly instantiated pipeline whatever other subscriptions exist; subscription-time closures run once per subscription. Correspondence: ONE real pipeline value is built and clones are subscribed 2-4 times, successively and nested, over the whole synchronous catalogue; oracle: laziness, identical logs for cold pipelines, closure-call counts.",
  note=COMMON_NOTE + "The theorems are short because the model has no shared operator state — that IS the claim; its tie to the code is the correspondence. Nested subscription is exercised for cold pipelines only.",
  technique="Lean 4 proof (induction over subscription lists) + differential correspondence check with repeated and nested subscriptions"),
 "C16": dict(
  text="Lean 4 theorems C16_forward_op1 (is_finished is forwarded through every chain of intermediate operators), C16_take_closed/_takeWhile_closed/_contains_closed, C16_tick_declines, C16_iter_stops_when_finished, C16_stream_retires / C16_stream_task_finishes (a stream driver whose observer is finished retires at its next poll without pulling) over the chain model; correspondence on the virtual clock: interval as main input and as second input of every two-input operator under chains of intermediate operators (including self-terminating ones that have not terminated) and every early-terminating operator, counting iterators and scripted streams (always ready, pending-interleaved, silent, unbounded) with `pulls` observed; oracle: no live task one period after the subscriber's terminal; no pull beyond the model's; no HANG on an unbounded stream.",
  note=COMMON_NOTE + "Known finding: skip_until's notifier observer answers is_finished()=false, so a producer in that position is never retired. Fixed in /repo during this work: from_iter and the from_stream drivers did not ask is_finished.",
  technique='Lean 4 proof (structural lemmas on `fin`, driver-loop lemmas) + executable model with differential correspondence + implementation oracle'),
 "C18": dict(
  text="Three-way comparison on single-threaded histories: every case of the pipeline, time, flatten, finalize, share, subject and group_by populations is run with the local and with the thread-safe types of the real crate; the two traces must be identical and agree with the single Lean model (theorems C18_equiv, C18_equiv_time record that the model has one definition for both forms).",
  note=COMMON_NOTE + "The Lean statement is shallow by design (one macro generates both forms); the assurance is the sampled differential check.",
  technique="differential equivalence check between the two real implementations and the Lean model (Lean statement: definitional)"),
 "C10": dict(
  text="Lean 4 theorems over the lock-level LTS (unbounded threads, program lengths, preemptions): ranked_invariant, lts_mutex, rank_deadlock_free, callbacks_serialised, no_infinite_run / C10_every_call_returns (every maximal execution is finite and ends with all calls returned), C10_ranked (the lock program of every operation of every pipeline shape — subject, slots, merge/zip/combine cells, finalize, behaviour subject, share, task handles — is nested and rank-increasing), C10_common_order / C10_no_opposite_orders (all subscribers of a subject see concurrent emissions in one order), C10_merge_all_relock (negative witness for the code before the merge_all fix). Correspondence: every lock acquisition of the real thread-safe code is recorded through hook H2 with the set of cells held, and compared token by token with the model's lock program for the same operation; oracle on the real trace: no re-lock, acyclic held-before relation, callbacks under their slot.",
  note=COMMON_NOTE + "Partial by nature: proved for the LTS; std::sync::Mutex, the OS scheduler and the memory model (Relaxed atomics treated as single steps) are trusted to implement it; traces are recorded single-threaded, real interleavings are not replayed; debounce/throttle/buffer_with_time cells are not in the footprint model.",
  technique="Lean 4 proof (invariant + well-founded rank argument over a labelled transition system; structural induction over pipeline shapes) + lock-trace correspondence check through a source hook"),
}

def chk(pid, c):
    return {"property_id": pid, "quick_cmd": f"./check {pid} --tier quick",
            "thorough_cmd": f"./check {pid} --tier thorough",
            "evidence_file": f"/verif/evidence/{pid}.json",
            "replay_cmd_template": f"./check {pid} --replay {{path}}",
            "engine": "lean4-model+correspondence",
            "level_claimed": {"category": "proof", "text": c["text"], "design_ref": f"DESIGN.md §6 {pid}"},
            "level_note": c["note"], "technique": c["technique"]}

def main():
    hooks_commits = []
    hp = os.path.join(ROOT, "hooks_commits.txt")
    if os.path.exists(hp):
        hooks_commits = [l.split()[0] for l in open(hp) if l.strip() and not l.startswith("#")]
    all_ids = [f"C{i:02d}" for i in range(1, 21)]
    checks = [chk(p, CLAIMS[p]) for p in all_ids if p in CLAIMS]
    m = {"version": 1, "setup_cmd": "./setup.sh",
         "hooks": {"guard": "verif_hooks",
                   "enable": "cargo feature `verif_hooks` of the rxrust crate, enabled by harness/Cargo.toml on its path dependency /repo",
                   "baseline_off_cmd": "cd /repo && cargo test --workspace --no-fail-fast --offline",
                   "source_commits": hooks_commits, "add_only": True},
         "engines": [{"name": "lean4-model+correspondence", "path": "/verif/check",
                      "serves_properties": [c["property_id"] for c in checks],
                      "kind_free_text": "Lean 4 theorems over an executable model (lean/RxModel) + Rust harness (harness/) running the real crate + compiled Lean driver (rxdriver) + python orchestration (vlib/)"}],
         "checks": checks,
         "notes": "See DESIGN.md. Properties are claimed as their theorems and suites land.",
         "not_applicable": [{"property_id": p, "reason": "not yet built in this revision (planned, DESIGN.md §6); not a claim that the technique cannot apply"}
                            for p in all_ids if p not in CLAIMS]}
    json.dump(m, open(os.path.join(ROOT, "MANIFEST.json"), "w"), indent=1)
    print("claimed:", [c["property_id"] for c in checks])

if __name__ == "__main__":
    main()
