#!/bin/bash
# run every check with several seeds on the current tree; report anything that is not a clean pass
cd /verif
for S in "$@"; do
  for P in $(python3 -c "import json;print(' '.join(c['property_id'] for c in json.load(open('MANIFEST.json'))['checks']))"); do
    OUT=$(VERIF_SEED=$S ./check $P 2>&1)
    RC=$?
    LINE=$(echo "$OUT" | grep -E "^\[" | tail -1 | cut -c1-140)
    if [ $RC -ne 0 ]; then echo "seed=$S $P rc=$RC $LINE"; echo "$OUT" | grep -E "^VIOLATION" | head -3; else echo "seed=$S $P ok $LINE"; fi
  done
done
