#!/bin/bash
# regression over every stored seed WITHOUT touching /repo: for each seed a scratch copy of /repo with the patch and a
# scratch copy of /verif pointed at it (tools/try_seed_iso.sh); prints caught / MISSED / patch-does-not-apply per seed.
# usage: all_seeds_iso.sh [regex on seed ids]
cd /verif
for d in seeded/*/; do
  ID=$(basename $d)
  [ -n "${1:-}" ] && [[ ! "$ID" =~ $1 ]] && continue
  P=$(python3 -c "import json;print(json.load(open('$d/meta.json'))['property'])")
  OUT=$(tools/try_seed_iso.sh $ID $P 2>&1)
  if echo "$OUT" | grep -q "patch does not apply"; then echo "$ID $P patch-does-not-apply"; continue; fi
  NV=$(echo "$OUT" | grep -c "^VIOLATION")
  NF=$(echo "$OUT" | grep "^VIOLATION" | grep -vc "no-failing-input-found")
  if echo "$OUT" | grep -q "rc=1"; then echo "$ID $P caught violations=$NV with-failing-input=$NF"; else echo "$ID $P MISSED"; fi
done
