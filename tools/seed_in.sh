#!/bin/bash
# usage: seed_in.sh <seed id> <property> "<summary>" "<needs>" <check> [<check> ...]
# store a sub-agent's seed from its scratch worktree /tmp/wt-<id>, remove the worktree, run the named checks against it
# in isolation (tools/try_seed_iso.sh).  Output: seeded/<id>/ and one summary line per check.
ID=$1; P=$2; SUM=$3; NEEDS=$4; shift 4
cd /verif
tools/store_seed.sh /tmp/wt-$ID $ID $P "$SUM" "$NEEDS" | grep -E "with:|without:|lib:"
git -C /repo worktree remove --force /tmp/wt-$ID
tools/try_seed_iso.sh $ID "$@" 2>&1 | grep -E "^==|^\["
