#!/usr/bin/env python3
"""tools/model_mutants.py — how sensitive is the correspondence check?  Mutation analysis of the Lean MODEL.

Every property is decided by theorems about a hand-written model; the only tie between the model and the
real crate is the differential comparison of `rxharness` (real code) and `rxdriver` (compiled model) on the
generated cases.  This tool mutates the MODEL, one small textual change at a time, rebuilds `rxdriver` only
(proofs are irrelevant here), re-runs it on the cached quick-tier cases of ALL property plugins and compares
with the cached outputs of the real harness under each plugin's own `project` / `compare_from`:

    killed    some property's comparison shows a disagreement that the unmutated model does not show
    survived  no property notices                                   -> look at these
    stillborn the mutated file (or a file of the driver's import closure) no longer compiles: not counted

Usage (from the verif root; everything is written under --work, never into the tree, except --report):

    tools/model_mutants.py --copies 5 --budget-min 85                        # ALL mutants (~1300): ~40 min on 16 cores
    tools/model_mutants.py --sample 14                                       # 14 per file, round-robin over the operators
    tools/model_mutants.py --files Ops/Single.lean Sched/Core.lean --sample 0   # all mutants of two files
    tools/model_mutants.py --list [--files ...]                              # only enumerate the mutants
    tools/model_mutants.py --only 'Ops/Single.lean:55:*'                     # mutants of one line (glob on id)
    tools/model_mutants.py --props C03 C04 ...                               # restrict the plugins (cache per set)

    tools/model_mutants.py --probe-survivors REPORT.json                     # 2nd pass: is the mutated expression of a
                                                                             #   survivor ever EXECUTED by a case? (dbgTrace probe)
    tools/model_mutants.py --proofs-survivors REPORT.json                    # 3rd pass: do the Lean proofs notice it?

Options: --copies N (scratch lean projects building concurrently, default 4), --jobs N (concurrent driver
processes, default 12), --seed S (sampling seed), --vseed (VERIF_SEED of the cases, default 20260929),
--keep-proofs (do not replace the proofs of the theorems INSIDE the model files of the scratch copies by
`sorry`; with it a mutant that breaks such an in-file proof is stillborn), --refresh (rebuild the case cache),
--report PATH (default <work>/mutants_report.json; the table goes to stdout and PATH with .txt).

The case population, the case ids, the projections and `compare_from` are those of `./check` (the vlib code
is imported, not copied): `prop.corpus() + monoize(prop.cases("quick", seed), seed)`, de-duplicated by
`Case.key()`, ids = position in that list.  Equal cases of different plugins are run once.
"""
import argparse
import concurrent.futures as cf
import fnmatch
import hashlib
import importlib
import json
import os
import pickle
import random
import re
import shutil
import subprocess
import sys
import threading
import time
from pathlib import Path

VERIF = Path(__file__).resolve().parent.parent
sys.path.insert(0, str(VERIF))
from vlib import core  # noqa: E402
from vlib.runner import monoize  # noqa: E402

MODEL_FILES = [
    "Core/Notif.lean",
    "Ops/Single.lean", "Ops/Init.lean", "Ops/Source.lean", "Ops/Multi.lean", "Ops/GroupBy.lean",
    "Ops/Finalize.lean", "Ops/MergeAll.lean",
    "Pipe/World.lean", "Pipe/MultiSub.lean",
    "Sched/Core.lean", "Sched/Chain.lean", "Sched/Exec.lean",
    "Subject/Subject.lean", "Subject/Behavior.lean", "Subject/Share.lean",
    "Conv/Convert.lean", "Sub/Composite.lean",
    "Conc/SubjectSteps.lean", "Conc/Footprint.lean",
]
ALL_PIDS = [f"C{i:02d}" for i in range(1, 21)]


def log(*a):
    print(time.strftime("%H:%M:%S"), *a, file=sys.stderr, flush=True)


# ===================================================================== Lean source: lexing, declarations
def code_mask(src):
    """mask[i] is True iff src[i] is code: not inside a (nested) block comment, a line comment or a string."""
    n = len(src)
    mask = [True] * n
    i = 0
    while i < n:
        c = src[i]
        if c == "/" and src.startswith("/-", i):
            depth, j = 1, i + 2
            while j < n and depth:
                if src.startswith("/-", j):
                    depth += 1
                    j += 2
                elif src.startswith("-/", j):
                    depth -= 1
                    j += 2
                else:
                    j += 1
            for k in range(i, j):
                mask[k] = False
            i = j
        elif c == "-" and src.startswith("--", i):
            j = src.find("\n", i)
            j = n if j < 0 else j
            for k in range(i, j):
                mask[k] = False
            i = j
        elif c == '"':
            j = i + 1
            while j < n and src[j] != '"':
                j += 2 if src[j] == "\\" else 1
            j = min(n, j + 1)
            for k in range(i, j):
                mask[k] = False
            i = j
        else:
            i += 1
    return mask


def code_view(src):
    """The source with everything that is not code blanked (same offsets, same line breaks)."""
    m = code_mask(src)
    return "".join(c if (m[i] or c == "\n") else " " for i, c in enumerate(src))


DECL_RE = re.compile(
    r"^(?:@\[[^\]]*\]\s*)*(?:(?:private|protected|partial|noncomputable|unsafe|scoped|local)\s+)*"
    r"(def|abbrev|theorem|lemma|example|instance|structure|inductive|class|namespace|end|section|open|"
    r"variable|mutual|deriving|set_option|universe|attribute|macro_rules|macro|syntax|notation|infixl|infixr|"
    r"infix|prefix|postfix|import|initialize|elab|declare_syntax_cat|#\w+)\b")
OPEN, CLOSE = "([{⟨", ")]}⟩"


def blocks(view):
    """Top-level blocks [(kind, first_line, end_line)] (0-based, end exclusive) of a code view."""
    lines = view.split("\n")
    starts = []
    pending_attr = None
    for i, l in enumerate(lines):
        if not l or l[0] == " ":
            continue
        m = DECL_RE.match(l)
        if m:
            starts.append((pending_attr if pending_attr is not None else i, m.group(1)))
            pending_attr = None
        elif l.startswith("@["):
            pending_attr = i if pending_attr is None else pending_attr
    out = []
    for k, (s, kind) in enumerate(starts):
        e = starts[k + 1][0] if k + 1 < len(starts) else len(lines)
        out.append((kind, s, e))
    return out


def _split_header(lines, s, e):
    """(line, col) where the body of the declaration in lines[s:e] starts: after the first `:=` at bracket
    depth 0, or at the first line that starts with `|` (definitions by pattern matching)."""
    depth = 0
    for i in range(s, e):
        l = lines[i]
        if i > s and depth == 0 and l.lstrip().startswith("|"):
            return i, 0
        j = 0
        while j < len(l):
            c = l[j]
            if c in OPEN:
                depth += 1
            elif c in CLOSE:
                depth = max(0, depth - 1)
            elif c == ":" and depth == 0 and l.startswith(":=", j):
                return i, j + 2
            j += 1
    return None


def mutable_regions(view):
    """{line_no: [(col_from, col_to)]}: the bodies of def/abbrev/instance and the defaults of structure
    fields.  Never theorem/lemma/example, never a Prop-valued or Decidable definition, never a
    termination_by / decreasing_by tail."""
    lines = view.split("\n")
    reg = {}
    for kind, s, e in blocks(view):
        if kind in ("def", "abbrev", "instance"):
            hb = _split_header(lines, s, e)
            if hb is None:
                continue
            bl, bc = hb
            header = "\n".join(lines[s:bl] + [lines[bl][:bc]])
            if re.search(r"\b(Prop|Decidable\w*)\b", header):
                continue
            for i in range(bl, e):
                st = lines[i].lstrip()
                if st.startswith("termination_by") or st.startswith("decreasing_by"):
                    break
                c0 = bc if i == bl else 0
                if lines[i][c0:].strip():
                    reg.setdefault(i, []).append((c0, len(lines[i])))
        elif kind == "structure":
            for i in range(s + 1, e):
                l = lines[i]
                if l.lstrip().startswith("deriving"):
                    break
                depth = 0
                for j, c in enumerate(l):
                    if c in OPEN:
                        depth += 1
                    elif c in CLOSE:
                        depth = max(0, depth - 1)
                    elif c == ":" and depth == 0 and l.startswith(":=", j):
                        reg.setdefault(i, []).append((j + 2, len(l)))
                        break
    return reg


def neutralise_proofs(src):
    """Replace the proof of every theorem/lemma by `sorry` and blank every `example` (line count kept):
    the statement still elaborates, the compiled code is the same, and a mutant cannot be stillborn only
    because a proof written next to the definition notices it."""
    view = code_view(src)
    vlines = view.split("\n")
    slines = src.split("\n")
    for kind, s, e in blocks(view):
        # trailing blank / comment-only lines belong to the next declaration's docstring
        while e > s + 1 and not vlines[e - 1].strip():
            e -= 1
        if kind == "example":
            for i in range(s, e):
                slines[i] = ""
        elif kind in ("theorem", "lemma"):
            hb = _split_header(vlines, s, e)
            if hb is None:
                continue
            bl, bc = hb
            if bc == 0:          # pattern-matching proof
                slines[bl] = "  := sorry"
            else:
                slines[bl] = slines[bl][:bc] + " sorry"
            for i in range(bl + 1, e):
                slines[i] = ""
    return "\n".join(slines)


# ================================================================================ mutation operators
class Mutant:
    __slots__ = ("file", "line", "c0", "c1", "orig", "repl", "op", "before", "after", "mid")

    def __init__(self, file, line, c0, c1, orig, repl, op, before):
        self.file, self.line, self.c0, self.c1 = file, line, c0, c1      # line is 1-based
        self.orig, self.repl, self.op = orig, repl, op
        self.before = before
        self.after = before[:c0] + repl + before[c1:]
        self.mid = f"{file}:{line}:{c0}:{op}:{hashlib.sha1(self.after.encode()).hexdigest()[:6]}"

    def to_json(self):
        return {"id": self.mid, "file": self.file, "line": self.line, "col": self.c0, "op": self.op,
                "orig": self.orig, "repl": self.repl, "before": self.before.strip(), "after": self.after.strip()}


def _match_close(l, i):
    """index of the bracket closing the one opened at l[i], on this line, or -1"""
    depth = 0
    for j in range(i, len(l)):
        if l[j] in OPEN:
            depth += 1
        elif l[j] in CLOSE:
            depth -= 1
            if depth == 0:
                return j
    return -1


def _in_pattern(l, pos):
    """is column `pos` of the (code view) line inside `| pat =>`, `fun | pat =>`, or after `let`?"""
    seg = l[:pos]
    bar = -1
    for m in re.finditer(r"\|", seg):
        j = m.start()
        if seg[j:j + 2] in ("||", "|>") or (j > 0 and seg[j - 1] in "|<"):
            continue
        bar = j
    if bar >= 0 and "=>" not in seg[bar:]:
        return True
    k = max((m.start() for m in re.finditer(r"(?<![\w.'])let\s", seg)), default=-1)
    if k >= 0 and ":=" not in seg[k:] and "←" not in seg[k:]:
        return True
    if re.search(r"\bfun\b[^=]*$", seg) and "=>" not in seg[seg.rfind("fun"):]:
        return True
    return False


REL = {"<": "≤", "≤": "<", "<=": "<", ">": "≥", "≥": ">", ">=": ">"}
SEL = {"dropLast": "tail", "tail": "dropLast", "head?": "getLast?", "getLast?": "head?", "head!": "getLast!",
       "getLast!": "head!", "headD": "getLastD", "getLastD": "headD", "take": "drop", "drop": "take"}
WORD_STOPS = ("then", "else", "with", "do", "in", "return", "if", "fun")
SYM_STOPS = (",", ":=", "=>", "++", "<|", "|>", "←", "==", "!=", "≠", "≤", "≥", "&&", "||", "∧", "∨", ";", "|",
             "$", "<", ">", "=", "↔", "→")


def _next_indent(lines, i):
    for j in range(i + 1, len(lines)):
        if lines[j].strip():
            return len(lines[j]) - len(lines[j].lstrip())
    return 0


def _parse_if(l, i):
    """l[i:] starts with `if `.  Returns (cond0, cond1, then0, then1, else0, else1) as columns of the
    condition, the then-branch and the else-branch when the whole conditional is on this line; a tuple with
    else0 = None when only `if C then` is here; None when not even that."""
    toks = [(m.start(), m.group()) for m in re.finditer(r"\b(?:if|then|else)\b|[()\[\]{}⟨⟩,]", l) if m.start() >= i]
    if not toks or toks[0][1] != "if":
        return None

    def branch_end(k, depth0_stops):
        """scan tokens from index k; returns (index of the token that ends the branch or len(toks))"""
        depth = 0
        while k < len(toks):
            p, t = toks[k]
            if t in OPEN:
                depth += 1
            elif t in CLOSE:
                if depth == 0:
                    return k
                depth -= 1
            elif depth == 0 and t in depth0_stops:
                return k
            elif depth == 0 and t == "if":
                k = skip_if(k)
                continue
            k += 1
        return k

    def skip_if(k):
        """k indexes an `if`; returns the token index just after the whole conditional (or len(toks))"""
        k = branch_end(k + 1, ("then",))
        if k >= len(toks) or toks[k][1] != "then":
            return len(toks)
        k = branch_end(k + 1, ("else", ","))
        if k >= len(toks) or toks[k][1] != "else":
            return k
        return branch_end(k + 1, ("else", ",", "then"))

    k = branch_end(1, ("then",))
    if k >= len(toks) or toks[k][1] != "then":
        return None
    c0, c1 = i + 3, toks[k][0]
    t0 = toks[k][0] + 4
    k2 = branch_end(k + 1, ("else", ","))
    if k2 >= len(toks) or toks[k2][1] != "else":
        return (c0, c1, t0, None, None, None)
    t1 = toks[k2][0]
    e0 = toks[k2][0] + 4
    k3 = branch_end(k2 + 1, ("else", ",", "then"))
    e1 = toks[k3][0] if k3 < len(toks) else len(l)
    return (c0, c1, t0, t1, e0, e1)


def gen_line_mutants(lines, i, spans):
    """All (c0, c1, repl, op) of line i of the code view restricted to the column spans."""
    l = lines[i]
    out = []

    def ok(a, b):
        return any(s <= a and b <= e for s, e in spans)

    def add(a, b, repl, op):
        if ok(a, b) and l[a:b] != repl:
            out.append((a, b, repl, op))

    # relational swaps
    for m in re.finditer(r"(?<= )(<=|>=|<|≤|>|≥)(?= )", l):
        add(m.start(), m.end(), REL[m.group()], "rel")
    # == / !=
    for m in re.finditer(r"(?<= )(==|!=)(?= )", l):
        add(m.start(), m.end(), "!=" if m.group() == "==" else "==", "eq")
    # && / ||
    for m in re.finditer(r"(?<= )(&&|\|\|)(?= )", l):
        add(m.start(), m.end(), "||" if m.group() == "&&" else "&&", "andor")
    # boolean constants
    for m in re.finditer(r"(?<![\w.'])(true|false)(?![\w'])", l):
        add(m.start(), m.end(), "false" if m.group() == "true" else "true", "bool")
    # arithmetic off by one
    for m in re.finditer(r"(?<= )\+ (\d+)(?![\w.])", l):
        n = int(m.group(1))
        add(m.start(1), m.end(1), str(n + 1), "arith")
        if n >= 1:
            add(m.start(1), m.end(1), str(n - 1), "arith")
    for m in re.finditer(r"(?<= )- (\d+)(?![\w.])", l):
        n = int(m.group(1))
        if n >= 1:
            add(m.start(1), m.end(1), str(n - 1), "arith")
    for m in re.finditer(r"(?<![\w.'])(\d+) \+ ", l):
        n = int(m.group(1))
        add(m.start(1), m.end(1), str(n + 1), "arith")
        if n >= 1:
            add(m.start(1), m.end(1), str(n - 1), "arith")
    # selectors
    for m in re.finditer(r"\.(dropLast|tail|head\?|getLast\?|head!|getLast!|headD|getLastD|take|drop)(?![\w?!'])", l):
        add(m.start(1), m.end(1), SEL[m.group(1)], "sel")
    # some x -> none
    for m in re.finditer(r"(?<![\w.'])(\.?)some\s+", l):
        j = m.end()
        if j >= len(l) or _in_pattern(l, m.start()):
            continue
        if l[j] in OPEN:
            k = _match_close(l, j)
            if k < 0:
                continue
            end = k + 1
        else:
            mm = re.match(r"[\w.'!?]+", l[j:])
            if not mm:
                continue
            end = j + mm.end()
        add(m.start(), end, m.group(1) + "none", "some-none")
    # drop one element of a literal list
    for m in re.finditer(r"\[", l):
        j = m.start()
        if j > 0 and (l[j - 1].isalnum() or l[j - 1] in "_')]!?@"):
            continue
        k = _match_close(l, j)
        if k < 0 or not l[j + 1:k].strip() or _in_pattern(l, j):
            continue
        inner = l[j + 1:k]
        parts, depth, last = [], 0, 0
        for p, c in enumerate(inner):
            if c in OPEN:
                depth += 1
            elif c in CLOSE:
                depth -= 1
            elif c == "," and depth == 0:
                parts.append((last, p))
                last = p + 1
            elif c == "|" and depth == 0:
                parts = None
                break
        if parts is None:
            continue
        parts.append((last, len(inner)))
        if len(parts) > 6:
            continue
        for q in range(len(parts)):
            kept = [inner[a:b].strip() for r, (a, b) in enumerate(parts) if r != q]
            add(j, k + 1, "[" + ", ".join(kept) + "]", "list-drop")
    # if … then … else …
    for m in re.finditer(r"(?<![\w.'])if ", l):
        if l[m.end():].lstrip().startswith("let "):
            continue
        r = _parse_if(l, m.start())
        if r is None:
            continue
        c0, c1, t0, t1, e0, e1 = r
        cond = l[c0:c1].strip()
        one_line = e0 is not None and l[t0:t1].strip() and l[e0:e1].strip()
        if one_line and e1 >= len(l.rstrip()) and _next_indent(lines, i) > len(l) - len(l.lstrip()):
            one_line = False     # the else-branch may continue on the next line
        if one_line:
            a, b = l[t0:t1].strip(), l[e0:e1].strip()
            if a != b:
                add(m.start(), e1, f"if {cond} then {b} else {a}", "if-swap")
        elif cond:
            # multi-line conditional: negate the condition (same effect as swapping its branches)
            hm = re.match(r"(\w+\s+:\s+)(?!:)(.*)", cond)
            if hm:
                add(c0, c1, f"{hm.group(1)}¬({hm.group(2)}) ", "if-neg")
            else:
                add(c0, c1, f"¬({cond}) ", "if-neg")
        # = / ≠ and ∧ / ∨ inside the condition
        for mm in re.finditer(r"(?<= )(=|≠|∧|∨)(?= )", l[c0:c1]):
            t = {"=": "≠", "≠": "=", "∧": "∨", "∨": "∧"}[mm.group()]
            add(c0 + mm.start(), c0 + mm.end(), t, "eq" if mm.group() in "=≠" else "andor")
    # ++ operand swap
    for m in re.finditer(r"(?<= )\+\+(?= )", l):
        p = m.start()
        # left operand
        depth, a = 0, p - 1
        start = None
        while a >= 0:
            c = l[a]
            if c in CLOSE:
                depth += 1
            elif c in OPEN:
                if depth == 0:
                    start = a + 1
                    break
                depth -= 1
            elif depth == 0:
                hit = False
                for s in SYM_STOPS:
                    if a - len(s) + 1 >= 0 and l.startswith(s, a - len(s) + 1):
                        start, hit = a + 1, True
                        break
                if hit:
                    break
                wm = re.search(r"(?<![\w.'])(" + "|".join(WORD_STOPS) + r")$", l[:a + 1])
                if wm and (a + 1 >= len(l) or not (l[a + 1].isalnum() or l[a + 1] in "_'")):
                    start = a + 1
                    break
            a -= 1
        if start is None:
            start = len(l) - len(l.lstrip())
        # right operand
        depth, b = 0, m.end()
        end = None
        while b < len(l):
            c = l[b]
            if c in OPEN:
                depth += 1
            elif c in CLOSE:
                if depth == 0:
                    end = b
                    break
                depth -= 1
            elif depth == 0:
                if any(l.startswith(s, b) for s in SYM_STOPS):
                    end = b
                    break
                wm = re.match(r"(" + "|".join(WORD_STOPS) + r")(?![\w'])", l[b:])
                if wm and l[b - 1] == " ":
                    end = b
                    break
            b += 1
        if end is None:
            end = len(l.rstrip())
            if _next_indent(lines, i) > len(l) - len(l.lstrip()):
                continue
        L, R = l[start:p].strip(), l[m.end():end].strip()
        if not L or not R or L == R:
            continue
        ls = start + (len(l[start:p]) - len(l[start:p].lstrip()))
        re_ = m.end() + len(l[m.end():end].rstrip())
        add(ls, re_, f"{R} ++ {L}", "append-swap")
    return out


def file_mutants(rel, src):
    view = code_view(src)
    vlines = view.split("\n")
    slines = src.split("\n")
    reg = mutable_regions(view)
    seen, out = set(), []
    for i in sorted(reg):
        for c0, c1, repl, op in gen_line_mutants(vlines, i, reg[i]):
            if vlines[i][c0:c1] != slines[i][c0:c1]:
                continue            # a comment or string inside the span
            m = Mutant(rel, i + 1, c0, c1, slines[i][c0:c1], repl, op, slines[i])
            key = (i, m.after)
            if key in seen:
                continue
            seen.add(key)
            out.append(m)
    return out


def driver_closure(lean_dir):
    """module files (relative to RxModel/) the `rxdriver` executable is built from"""
    seen, todo = set(), ["RxModel.Driver.Main"]
    while todo:
        m = todo.pop()
        if m in seen:
            continue
        p = lean_dir / (m.replace(".", "/") + ".lean")
        if not p.exists():
            continue
        seen.add(m)
        todo += [x for x in re.findall(r"^import\s+(\S+)", p.read_text(), flags=re.M) if x.startswith("RxModel")]
    return sorted(m.replace(".", "/")[len("RxModel/"):] + ".lean" for m in seen)


NAME_RE = re.compile(
    r"^(?:@\[[^\]]*\]\s*)*(?:(?:private|protected|partial|noncomputable|unsafe|scoped|local)\s+)*"
    r"(?:def|abbrev|instance|structure|theorem|lemma|inductive|class|namespace|section|end)[ \t]+([^\s:({\[⦃]+)")


def decl_names(view):
    """{first line of a def/abbrev/instance/structure block: fully qualified Lean name or None}"""
    lines = view.split("\n")
    stack, out = [], {}
    for kind, s, e in blocks(view):
        head = lines[s] if not lines[s].startswith("@[") or DECL_RE.match(lines[s]) else " ".join(lines[s:s + 2])
        m = NAME_RE.match(head.strip()) if kind != "mutual" else None
        name = m.group(1) if m else None
        if kind == "namespace":
            stack.append(name)
        elif kind in ("section", "mutual"):
            stack.append(None)
        elif kind == "end":
            if stack:
                stack.pop()
        elif kind in ("def", "abbrev", "instance", "structure"):
            if name is None or (kind == "instance" and lines[s].split("instance", 1)[1].lstrip().startswith(":")):
                out[s] = None
            elif name.startswith("_root_."):
                out[s] = name[len("_root_."):]
            else:
                out[s] = ".".join([x for x in stack if x] + [name])
    return out


def decl_of_lines(src):
    """{0-based line: (qualified name or None, kind)} for every line inside a def/abbrev/instance/structure"""
    view = code_view(src)
    names = decl_names(view)
    res = {}
    for kind, s, e in blocks(view):
        if s in names:
            for i in range(s, e):
                res[i] = (names[s], kind)
    return res


REACH_LEAN = """import Lean
import RxModel.Driver.Main
open Lean

partial def reach (env : Environment) (todo : List Name) (seen : NameSet) : NameSet :=
  match todo with
  | [] => seen
  | n :: r =>
    if seen.contains n then reach env r seen else
    let seen := seen.insert n
    let more : List Name :=
      match env.find? n with
      | some ci =>
        let tys := ci.type.getUsedConstants.toList
        let vs := match ci with
          | .defnInfo d => d.value.getUsedConstants.toList
          | .opaqueInfo d => d.value.getUsedConstants.toList
          | _ => []
        tys ++ vs
      | none => []
    let extra := [n ++ `_unsafe_rec, Compiler.mkUnsafeRecName n].filter env.contains
    reach env (more ++ extra ++ r) seen

#eval show CoreM Unit from do
  let env ← getEnv
  let s := reach env [`main] {}
  for n in s.toList do
    match env.getModuleIdxFor? n with
    | some idx =>
      let m := env.header.moduleNames[idx.toNat]!
      if (`RxModel).isPrefixOf m then IO.println s!"R {m} {n}"
    | none => pure ()
"""


def reachable_decls(work, base):
    """Names of the RxModel constants the kernel term of the driver's `main` depends on (transitively, types
    included, `partial` bodies included).  A definition outside this set cannot influence what rxdriver
    prints: mutants inside it are equivalent for the correspondence check by construction."""
    out = work / "reach.txt"
    stamp = (base / ".mutants_base_ok").read_text()
    if not (out.exists() and out.read_text().startswith("# " + stamp + "\n")):
        f = work / "Reach.lean"
        f.write_text(REACH_LEAN)
        rc, txt = sh(["lake", "env", "lean", str(f)], cwd=base, timeout=1800)
        if rc != 0 or "R RxModel" not in txt:
            log("reachability analysis failed, every declaration is taken as used:\n" + txt[-1500:])
            return None
        out.write_text("# " + stamp + "\n" + txt)
    names = set()
    for l in out.read_text().splitlines():
        if l.startswith("R "):
            n = l.split(" ", 2)[2]
            names.add(n)
            names.add(re.sub(r"^_private\..*?\.0\.", "", n))
    return names


def suite_deps(lean_dir, closure):
    """{suite: set of RxModel files its runner can depend on} from the dispatch in Driver/Main.lean and the
    import closure of the module that defines the runner (None = not derivable: depends on everything)."""
    main = (lean_dir / "RxModel" / "Driver" / "Main.lean").read_text()
    deps = {}

    def clos(mod):
        seen, todo = set(), [mod]
        while todo:
            m = todo.pop()
            p = lean_dir / (m.replace(".", "/") + ".lean")
            if m in seen or not p.exists():
                continue
            seen.add(m)
            todo += [x for x in re.findall(r"^import\s+(\S+)", p.read_text(), flags=re.M) if x.startswith("RxModel")]
        return {m.replace(".", "/")[len("RxModel/"):] + ".lean" for m in seen}
    for m in re.finditer(r'^\s*\|\s*"(\w+)"\s*=>\s*([\w.]+)', main, flags=re.M):
        suite, fn = m.group(1), m.group(2).split(".")[-1]
        deps[suite] = None
        for f in sorted((lean_dir / "RxModel" / "Driver").glob("Suite*.lean")):
            if re.search(r"^\s*(?:partial\s+)?def\s+" + re.escape(fn) + r"\b", f.read_text(), flags=re.M):
                deps[suite] = clos("RxModel.Driver." + f.stem)
                break
    return deps


# ========================================================================================= case cache
class Stub:
    """what core.compare_case needs of a case"""
    __slots__ = ("cid", "events")

    def __init__(self, cid, nev):
        self.cid, self.events = cid, range(nev)


def _split_by_case(out_text):
    """harness / driver output -> {case id (str): "k body\\nk body..." (its lines without the id)}"""
    res = {}
    for line in out_text.splitlines():
        head, _, body = line.partition(" ")
        cid, _, k = head.rpartition(".")
        if cid:
            res.setdefault(cid, []).append(k + " " + body)
    return {k: "\n".join(v) for k, v in res.items()}


def _lines(blob):
    """"k body\\nk body" -> {k: body}"""
    res = {}
    for line in blob.splitlines():
        k, _, body = line.partition(" ")
        res[int(k)] = body
    return res


def build_cache(work, pids, tier, vseed, jobs, refresh):
    """Per plugin: the cases of `./check` (same list, same ids) and what the REAL code prints for them.  The
    harness is run per plugin with the batching of core.run_both (auxiliary oracle cases included), because
    that is what the check does; the driver side is a pure function of the case text, so the distinct cases
    of all plugins are pooled for it."""
    tag = hashlib.sha1((",".join(pids) + tier + str(vseed)).encode()).hexdigest()[:8]
    path = work / f"cache_{tag}.pkl"
    if path.exists() and not refresh:
        log(f"case cache: {path}")
        return pickle.load(open(path, "rb"))
    log(f"generating the {tier}-tier cases of {len(pids)} plugins (seed {vseed}), running the real harness once ...")
    texts, index = [], {}
    props, errs = {}, []
    for pid in pids:
        t0 = time.time()
        prop = importlib.import_module(f"vlib.props.{pid.lower()}").PROP
        cases = prop.corpus() + monoize(prop.cases(tier, vseed), vseed)
        seen, uniq = set(), []
        for c in cases:
            k = c.key()
            if k not in seen:
                seen.add(k)
                uniq.append(c)
        cases = uniq
        aux = [x for c in cases for x in prop.aux_cases(c)]
        everything = list(cases) + aux
        for i, c in enumerate(everything):          # as core.run_both
            c.cid = str(i)
        n = max(1, min(jobs, (len(everything) + 3) // 4))
        chunks = [everything[i::n] for i in range(n)]
        impl = {}
        with cf.ThreadPoolExecutor(max_workers=jobs) as ex:
            for f in [ex.submit(core._run_harness_chunk, ch) for ch in chunks]:
                out, es = f.result()
                errs += [f"{pid}: {e}" for e in es]
                impl.update(_split_by_case(out))
        rows = []
        for cid, c in enumerate(cases):
            k = c.key()
            uid = index.get(k)
            if uid is None:
                uid = len(texts)
                index[k] = uid
                texts.append(c.text(cid=str(uid)))
            rows.append((uid, len(c.events), prop.compare_from(c), impl.get(str(cid), "")))
        props[pid] = rows
        log(f"  {pid}: {len(rows)} cases (+{len(aux)} auxiliary), {time.time() - t0:.0f} s")
    log(f"{sum(len(r) for r in props.values())} cases, {len(texts)} distinct; harness errors: {errs[:3]}")
    cache = {"pids": pids, "tier": tier, "vseed": vseed, "props": props, "texts": texts, "harness_errors": errs}
    pickle.dump(cache, open(path, "wb"), protocol=4)
    return cache


# ====================================================================================== driver runs
class Runner:
    """Runs a driver binary over the distinct cases (chunks grouped by suite, so that a mutant which cannot
    touch a suite leaves the raw output of its chunks byte-identical and costs no Python work) and compares
    with the cached implementation output under every plugin that uses the case."""

    def __init__(self, work, cache, jobs, target=14000):
        self.work, self.cache = work, cache
        self.texts = cache["texts"]
        self.pool = cf.ThreadPoolExecutor(max_workers=jobs)
        d = work / "chunks"
        if d.exists():
            shutil.rmtree(d)
        d.mkdir()
        by_suite = {}
        for u, t in enumerate(self.texts):
            by_suite.setdefault(t.split(" ", 3)[2], []).append(u)
        self.chunk_files, self.chunk_uids, self.chunk_suite = [], [], []
        for suite in sorted(by_suite):
            us = by_suite[suite]
            n = max(1, (len(us) + target - 1) // target)
            for j in range(n):
                uids = us[j::n]
                p = d / f"{suite}_{j}.txt"
                p.write_text("".join(self.texts[u] for u in uids))
                self.chunk_files.append(p)
                self.chunk_uids.append(uids)
                self.chunk_suite.append(suite)
        self.nchunks = len(self.chunk_files)
        self.users = {}
        self.props = {}
        for pid, rows in cache["props"].items():
            self.props[pid] = importlib.import_module(f"vlib.props.{pid.lower()}").PROP
            for cid, (uid, nev, cfrom, impl) in enumerate(rows):
                self.users.setdefault(uid, []).append((pid, cid, nev, cfrom, impl))
        self.base_raw = [None] * self.nchunks
        self.base_out = [None] * self.nchunks
        self.base_time = [60.0] * self.nchunks
        self.base_dis = {}

    def _run_chunk(self, binary, j, timeout):
        t0 = time.time()
        try:
            with open(self.chunk_files[j], "rb") as f:
                p = subprocess.run([str(binary)], stdin=f, stdout=subprocess.PIPE, stderr=subprocess.PIPE,
                                   timeout=timeout)
            rc, out, err = p.returncode, p.stdout, p.stderr.decode("utf-8", "replace")[-300:]
        except subprocess.TimeoutExpired as ex:
            rc, out, err = -99, (ex.stdout or b""), "timeout"
            out = out[:out.rfind(b"\n") + 1]        # drop a half-written last line
        return j, rc, out, err, time.time() - t0

    def run(self, binary, baseline=False, suites=None):
        """`suites`: only these can be affected; the chunks of the others are not run (their output is the
        baseline's by construction)."""
        order = sorted(range(self.nchunks), key=lambda j: -self.base_time[j])
        futs = {}
        for j in order:
            if suites is not None and self.chunk_suite[j] not in suites:
                continue
            to = None if baseline else max(120.0, 12 * self.base_time[j])
            futs[j] = self.pool.submit(self._run_chunk, binary, j, to)
        return [futs[j].result() if j in futs else (j, 0, self.base_raw[j], "", 0.0) for j in range(self.nchunks)]

    def compare(self, pid, nev, cfrom, impl_blob, model_blob):
        return core.compare_case(Stub("x", nev), {"x": _lines(impl_blob)}, {"x": _lines(model_blob)},
                                 self.props[pid].project, cfrom)

    def set_baseline(self, binary):
        log(f"baseline run of the unmutated driver ({self.nchunks} chunks) ...")
        t0 = time.time()
        bad = 0
        for j, rc, out, err, dt in self.run(binary, baseline=True):
            if rc != 0:
                raise SystemExit(f"baseline driver failed on chunk {self.chunk_files[j]}: rc={rc} {err}")
            self.base_raw[j] = out
            self.base_out[j] = _split_by_case(out.decode("utf-8", "replace"))
            self.base_time[j] = dt
        t1 = time.time()
        # baseline disagreements (known findings etc.) never count as kills
        for j in range(self.nchunks):
            bo = self.base_out[j]
            for uid in self.chunk_uids[j]:
                mb = bo.get(str(uid), "")
                for pid, cid, nev, cfrom, impl in self.users.get(uid, ()):
                    d = None if mb == impl else self.compare(pid, nev, cfrom, impl, mb)
                    if d:
                        self.base_dis[(pid, uid)] = d
                        bad += 1
        log(f"baseline: driver {t1 - t0:.0f} s wall / {sum(self.base_time):.0f} cpu-s, comparison {time.time() - t1:.0f} s; "
            f"{bad} baseline disagreements (ignored in the verdicts)")

    def same_as_baseline(self, binary):
        return all(out == self.base_raw[j] for j, rc, out, err, dt in self.run(binary, baseline=True))

    def evaluate(self, binary, cap=200, suites=None):
        """-> (killed_by {pid: {cases, first}}, info)"""
        t0 = time.time()
        res = self.run(binary, suites=suites)
        killed = {}
        changed = 0
        suites = set()
        rcs = {}
        for j, rc, out, err, dt in res:
            if rc != 0:
                rcs[str(rc)] = rcs.get(str(rc), 0) + 1
            if out == self.base_raw[j]:
                continue
            mo = _split_by_case(out.decode("utf-8", "replace"))
            bo = self.base_out[j]
            for uid in self.chunk_uids[j]:
                s = str(uid)
                mb = mo.get(s, "")
                if mb == bo.get(s, ""):
                    continue
                changed += 1
                suites.add(self.chunk_suite[j])
                for pid, cid, nev, cfrom, impl in self.users.get(uid, ()):
                    if (pid, uid) in self.base_dis:
                        continue
                    k = killed.get(pid)
                    if k is not None and k["cases"] >= cap:
                        k["capped"] = True
                        continue
                    d = self.compare(pid, nev, cfrom, impl, mb)
                    if d:
                        if k is None:
                            k = killed[pid] = {"cases": 0, "first": None}
                        k["cases"] += 1
                        if k["first"] is None or cid < k["first"]["cid"]:
                            k["first"] = {"cid": cid, "event": d["event"], "impl": d["impl"], "model": d["model"],
                                          "case": self.texts[uid]}
        return killed, {"changed_cases": changed, "changed_suites": sorted(suites), "driver_rc": rcs,
                        "eval_s": round(time.time() - t0, 1)}


# ================================================================================= scratch projects
def sh(cmd, cwd=None, timeout=None):
    try:
        p = subprocess.run(cmd, cwd=cwd, stdout=subprocess.PIPE, stderr=subprocess.STDOUT, text=True, timeout=timeout)
        return p.returncode, p.stdout
    except subprocess.TimeoutExpired as ex:
        return -99, (ex.stdout or "") if isinstance(ex.stdout, str) else "timeout"


def prepare_base(work, files, keep_proofs, src_lean):
    """<work>/lean_base: a copy of the lean project (with build outputs) in which the proofs inside the
    model files are neutralised, built once."""
    base = work / "lean_base"
    stamp = base / ".mutants_base_ok"
    want = ("keep" if keep_proofs else "strip") + ":" + hashlib.sha1(
        "".join((src_lean / "RxModel" / f).read_text() for f in files).encode()).hexdigest()
    if stamp.exists() and stamp.read_text() == want:
        return base
    if base.exists():
        shutil.rmtree(base)
    log(f"copying {src_lean} -> {base}")
    sh(["cp", "-a", str(src_lean), str(base)])
    rc, out = sh(["lake", "build", "rxdriver"], cwd=base, timeout=3600)
    if rc != 0:
        raise SystemExit("the unmutated driver does not build:\n" + out[-3000:])
    if not keep_proofs:
        for f in files:
            p = base / "RxModel" / f
            orig = p.read_text()
            new = neutralise_proofs(orig)
            if new == orig:
                continue
            p.write_text(new)
            rc, out = sh(["lake", "build", "rxdriver"], cwd=base, timeout=3600)
            if rc != 0:
                log(f"  proofs of {f} kept (neutralised file does not build)")
                p.write_text(orig)
            else:
                log(f"  proofs inside {f} replaced by sorry")
        rc, out = sh(["lake", "build", "rxdriver"], cwd=base, timeout=3600)
        if rc != 0:
            raise SystemExit("base does not build:\n" + out[-3000:])
    stamp.write_text(want)
    return base


def sync_copy(base, dst):
    dst.mkdir(parents=True, exist_ok=True)
    rc, out = sh(["rsync", "-a", "--delete", str(base) + "/", str(dst) + "/"])
    if rc != 0:
        raise RuntimeError("rsync failed: " + out[-500:])


def first_error(out):
    for l in out.splitlines():
        if l.startswith("error:") and "build failed" not in l and "Lean exited" not in l:
            return l[:300]
    return out[-300:]


# ============================================================================================= main
def select(mutants_by_file, sample, seed):
    """Per file: all mutants, or `sample` of them, drawn round-robin over the operators (fixed seed)."""
    chosen = {}
    for f, ms in mutants_by_file.items():
        if not sample or len(ms) <= sample:
            chosen[f] = list(ms)
            continue
        rng = random.Random(f"{seed}:{f}")
        by_op = {}
        for m in ms:
            by_op.setdefault(m.op, []).append(m)
        for v in by_op.values():
            rng.shuffle(v)
        ops = sorted(by_op)
        rng.shuffle(ops)
        pick = []
        while len(pick) < sample:
            for o in ops:
                if by_op[o] and len(pick) < sample:
                    pick.append(by_op[o].pop())
        chosen[f] = sorted(pick, key=lambda m: (m.line, m.c0))
    return chosen


# ==================================================================== execution probes for survivors
PROBE_OPS = ("list-drop", "bool", "arith", "if-swap", "some-none", "append-swap", "if-neg")


def probe_text(rec, line):
    """The line with the ORIGINAL expression of the mutant wrapped in `dbgTrace "P"`: the driver then writes a
    line `P` to stderr each time the expression is evaluated.  None when the span is not an expression."""
    if rec["op"] not in PROBE_OPS:
        return None
    c0 = rec["col"]
    c1 = c0 + len(rec["orig"])
    if line[c0:c1] != rec["orig"]:
        return None
    view = code_view(line)
    if _in_pattern(view, c0):
        return None
    orig = rec["orig"]
    if rec["op"] == "if-neg":
        if re.match(r"\s*\w+\s+:\s+(?!:)", orig):
            return None
        return line[:c0] + f'(dbgTrace "P" fun _ => decide ({orig.strip()})) ' + line[c1:]
    if rec["op"] == "arith":
        return line[:c0] + f'(dbgTrace "P" fun _ => ({orig} : Nat))' + line[c1:]
    return line[:c0] + f'(dbgTrace "P" fun _ => ({orig}))' + line[c1:]


def probe_survivors(a):
    """Annotate the survivors of an existing report with `probe_hits`: how many times the mutated expression
    is evaluated by the driver over all cached cases of the suites that can reach the file (0 = the cases never
    execute it; None = no probe possible / probe does not compile)."""
    work = Path(a.work)
    rp = Path(a.probe_survivors)
    report = json.loads(rp.read_text())
    base = work / "lean_base"
    cache = build_cache(work, report["pids"], report["tier"], report["vseed"], core.JOBS, False)
    runner = Runner(work, cache, a.jobs)
    closure = set(driver_closure(core.LEAN))
    sdeps = suite_deps(core.LEAN, closure)
    todo = [r for r in report["survivors"] if not r.get("same_c")]
    glock = threading.Lock()
    log(f"{len(todo)} survivors to probe")

    def worker(w):
        dst = work / f"lean{w}"
        sync_copy(base, dst)
        cur = None
        while True:
            with glock:
                if not todo:
                    return
                # prefer the file this copy already has dirty
                k = next((i for i, r in enumerate(todo) if r["file"] == cur), 0)
                rec = todo.pop(k)
            f = rec["file"]
            if cur is not None and cur != f:
                sync_copy(base, dst)
            cur = f
            src = (base / "RxModel" / f).read_text().split("\n")
            new = probe_text(rec, src[rec["line"] - 1])
            if new is None:
                rec["probe_hits"] = None
                continue
            src[rec["line"] - 1] = new
            last_imp = max([i for i, l in enumerate(src) if l.startswith("import ")], default=-1)
            src.insert(last_imp + 1, "set_option compiler.extract_closed false")
            p = dst / "RxModel" / f
            p.write_text("\n".join(src))
            rc, out = sh(["lake", "build", "rxdriver"], cwd=dst, timeout=1500)
            if rc != 0:
                rec["probe_hits"] = None
                rec["probe_error"] = first_error(out)
                log(f"probe n/a  {rec['id']}  {rec['probe_error'][:90]}")
                continue
            binary = dst / ".lake" / "build" / "bin" / "rxdriver"
            suites = {s_ for s_ in set(runner.chunk_suite) if sdeps.get(s_) is None or f in sdeps[s_]}
            hits, by_suite = 0, {}
            futs = []
            for j in range(runner.nchunks):
                if runner.chunk_suite[j] in suites:
                    futs.append((j, runner.pool.submit(_probe_chunk, binary, runner.chunk_files[j])))
            for j, fu in futs:
                n = fu.result()
                if n:
                    by_suite[runner.chunk_suite[j]] = by_suite.get(runner.chunk_suite[j], 0) + n
                hits += n
            rec["probe_hits"] = hits
            rec["probe_suites"] = by_suite
            log(f"probe {hits:8d}  {rec['id']}  {by_suite}")
            p.write_text((base / "RxModel" / f).read_text())

    threads = [threading.Thread(target=worker, args=(w,), daemon=True) for w in range(a.copies)]
    for t in threads:
        t.start()
    for t in threads:
        t.join()
    rp.write_text(json.dumps(report, indent=1, ensure_ascii=False) + "\n")
    txt = render(report)
    rp.with_suffix(".txt").write_text(txt)
    print(txt)
    return 0


def proofs_survivors(a):
    """Third pass over an existing report: apply each survivor to a PRISTINE copy of the lean project (proofs
    intact) and build everything (`lake build`: lemmas + property theorems).  `proofs_notice` = some module no
    longer builds, i.e. a theorem depends on what the mutant changed although no suite can see it."""
    work = Path(a.work)
    rp = Path(a.proofs_survivors)
    report = json.loads(rp.read_text())
    todo = [r for r in report["survivors"] if "proofs_notice" not in r]
    glock = threading.Lock()
    log(f"{len(todo)} survivors to build with all proofs")

    def worker(w):
        dst = work / "pf" / f"lean{w}"
        while True:
            with glock:
                if not todo:
                    return
                rec = todo.pop(0)
            sync_copy(core.LEAN, dst)
            p = dst / "RxModel" / rec["file"]
            lines = p.read_text().split("\n")
            l = lines[rec["line"] - 1]
            c0, c1 = rec["col"], rec["col"] + len(rec["orig"])
            if l[c0:c1] != rec["orig"]:
                continue
            lines[rec["line"] - 1] = l[:c0] + rec["repl"] + l[c1:]
            p.write_text("\n".join(lines))
            rc, out = sh(["lake", "build"], cwd=dst, timeout=3600)
            rec["proofs_notice"] = rc != 0
            rec["proofs_failed_modules"] = sorted(set(re.findall(r"^- (RxModel\.\S+)", out, flags=re.M)))
            log(f"proofs {'BREAK' if rc else 'ok   '} {rec['id']}  {rec['proofs_failed_modules'][:3]}")

    threads = [threading.Thread(target=worker, args=(w,), daemon=True) for w in range(a.copies)]
    for t in threads:
        t.start()
    for t in threads:
        t.join()
    rp.write_text(json.dumps(report, indent=1, ensure_ascii=False) + "\n")
    txt = render(report)
    rp.with_suffix(".txt").write_text(txt)
    print(txt)
    return 0


def _probe_chunk(binary, chunk_file):
    with open(chunk_file, "rb") as f:
        p = subprocess.run([str(binary)], stdin=f, stdout=subprocess.DEVNULL, stderr=subprocess.PIPE)
    return sum(1 for l in p.stderr.split(b"\n") if l.strip() == b"P")


def render(report):
    L = []
    w = L.append
    files = report["files"]
    w(f"model mutants: tier={report['tier']} case-seed={report['vseed']} sample={report['sample']} "
      f"sample-seed={report['seed']}  plugins={','.join(report['pids'])}")
    w(f"cases: {report['n_cases']} ({report['n_distinct']} distinct), wall {report['wall_min']:.1f} min; "
      f"proofs inside the model files {'neutralised' if report['proofs_neutralised'] else 'kept'}")
    w("")
    w("cand = mutants the operators produce; unused = inside a definition the driver's `main` does not depend on")
    w("(not built: invisible to the correspondence by construction); stillb = does not compile (not counted);")
    w("score = killed / (killed + survived)")
    w("")
    cols = ("candidates", "selected", "unused", "stillborn", "killed", "survived")
    w(f"{'file':26} {'cand':>5} {'sel':>5} {'unused':>6} {'stillb':>6} {'killed':>6} {'surv':>5} {'score':>6}")
    tot = {k: 0 for k in cols}

    def row(name, r):
        live = r["killed"] + r["survived"]
        sc = f"{100.0 * r['killed'] / live:5.1f}%" if live else "   -  "
        w(f"{name:26} {r['candidates']:5d} {r['selected']:5d} {r['unused']:6d} {r['stillborn']:6d} "
          f"{r['killed']:6d} {r['survived']:5d} {sc:>6}")
    for f, r in files.items():
        row(f, r)
        for k in cols:
            tot[k] += r[k]
    row("TOTAL", tot)
    for f in report.get("skipped_files", []):
        w(f"{f:26} not in the import closure of rxdriver: skipped")
    w("")
    w("by operator (killed / survived / stillborn):")
    for o, v in sorted(report["by_op"].items()):
        live = v["killed"] + v["survived"]
        w(f"  {o:12} {v['killed']:4d} / {v['survived']:4d} / {v['stillborn']:4d}   "
          + (f"{100.0 * v['killed'] / live:5.1f}%" if live else ""))
    w("")
    w("kills per property (a mutant may be killed by several; `only` = no other property kills it):")
    for pid, v in sorted(report["by_prop"].items()):
        w(f"  {pid}: {v['killed']:4d}   only: {v['only']:3d}")
    w("")
    if report.get("unused_decls"):
        w("definitions in the model files that rxdriver never uses (theorems may; the correspondence cannot see them):")
        for f, ds in report["unused_decls"].items():
            w(f"  {f}: " + ", ".join(f"{d} ({n})" for d, n in sorted(ds.items())))
        w("")
    w(f"SURVIVORS ({len(report['survivors'])}):")
    for m in report["survivors"]:
        if m.get("same_c"):
            extra = "generated C identical"
        elif m.get("changed_cases") == 0:
            extra = "driver output unchanged on every case"
        else:
            extra = f"{m.get('changed_cases')} cases change, only outside the projections / before compare_from ({','.join(m.get('changed_suites', []))})"
        if "probe_hits" in m:
            h = m["probe_hits"]
            extra += "; " + ("no probe" if h is None else "NEVER EXECUTED by any case" if h == 0 else
                             f"executed {h}x ({','.join(m.get('probe_suites', {}))})")
        if "proofs_notice" in m:
            extra += "; proofs " + ("BREAK: " + ",".join(x.replace("RxModel.", "") for x in m["proofs_failed_modules"][:3])
                                    if m["proofs_notice"] else "unaffected")
        w(f"  {m['file']}:{m['line']}  {m['op']}  in {m.get('decl')}  [{extra}]")
        w(f"      - {m['before']}")
        w(f"      + {m['after']}")
        if m.get("class"):          # added by hand / by a classification script, see DESIGN
            w(f"      class ({m['class']}): {m.get('why', '')}"
              + (f"  -> now killed by {','.join(m['killed_after_fix_by'])}" if m.get("killed_after_fix_by") else ""))
    if report.get("not_run"):
        w("")
        w(f"not run (budget): {report['not_run']} mutants")
    return "\n".join(L) + "\n"


def main():
    ap = argparse.ArgumentParser(description=__doc__, formatter_class=argparse.RawDescriptionHelpFormatter)
    ap.add_argument("--work", default="/tmp/bL6/mut", help="scratch directory (lean copies, case cache, report)")
    ap.add_argument("--files", nargs="*", help="model files relative to lean/RxModel (default: all)")
    ap.add_argument("--props", nargs="*", help="property plugins (default C01..C20)")
    ap.add_argument("--sample", type=int, default=0, help="mutants per file, round-robin over operators (0 = all)")
    ap.add_argument("--seed", type=int, default=1, help="sampling seed")
    ap.add_argument("--vseed", type=int, default=int(os.environ.get("VERIF_SEED", "20260929")), help="case seed")
    ap.add_argument("--tier", default="quick")
    ap.add_argument("--budget-min", type=float, default=0, help="stop starting new mutants after N minutes")
    ap.add_argument("--copies", type=int, default=4, help="scratch lean projects building concurrently")
    ap.add_argument("--jobs", type=int, default=12, help="concurrent driver processes")
    ap.add_argument("--list", action="store_true", help="only list the mutants")
    ap.add_argument("--only", nargs="*", help="glob(s) on mutant ids file:line:col:op:hash")
    ap.add_argument("--keep-proofs", action="store_true")
    ap.add_argument("--build-unused", action="store_true", help="also build mutants of definitions the driver never uses")
    ap.add_argument("--refresh", action="store_true", help="regenerate the case cache (harness run)")
    ap.add_argument("--report", help="json path (default <work>/mutants_report.json; table next to it as .txt)")
    ap.add_argument("--group", type=int, default=6, help="mutants of one file a scratch copy takes at a time")
    ap.add_argument("--probe-survivors", metavar="REPORT.json",
                    help="second pass over an existing report: is the mutated expression of each survivor ever executed?")
    ap.add_argument("--proofs-survivors", metavar="REPORT.json",
                    help="third pass: do the Lean PROOFS (lake build of everything) notice each survivor?")
    a = ap.parse_args()
    if a.probe_survivors:
        return probe_survivors(a)
    if a.proofs_survivors:
        return proofs_survivors(a)
    t_start = time.time()
    work = Path(a.work)
    work.mkdir(parents=True, exist_ok=True)
    src_lean = core.LEAN

    closure = set(driver_closure(src_lean))
    files = a.files or MODEL_FILES
    files = [f[len("lean/RxModel/"):] if f.startswith("lean/RxModel/") else f for f in files]
    skipped = [f for f in files if f not in closure]
    files = [f for f in files if f in closure]
    for f in skipped:
        log(f"{f}: not imported by rxdriver, skipped")

    sources = {f: (src_lean / "RxModel" / f).read_text() for f in files}
    all_mut = {f: file_mutants(f, sources[f]) for f in files}
    decls = {f: decl_of_lines(sources[f]) for f in files}
    if a.only:
        all_mut = {f: [m for m in ms if any(fnmatch.fnmatch(m.mid, g) for g in a.only)] for f, ms in all_mut.items()}
    chosen = select(all_mut, a.sample, a.seed)
    if a.list:
        for f in files:
            ops = {}
            for m in all_mut[f]:
                ops[m.op] = ops.get(m.op, 0) + 1
            print(f"== {f}: {len(all_mut[f])} mutants {ops}; selected {len(chosen[f])}")
            sel = {m.mid for m in chosen[f]}
            for m in all_mut[f]:
                print(f"{'*' if m.mid in sel else ' '} {m.mid}  [{decls[f].get(m.line - 1, (None,))[0]}]\n"
                      f"      - {m.before.strip()}\n      + {m.after.strip()}")
        return 0

    pids = [p.upper() for p in (a.props or ALL_PIDS)]
    cache = build_cache(work, pids, a.tier, a.vseed, core.JOBS, a.refresh)
    runner = Runner(work, cache, a.jobs)

    base = prepare_base(work, sorted(closure & set(MODEL_FILES) | set(files)), a.keep_proofs, src_lean)
    base_bin = base / ".lake" / "build" / "bin" / "rxdriver"
    runner.set_baseline(base_bin)
    # the base (proofs neutralised) must behave exactly like the real driver
    if not runner.same_as_baseline(core.DRIVER_BIN):
        raise SystemExit(f"the driver built in {base} differs from {core.DRIVER_BIN} on the cached cases")
    reach = reachable_decls(work, base)
    sdeps = suite_deps(src_lean, closure)
    all_suites = set(runner.chunk_suite)

    def suites_of(f):
        return {s for s in all_suites if sdeps.get(s) is None or f in sdeps[s]}

    def used(m):
        d = decls[m.file].get(m.line - 1)
        if reach is None or d is None or d[0] is None or d[1] == "structure":
            return None
        return d[0] in reach

    # mutants must apply to the base text (proof neutralisation keeps the lines of the definitions)
    base_src = {f: (base / "RxModel" / f).read_text() for f in files}
    for f in files:
        bl = base_src[f].split("\n")
        for m in chosen[f]:
            assert bl[m.line - 1] == m.before, f"{m.mid}: base line differs"

    results = {}
    todo = {}
    for f in files:
        todo[f] = []
        for m in chosen[f]:
            rec = m.to_json()
            d = decls[f].get(m.line - 1)
            rec["decl"] = d[0] if d else None
            rec["decl_used"] = used(m)
            results[m.mid] = rec
            if rec["decl_used"] is False and not a.build_unused:
                rec["status"] = "unused"
            else:
                todo[f].append(m)
    # work list: groups of mutants of one file, files interleaved
    groups = []
    per_file = {f: [todo[f][i:i + a.group] for i in range(0, len(todo[f]), a.group)] for f in files}
    while any(per_file.values()):
        for f in files:
            if per_file[f]:
                groups.append((f, per_file[f].pop(0)))
    glock = threading.Lock()
    eval_pool = cf.ThreadPoolExecutor(max_workers=3)
    eval_futs = []
    bins = work / "bins"
    if bins.exists():
        shutil.rmtree(bins)
    bins.mkdir()
    deadline = t_start + a.budget_min * 60 if a.budget_min else None
    total = sum(len(g) for _, g in groups)
    log(f"{sum(len(v) for v in chosen.values())} mutants selected, {total} to build "
        f"({sum(1 for r in results.values() if r.get('status') == 'unused')} in definitions the driver never uses)")
    done = [0]
    base_c_cache = {}

    def base_c(f):
        if f not in base_c_cache:
            p = base / ".lake" / "build" / "ir" / "RxModel" / (f[:-5] + ".c")
            base_c_cache[f] = p.read_bytes() if p.exists() else None
        return base_c_cache[f]

    def do_eval(m, binary, rec):
        try:
            killed, info = runner.evaluate(binary, suites=suites_of(m.file))
            rec.update(info)
            rec["killed_by"] = killed
            rec["status"] = "killed" if killed else "survived"
        except Exception as ex:      # pragma: no cover
            rec["status"] = "error"
            rec["error"] = repr(ex)
        finally:
            try:
                os.unlink(binary)
            except OSError:
                pass
        with glock:
            done[0] += 1
            log(f"[{done[0]}/{total}] {rec['status']:9} {m.mid}  {','.join(sorted(rec.get('killed_by', {})))} "
                f"build {rec.get('build_s')}s eval {rec.get('eval_s')}s")

    def worker(w):
        dst = work / f"lean{w}"
        sync_copy(base, dst)
        cur_file = None
        while True:
            with glock:
                if not groups or (deadline and time.time() > deadline):
                    return
                f, ms = groups.pop(0)
            if cur_file is not None and cur_file != f:
                sync_copy(base, dst)
            cur_file = f
            p = dst / "RxModel" / f
            for m in ms:
                if deadline and time.time() > deadline:
                    break
                rec = results[m.mid]
                lines = base_src[f].split("\n")
                lines[m.line - 1] = m.after
                p.write_text("\n".join(lines))
                t0 = time.time()
                rc, out = sh(["lake", "build", "rxdriver"], cwd=dst, timeout=1500)
                rec["build_s"] = round(time.time() - t0, 1)
                if rc != 0:
                    rec["status"] = "stillborn"
                    rec["error"] = "build timeout" if rc == -99 else first_error(out)
                    with glock:
                        done[0] += 1
                        log(f"[{done[0]}/{total}] stillborn {m.mid}  {rec['error'][:100]}")
                    continue
                cp = dst / ".lake" / "build" / "ir" / "RxModel" / (f[:-5] + ".c")
                rec["same_c"] = bool(cp.exists() and cp.read_bytes() == base_c(f))
                b = bins / (hashlib.sha1(m.mid.encode()).hexdigest()[:12])
                shutil.copy2(dst / ".lake" / "build" / "bin" / "rxdriver", b)
                rec["status"] = "built"
                while True:          # do not let the evaluations fall far behind the builds
                    with glock:
                        pending = sum(1 for x in eval_futs if not x.done())
                    if pending < 6:
                        break
                    time.sleep(0.5)
                fut = eval_pool.submit(do_eval, m, b, rec)
                with glock:
                    eval_futs.append(fut)
            p.write_text(base_src[f])

    threads = [threading.Thread(target=worker, args=(w,), daemon=True) for w in range(a.copies)]
    for t in threads:
        t.start()
    for t in threads:
        t.join()
    for f in list(eval_futs):
        f.result()

    # ------------------------------------------------------------------------------------- report
    rep_files, by_op, by_prop = {}, {}, {p: {"killed": 0, "only": 0} for p in pids}
    survivors, killed_list, stillborn, unused_decls = [], [], [], {}
    not_run = 0
    for f in files:
        r = {"candidates": len(all_mut[f]), "selected": len(chosen[f]), "unused": 0, "stillborn": 0, "killed": 0,
             "survived": 0}
        for m in chosen[f]:
            rec = results[m.mid]
            st = rec.get("status")
            if st not in ("unused", "stillborn", "killed", "survived"):
                not_run += 1
                continue
            r[st] += 1
            if st == "unused":
                unused_decls.setdefault(f, {})
                unused_decls[f][rec["decl"]] = unused_decls[f].get(rec["decl"], 0) + 1
                continue
            o = by_op.setdefault(m.op, {"killed": 0, "survived": 0, "stillborn": 0})
            o[st] += 1
            if st == "killed":
                for pid in rec["killed_by"]:
                    by_prop[pid]["killed"] += 1
                if len(rec["killed_by"]) == 1:
                    by_prop[next(iter(rec["killed_by"]))]["only"] += 1
                killed_list.append(rec)
            elif st == "survived":
                survivors.append(rec)
            else:
                stillborn.append(rec)
        rep_files[f] = r
    report = {"tier": a.tier, "vseed": a.vseed, "sample": a.sample, "seed": a.seed, "pids": pids,
              "n_cases": sum(len(r) for r in cache["props"].values()), "n_distinct": len(cache["texts"]),
              "wall_min": (time.time() - t_start) / 60, "files": rep_files, "skipped_files": skipped,
              "by_op": by_op, "by_prop": by_prop, "unused_decls": unused_decls, "survivors": survivors,
              "killed": killed_list, "stillborn": stillborn, "not_run": not_run,
              "proofs_neutralised": not a.keep_proofs, "baseline_disagreements": len(runner.base_dis)}
    rp = Path(a.report) if a.report else work / "mutants_report.json"
    rp.write_text(json.dumps(report, indent=1, ensure_ascii=False) + "\n")
    txt = render(report)
    rp.with_suffix(".txt").write_text(txt)
    print(txt)
    log(f"report: {rp}")
    return 0


if __name__ == "__main__":
    sys.exit(main())
