#!/usr/bin/env python3
"""Write lean/RxModel/GenTie/Pins.lean from the CURRENT lean/RxModel/Gen/Pin*.lean: one `rfl` theorem per pinned item.

Run this ONLY after the hand transcriptions (Subject/Share.lean, Sched/Chain.lean async sources, Convert/*.lean, …) have
been re-read against the new text of the pinned files: the theorems say "the transcription was made from exactly this
text".  `./check` never runs this script."""
import re, sys
from pathlib import Path
GEN = Path("/verif/lean/RxModel/Gen")
out = ["/-! Transcription pins (DESIGN II.7, weakest tie): for the files of /repo/src whose Lean model is a HAND transcription",
       "    (ref_count, connectable, from_future, from_stream(_result), complete_status, box_it, defer, create, rc.rs, behavior.rs,",
       "    subscribe_item), `rs2lean` writes the token text of every item (doc comments and test modules dropped) into",
       "    `Gen/Pin*.lean` on every run; the theorems below say that this text is the one the transcription was made from.",
       "    A pin that no longer holds means: the file changed — the sampled correspondence decides whether a property broke, and",
       "    the transcription has to be re-read (tools/gen_pins.py regenerates this file afterwards). -/"]
GROUPS = {
    "PinsShare": ["PinRefCount", "PinConnectable"],                       # C11
    "PinsAsync": ["PinFromFuture", "PinFromStream", "PinFromStreamResult"],  # C08, C16
    "PinsConvert": ["PinCompleteStatus"],                                   # C14
    "PinsCold": ["PinDefer", "PinFromFn", "PinBoxIt"],                      # C13
    "PinsCells": ["PinRc", "PinBehaviorTrait", "PinSubscribeItem"],         # C18, C10, C12
    # scheduler.rs is tied semantically (GenTie/Scheduler); what is NOT translated — the `async move` block of `schedule()`
    # (macro impl_scheduler_method), the spawn macros, remote_handle, new_timer — is pinned here (C19, C02, C08)
    "PinsSched": ["PinSchedulerText"],
    # subscription.rs / subscriber.rs / observer.rs wholesale (C17, C02, C15)
    "PinsCore": ["PinSubscriptionText", "PinSubscriberText", "PinObserverText"],
    # subject.rs / behavior_subject.rs wholesale, on top of their semantic ties (C06, C12); start.rs (C03)
    "PinsSubject": ["PinSubjectText", "PinBehaviorSubjectText", "PinStartText"],
}
# groups of which only the items whose NAME matches are pinned (no count theorem then)
ONLY = {"PinSchedulerText": r"macro impl_scheduler_method|fn remote_handle|macro \w*_spawn|impl Scheduler < T > for|trait Scheduler|fn new_timer"}
DOC = list(out)
total = 0
for group, mods in GROUPS.items():
    lines = [f"import RxModel.Gen.{m}" for m in mods] + DOC + ["namespace Rx.GenTie", ""]
    for m in mods:
        txt = (GEN / f"{m}.lean").read_text()
        items = re.findall(r'^def (item_\d+) : String × String := (\(".*"\))$', txt, flags=re.M)
        lines.append(f"/-! ### {m} -/")
        for name, val in items:
            if m in ONLY and not re.search(ONLY[m], val.split('", "')[0]):
                continue
            lines.append(f"theorem pin_{m[3:]}_{name[5:]} : Rx.Gen.{m}.{name} = {val} := rfl")
            total += 1
        if m not in ONLY:
            lines.append(f"theorem pin_{m[3:]}_count : Rx.Gen.{m}.items.length = {len(items)} := rfl")
        lines.append("")
    lines.append("end Rx.GenTie")
    Path(f"/verif/lean/RxModel/GenTie/{group}.lean").write_text("\n".join(lines) + "\n")
print(f"{total} pins in {len(GROUPS)} modules")
