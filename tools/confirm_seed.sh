#!/bin/bash
# usage: confirm_seed.sh <worktree> <seed id>
# Confirms in the scratch worktree: (1) the crate's own tests pass with the change, (2) the demo fails
# with the change, (3) the demo passes without it.  Then stores patch+demo under /verif/seeded/<id>/.
set -u
WT=$1; ID=$2
export CARGO_NET_OFFLINE=true
cd $WT || exit 2
git diff -- src > patch.diff
DEMO=$(ls tests/demo_*.rs | head -1)
NAME=$(basename $DEMO .rs)
LIB=$(cargo test --offline --lib 2>&1 | grep -E "^test result" | head -1)
DOC=$(cargo test --offline --doc 2>&1 | grep -E "^test result" | tail -1)
WITH=$(cargo test --offline --test $NAME 2>&1 | grep -E "^test result" | head -1)
# (git stash is shared between worktrees: revert and re-apply the saved diff instead)
git apply -R patch.diff
WITHOUT=$(cargo test --offline --test $NAME 2>&1 | grep -E "^test result" | head -1)
git apply patch.diff
echo "lib:     $LIB"; echo "doc:     $DOC"; echo "with:    $WITH"; echo "without: $WITHOUT"
mkdir -p /verif/seeded/$ID
cp patch.diff /verif/seeded/$ID/patch.diff
cp $DEMO /verif/seeded/$ID/
cat > /verif/seeded/$ID/confirm.txt <<EOT
suite with change (--lib): $LIB
doc tests with change:     $DOC
demo with change:          $WITH
demo without change:       $WITHOUT
EOT
