#!/usr/bin/env python3
"""Write the PIN part of lean/RxModel/GenTie/Holds.lean (`GenTie/HoldsPins.lean`) from the current Gen/Holds.lean: one rfl
theorem per module.  Run only after the footprint model (Conc/Footprint.lean) has been re-read against the new table;
`./check` never runs this script."""
import re
from pathlib import Path
src = Path("/verif/lean/RxModel/Gen/Holds.lean").read_text()
out = ["import RxModel.Gen.Holds",
       "/-! Pins of the critical-section tables (`Gen/Holds.lean`, written by rs2lean/src/holds.rs on every run): per module the",
       "    list (function, cell, how its guard is held, the effect calls made while it is alive) is the one the footprint model",
       "    `Conc/Footprint.lean` (C10) and the lock-level LTS models (C06T, C12T, C14T, C15T, C19T) were transcribed from.",
       "    The robust part — the POLICIES those models rest on — is in `GenTie/Holds.lean`. -/",
       "namespace Rx.GenTie", ""]
for m in re.finditer(r'def (\w+) : List \(String × String × String × List String\) :=\n  \[\n(.*?)\n  \]', src, flags=re.S):
    name, body = m.group(1), m.group(2)
    out.append(f"theorem holds_pin_{name} : Rx.Gen.Holds.{name} =\n  [\n{body}\n  ] := rfl\n")
out.append("end Rx.GenTie")
Path("/verif/lean/RxModel/GenTie/HoldsPins.lean").write_text("\n".join(out) + "\n")
print("ok")
