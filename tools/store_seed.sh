#!/bin/bash
# usage: store_seed.sh <worktree> <seed id> <property> "<summary>" "<needs>"
# confirm_seed.sh + meta.json; re-runs the lib suite once if a real-timer test flickered under load.
set -u
WT=$1; ID=$2; P=$3; SUM=$4; NEEDS=$5
cd /verif
tools/confirm_seed.sh $WT $ID | tail -4
if ! grep -q "lib): test result: ok" seeded/$ID/confirm.txt; then
  R=$(cd $WT && CARGO_NET_OFFLINE=true cargo test --offline --lib 2>&1 | grep -E "^test result" | head -1)
  echo "re-run lib: $R"
  sed -i "s|^suite with change (--lib): \(.*\)|suite with change (--lib): \1  [flaky real-timer test under load; re-run: $R]|" seeded/$ID/confirm.txt
fi
python3 - "$ID" "$P" "$SUM" "$NEEDS" <<'PY'
import json,sys
k,p,s,n=sys.argv[1:5]
conf=open(f"/verif/seeded/{k}/confirm.txt").read().strip().splitlines()
json.dump({"property":p,"summary":s,"needs":n,"checks_run":[],"caught_by":[],"confirmed":conf,
  "what_was_run":[f"tools/confirm_seed.sh <scratch worktree> {k}"]},open(f"/verif/seeded/{k}/meta.json","w"),indent=1)
PY
