#!/bin/bash
# regression over every stored seed: apply, run the check(s) of its own property, revert; print caught / MISSED
cd /verif
for d in seeded/*/; do
  ID=$(basename $d)
  P=$(python3 -c "import json;print(json.load(open('$d/meta.json'))['property'])")
  [ -n "${1:-}" ] && [[ ! "$ID" =~ $1 ]] && continue
  git -C /repo apply /verif/$d/patch.diff 2>/dev/null || { echo "$ID patch-does-not-apply"; continue; }
  OUT=$(./check $P 2>&1); RC=$?
  git -C /repo checkout -- .
  rm -rf replays/$P
  NV=$(echo "$OUT" | grep -c "^VIOLATION")
  NF=$(echo "$OUT" | grep "^VIOLATION" | grep -vc "no-failing-input-found")
  if [ $RC -ne 0 ]; then echo "$ID $P caught violations=$NV with-failing-input=$NF"; else echo "$ID $P MISSED"; fi
done
git -C /repo status --short | head -3
