#!/bin/sh
# Build the framework from files on disk only (offline).
set -e
cd "$(dirname "$0")"
export CARGO_NET_OFFLINE=true
cp /repo/Cargo.lock harness/Cargo.lock
cp /repo/Cargo.lock rs2lean/Cargo.lock
# translator: regenerate lean/RxModel/Gen/*.lean from the current /repo/src (a failure here is reported by the
# checks as a broken tie, it must not stop the setup)
(cd rs2lean && cargo build --release --offline)
# (the subject family needs the compiler's own macro expansion: nightly -Zunpretty=expanded; without a nightly
# toolchain those two modules keep their committed text and their ties are skipped by the checks)
mkdir -p work
EXP=""
if cargo +nightly --version >/dev/null 2>&1; then
  if CARGO_TARGET_DIR=work/expand-target cargo +nightly rustc --offline --manifest-path /repo/Cargo.toml --lib --no-default-features --features futures-scheduler -- -Zunpretty=expanded > work/expanded_setup.rs 2>/dev/null; then EXP=work/expanded_setup.rs; fi
fi
./rs2lean/target/release/rs2lean /repo/src lean/RxModel/Gen $EXP || echo "rs2lean: some observers could not be translated"
(cd lean && lake build) || { echo "lake build: failures (reported per property by ./check)"; (cd lean && lake build rxdriver); }
(cd harness && cargo build --release --offline)
