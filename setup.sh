#!/bin/sh
# Build the framework from files on disk only (offline).
set -e
cd "$(dirname "$0")"
export CARGO_NET_OFFLINE=true
cp /repo/Cargo.lock harness/Cargo.lock
cp /repo/Cargo.lock rs2lean/Cargo.lock
# translator: regenerate lean/RxModel/Gen/*.lean from the current /repo/src (a failure here is reported by the
# checks as a broken tie, it must not stop the setup)
(cd rs2lean && cargo build --release --offline)
./rs2lean/target/release/rs2lean /repo/src lean/RxModel/Gen || echo "rs2lean: some observers could not be translated"
(cd lean && lake build) || { echo "lake build: failures (reported per property by ./check)"; (cd lean && lake build rxdriver); }
(cd harness && cargo build --release --offline)
