#!/bin/sh
# Build the framework from files on disk only (offline).
set -e
cd "$(dirname "$0")"
export CARGO_NET_OFFLINE=true
cp /repo/Cargo.lock harness/Cargo.lock
(cd lean && lake build)
(cd harness && cargo build --release --offline)
