//! Lock tracing through hook H2 (`rxrust::rc::verif::BEFORE_LOCK`): every
//! acquisition of a `MutArc` cell on this thread is recorded with the set of
//! cells held at that moment; probes record their callbacks the same way.
//! Cells are numbered in order of first acquisition within the case.
use std::cell::RefCell;

use rxrust::rc::verif::BEFORE_LOCK;

#[derive(Default)]
struct Trace {
  on: bool,
  cells: Vec<(usize, fn(usize) -> bool)>,
  tokens: Vec<String>,
}

thread_local! {
  static TRACE: RefCell<Trace> = RefCell::new(Trace::default());
}

fn held(t: &Trace) -> Vec<usize> {
  t.cells.iter().enumerate().filter(|(_, (a, p))| !p(*a)).map(|(i, _)| i).collect()
}

fn on_lock(addr: usize, probe: fn(usize) -> bool) {
  let relock = TRACE.with(|t| {
    let mut t = t.borrow_mut();
    let idx = match t.cells.iter().position(|(a, _)| *a == addr) {
      Some(i) => i,
      None => {
        t.cells.push((addr, probe));
        t.cells.len() - 1
      }
    };
    let h = held(&t);
    if h.contains(&idx) {
      t.tokens.push(format!("RELOCK{}", idx));
      return true;
    }
    let hs: Vec<String> = h.iter().map(|x| x.to_string()).collect();
    t.tokens.push(format!("a{}[{}]", idx, hs.join(".")));
    false
  });
  if relock {
    // the real code would block for ever here
    panic!("RELOCK");
  }
}

/// A probe callback of subscriber `sub`.
pub fn on_cb(sub: usize) {
  TRACE.with(|t| {
    let mut t = t.borrow_mut();
    if t.on {
      let hs: Vec<String> = held(&t).iter().map(|x| x.to_string()).collect();
      t.tokens.push(format!("c{}[{}]", sub, hs.join(".")));
    }
  });
}

/// The callback of a `finalize_threads` stage (suite `locks`).
pub fn on_fin() {
  TRACE.with(|t| {
    let mut t = t.borrow_mut();
    if t.on {
      let hs: Vec<String> = held(&t).iter().map(|x| x.to_string()).collect();
      t.tokens.push(format!("f0[{}]", hs.join(".")));
    }
  });
}

/// Start a fresh trace on this thread (cells renumbered) and switch the hook on.
pub fn start() {
  TRACE.with(|t| {
    *t.borrow_mut() = Trace { on: true, ..Trace::default() };
  });
  BEFORE_LOCK.with(|h| *h.borrow_mut() = Some(Box::new(on_lock)));
}

/// Switch the hook on/off without forgetting the cells seen so far.
pub fn pause() {
  BEFORE_LOCK.with(|h| *h.borrow_mut() = None);
  TRACE.with(|t| t.borrow_mut().on = false);
}

pub fn resume() {
  TRACE.with(|t| t.borrow_mut().on = true);
  BEFORE_LOCK.with(|h| *h.borrow_mut() = Some(Box::new(on_lock)));
}

pub fn stop() {
  BEFORE_LOCK.with(|h| *h.borrow_mut() = None);
  TRACE.with(|t| *t.borrow_mut() = Trace::default());
}

pub fn is_on() -> bool {
  TRACE.with(|t| t.borrow().on)
}

/// The tokens recorded since the last call.
pub fn take() -> String {
  TRACE.with(|t| std::mem::take(&mut t.borrow_mut().tokens).join(","))
}
