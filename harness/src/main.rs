//! rxharness: runs the cases of a suite file against the real rxRust crate at
//! /repo and prints one line per external event (the same lines `rxdriver`
//! prints for the Lean model).
//!
//! usage: rxharness < cases.txt > impl.out
mod ascript;
mod locktrace;
mod pipe;
mod sexp;
mod suites;
mod val;
mod vtime;

use std::io::{self, BufRead, Write};
use std::panic::{catch_unwind, AssertUnwindSafe};

use sexp::{parse_all, SExp};

pub struct Case {
  pub id: String,
  pub suite: String,
  pub flavor: String,
  pub fields: Vec<(String, Vec<SExp>)>,
  pub events: Vec<Vec<SExp>>,
}

impl Case {
  pub fn field(&self, key: &str) -> &[SExp] {
    self
      .fields
      .iter()
      .find(|(k, _)| k == key)
      .map(|(_, v)| v.as_slice())
      .unwrap_or_else(|| panic!("case {} has no field {}", self.id, key))
  }
  pub fn has(&self, key: &str) -> bool {
    self.fields.iter().any(|(k, _)| k == key)
  }
}

/// Output sink of one case: remembers the event index so that a panic can be
/// attributed to the event being processed.
pub struct Out {
  pub id: String,
  pub lines: Vec<String>,
  pub cur: usize,
  pub ltrace: bool,
}

impl Out {
  /// Lines are written as they are produced, so that what a case printed before
  /// it blocked is not lost when the watchdog ends the process.
  pub fn emit(&mut self, k: usize, mut body: String) {
    // field `ltrace` (any suite, thread-safe flavour): the lock-level trace of the event (hook H2)
    if self.ltrace && locktrace::is_on() {
      body.push_str(&format!(" L={}", locktrace::take()));
    }
    let stdout = io::stdout();
    let mut w = stdout.lock();
    let _ = writeln!(w, "{}.{} {}", self.id, k, body);
    set_progress_event(k + 1);
  }
}

fn run_case(case: &Case, out: &mut Out) {
  match case.suite.as_str() {
    "pipe" | "time" => suites::pipe_suite::run(case, out),
    "subject" | "behavior" => suites::subject_suite::run(case, out),
    "groupby" => suites::groupby_suite::run(case, out),
    "finalize" => suites::finalize_suite::run(case, out),
    "flatten" => suites::flatten_suite::run(case, out),
    "convert" => suites::convert_suite::run(case, out),
    "share" => suites::share_suite::run(case, out),
    "multi" => suites::multi_suite::run(case, out),
    "locks" => suites::locks_suite::run(case, out),
    "composite" => suites::composite_suite::run(case, out),
    "behaviorrace" => suites::brace_suite::run(case, out),
    "inject" => suites::inject_suite::run(case, out),
    s => panic!("unknown suite {}", s),
  }
}

/// Progress marker for the watchdog: (case counter, case id, event index).
static PROGRESS: std::sync::Mutex<(u64, String, usize)> = std::sync::Mutex::new((0, String::new(), 0));

pub fn set_progress_event(k: usize) {
  if let Ok(mut p) = PROGRESS.try_lock() {
    p.2 = k;
  }
}

/// A case that makes the real code block for ever (a std Mutex re-locked by its
/// holder, a lost wakeup) must not hang the check: if no case finishes for
/// `RXH_STALL_MS` (default 1500) the watchdog prints `<id>.<k> HANG` for the case
/// being processed and ends the process with status 17; the runner re-submits
/// the cases that had not been reached.
fn spawn_watchdog() {
  let limit = std::env::var("RXH_STALL_MS").ok().and_then(|v| v.parse().ok()).unwrap_or(1500u64);
  std::thread::spawn(move || {
    let mut last = 0u64;
    let mut since = std::time::Instant::now();
    loop {
      std::thread::sleep(std::time::Duration::from_millis(200));
      let (n, id, k) = {
        let p = PROGRESS.lock().unwrap();
        (p.0, p.1.clone(), p.2)
      };
      if n != last {
        last = n;
        since = std::time::Instant::now();
      } else if !id.is_empty() && since.elapsed().as_millis() as u64 > limit {
        let out = io::stdout();
        let mut w = out.lock();
        let _ = writeln!(w, "{}.{} HANG", id, k);
        let _ = w.flush();
        std::process::exit(17);
      }
    }
  });
}

fn main() {
  // silence the default panic message: panics are outcomes here
  std::panic::set_hook(Box::new(|_| {}));
  spawn_watchdog();
  let stdin = io::stdin();
  let mut cur: Option<Case> = None;
  for line in stdin.lock().lines() {
    let line = line.unwrap();
    let line = line.trim();
    if line.is_empty() || line.starts_with('#') {
      continue;
    }
    let (kw, rest) = match line.find(' ') {
      Some(i) => (&line[..i], line[i + 1..].trim()),
      None => (line, ""),
    };
    match kw {
      "case" => {
        let parts: Vec<&str> = rest.split_whitespace().collect();
        cur = Some(Case {
          id: parts[0].to_string(),
          suite: parts[1].to_string(),
          flavor: parts.get(2).unwrap_or(&"local").to_string(),
          fields: vec![],
          events: vec![],
        });
      }
      "ev" => cur.as_mut().unwrap().events.push(parse_all(rest)),
      "end" => {
        let case = cur.take().unwrap();
        {
          let mut p = PROGRESS.lock().unwrap();
          p.0 += 1;
          p.1 = case.id.clone();
          p.2 = 0;
        }
        let mut out = Out { id: case.id.clone(), lines: vec![], cur: 0, ltrace: case.has("ltrace") };
        if out.ltrace {
          locktrace::start();
        }
        let r = catch_unwind(AssertUnwindSafe(|| run_case(&case, &mut out)));
        if out.ltrace {
          locktrace::stop();
        }
        if r.is_err() {
          let k = out.cur;
          out.emit(k, "PANIC".to_string());
        }
        let _ = io::stdout().flush();
        {
          let mut p = PROGRESS.lock().unwrap();
          p.0 += 1;
          p.1 = String::new();
        }
      }
      key => cur.as_mut().unwrap().fields.push((key.to_string(), parse_all(rest))),
    }
  }
}
