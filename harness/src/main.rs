//! rxharness: runs the cases of a suite file against the real rxRust crate at
//! /repo and prints one line per external event (the same lines `rxdriver`
//! prints for the Lean model).
//!
//! usage: rxharness < cases.txt > impl.out
mod pipe;
mod sexp;
mod suites;
mod val;
mod vtime;

use std::io::{self, BufRead, Write};
use std::panic::{catch_unwind, AssertUnwindSafe};

use sexp::{parse_all, SExp};

pub struct Case {
  pub id: String,
  pub suite: String,
  pub flavor: String,
  pub fields: Vec<(String, Vec<SExp>)>,
  pub events: Vec<Vec<SExp>>,
}

impl Case {
  pub fn field(&self, key: &str) -> &[SExp] {
    self
      .fields
      .iter()
      .find(|(k, _)| k == key)
      .map(|(_, v)| v.as_slice())
      .unwrap_or_else(|| panic!("case {} has no field {}", self.id, key))
  }
  pub fn has(&self, key: &str) -> bool {
    self.fields.iter().any(|(k, _)| k == key)
  }
}

/// Output sink of one case: remembers the event index so that a panic can be
/// attributed to the event being processed.
pub struct Out {
  pub id: String,
  pub lines: Vec<String>,
  pub cur: usize,
}

impl Out {
  pub fn emit(&mut self, k: usize, body: String) {
    self.lines.push(format!("{}.{} {}", self.id, k, body));
  }
}

fn run_case(case: &Case, out: &mut Out) {
  match case.suite.as_str() {
    "pipe" | "time" => suites::pipe_suite::run(case, out),
    "subject" | "behavior" => suites::subject_suite::run(case, out),
    "groupby" => suites::groupby_suite::run(case, out),
    "finalize" => suites::finalize_suite::run(case, out),
    "flatten" => suites::flatten_suite::run(case, out),
    "convert" => suites::convert_suite::run(case, out),
    "share" => suites::share_suite::run(case, out),
    "multi" => suites::multi_suite::run(case, out),
    "locks" => suites::locks_suite::run(case, out),
    "behaviorrace" => suites::brace_suite::run(case, out),
    s => panic!("unknown suite {}", s),
  }
}

fn main() {
  // silence the default panic message: panics are outcomes here
  std::panic::set_hook(Box::new(|_| {}));
  let stdin = io::stdin();
  let stdout = io::stdout();
  let mut w = io::BufWriter::new(stdout.lock());
  let mut cur: Option<Case> = None;
  for line in stdin.lock().lines() {
    let line = line.unwrap();
    let line = line.trim();
    if line.is_empty() || line.starts_with('#') {
      continue;
    }
    let (kw, rest) = match line.find(' ') {
      Some(i) => (&line[..i], line[i + 1..].trim()),
      None => (line, ""),
    };
    match kw {
      "case" => {
        let parts: Vec<&str> = rest.split_whitespace().collect();
        cur = Some(Case {
          id: parts[0].to_string(),
          suite: parts[1].to_string(),
          flavor: parts.get(2).unwrap_or(&"local").to_string(),
          fields: vec![],
          events: vec![],
        });
      }
      "ev" => cur.as_mut().unwrap().events.push(parse_all(rest)),
      "end" => {
        let case = cur.take().unwrap();
        let mut out = Out { id: case.id.clone(), lines: vec![], cur: 0 };
        let r = catch_unwind(AssertUnwindSafe(|| run_case(&case, &mut out)));
        if r.is_err() {
          let k = out.cur;
          out.emit(k, "PANIC".to_string());
        }
        for l in out.lines {
          writeln!(w, "{}", l).unwrap();
        }
      }
      key => cur.as_mut().unwrap().fields.push((key.to_string(), parse_all(rest))),
    }
  }
  w.flush().unwrap();
}
