//! Virtual time and a harness-controlled executor.
//!
//! The crate is built without its `timer` feature, so `NEW_TIMER_FN` is ours:
//! a timer's deadline is `virtual now + duration` and it fires only when the
//! harness says so (never early).  Tasks are the futures the library spawned
//! through hook H1 (`rxrust::scheduler::verif`): `schedule`, `Remote::poll`
//! and the task types are the library's own code; which ready task is polled
//! next is decided here.
use std::cell::RefCell;
use std::future::Future;
use std::pin::Pin;
use std::sync::{Arc, Mutex};
use std::task::{Context, Poll, Waker};
use std::time::Duration;

use futures::task::{waker, ArcWake};
use rxrust::scheduler::verif::{VerifScheduler, VerifSchedulerThreads};
use rxrust::scheduler::{BoxFuture, NEW_TIMER_FN};

struct TimerRec {
  due: u64,
  fired: bool,
  waker: Option<Waker>,
  /// has returned `Ready` (mode `realtimer`: a further poll panics, as the timers of futures-time do)
  done: bool,
}

/// Case field `realtimer`: the two rules of a REAL timer future the plain virtual clock does not have — a timer of zero
/// length is ready at its FIRST poll (nobody has to fire it), and a timer must not be polled again after it has
/// completed (it panics).  Cases with this field have no model (implementation + oracle only).
static REAL: std::sync::atomic::AtomicBool = std::sync::atomic::AtomicBool::new(false);

pub fn set_real(on: bool) {
  REAL.store(on, std::sync::atomic::Ordering::SeqCst);
}

#[derive(Default)]
struct Clock {
  now: u64,
  timers: Vec<TimerRec>,
  requested: Vec<u64>,
}

/// The clock of the running case.  Every thread has its own one (all suites but `coop` run a case on
/// one thread and never notice); suite `coop` hands the controller thread's clock to its worker threads
/// (`handle` / `adopt`), so that timers created by a worker land in the case's clock.
#[derive(Clone)]
pub struct ClockHandle(Arc<Mutex<Clock>>);

thread_local! {
  static CLOCK: RefCell<ClockHandle> = RefCell::new(ClockHandle(Arc::new(Mutex::new(Clock::default()))));
}

fn with_clock<R>(f: impl FnOnce(&mut Clock) -> R) -> R {
  let h = CLOCK.with(|c| c.borrow().clone());
  let mut g = h.0.lock().unwrap_or_else(|e| e.into_inner());
  f(&mut g)
}

/// This thread's clock (to be adopted by another thread).
pub fn handle() -> ClockHandle {
  CLOCK.with(|c| c.borrow().clone())
}

/// Make `h` this thread's clock.
pub fn adopt(h: ClockHandle) {
  CLOCK.with(|c| *c.borrow_mut() = h);
}

struct VTimer(usize);

impl Future for VTimer {
  type Output = ();
  fn poll(self: Pin<&mut Self>, cx: &mut Context<'_>) -> Poll<()> {
    with_clock(|c| {
      let t = &mut c.timers[self.0];
      if t.done && REAL.load(std::sync::atomic::Ordering::SeqCst) {
        panic!("timer polled after completion");
      }
      if t.fired {
        t.done = true;
        Poll::Ready(())
      } else {
        t.waker = Some(cx.waker().clone());
        Poll::Pending
      }
    })
  }
}

/// Length of one virtual tick in nanoseconds: 1 ms unless the case says `unit us`
/// (then every duration of the case is a sub-millisecond one — the model is
/// unit-agnostic, the library must be too).
static UNIT_NANOS: std::sync::atomic::AtomicU64 = std::sync::atomic::AtomicU64::new(1_000_000);

pub fn set_unit_nanos(n: u64) {
  UNIT_NANOS.store(n, std::sync::atomic::Ordering::SeqCst);
}

/// `n` virtual ticks as a `Duration`.
pub fn ticks(n: u64) -> Duration {
  Duration::from_nanos(n * UNIT_NANOS.load(std::sync::atomic::Ordering::SeqCst))
}

/// Durations are virtual ticks; real `Instant` arithmetic of the `_at`
/// constructors is rounded to the nearest tick.
fn millis(d: Duration) -> u64 {
  let u = UNIT_NANOS.load(std::sync::atomic::Ordering::SeqCst) as u128;
  ((d.as_nanos() + u / 2) / u) as u64
}

fn new_timer(d: Duration) -> BoxFuture<'static, ()> {
  let id = with_clock(|c| {
    let due = c.now + millis(d);
    let ready = REAL.load(std::sync::atomic::Ordering::SeqCst) && millis(d) == 0;
    c.timers.push(TimerRec { due, fired: ready, waker: None, done: false });
    c.requested.push(millis(d));
    c.timers.len() - 1
  });
  Box::pin(VTimer(id))
}

pub fn install() {
  let _ = NEW_TIMER_FN.set(new_timer);
}

pub fn reset() {
  with_clock(|c| *c = Clock::default());
}

pub fn now() -> u64 {
  with_clock(|c| c.now)
}

pub fn advance(d: u64) {
  with_clock(|c| c.now += d);
}

pub fn timers_created() -> usize {
  with_clock(|c| c.timers.len())
}

pub fn requested() -> Vec<u64> {
  with_clock(|c| c.requested.clone())
}

/// Ids of the timers that are due and not yet fired, in creation order.
pub fn due_timers() -> Vec<usize> {
  with_clock(|c| {
    c.timers
      .iter()
      .enumerate()
      .filter(|(_, t)| !t.fired && t.due <= c.now)
      .map(|(i, _)| i)
      .collect()
  })
}

/// Fire one timer (the caller guarantees it is due): wake whoever awaits it.
pub fn fire(id: usize) {
  let w = with_clock(|c| {
    c.timers[id].fired = true;
    c.timers[id].waker.take()
  });
  if let Some(w) = w {
    w.wake();
  }
}

// ------------------------------------------------------------------ executor
struct TaskWaker {
  id: usize,
  woken: Arc<Mutex<Vec<bool>>>,
}

impl ArcWake for TaskWaker {
  fn wake_by_ref(a: &Arc<Self>) {
    let mut w = a.woken.lock().unwrap();
    while w.len() <= a.id {
      w.push(true);
    }
    w[a.id] = true;
  }
}

/// The two queue flavours behind one interface.
#[derive(Clone)]
pub enum Queue {
  Local(VerifScheduler),
  Shared(VerifSchedulerThreads),
}

#[derive(Clone)]
pub struct Exec {
  pub queue: Queue,
  woken: Arc<Mutex<Vec<bool>>>,
}

impl Exec {
  pub fn new(queue: Queue) -> Self {
    Exec { queue, woken: Arc::new(Mutex::new(vec![])) }
  }

  fn len(&self) -> usize {
    match &self.queue {
      Queue::Local(q) => q.0.borrow().len(),
      Queue::Shared(q) => q.0.lock().unwrap().len(),
    }
  }

  fn is_live(&self, k: usize) -> bool {
    match &self.queue {
      Queue::Local(q) => q.0.borrow()[k].is_some(),
      Queue::Shared(q) => q.0.lock().unwrap()[k].is_some(),
    }
  }

  /// Ids of the tasks that have not finished, in spawn order.
  pub fn live(&self) -> Vec<usize> {
    (0..self.len()).filter(|k| self.is_live(*k)).collect()
  }

  fn is_woken(&self, k: usize) -> bool {
    let w = self.woken.lock().unwrap();
    // a freshly spawned task has never been polled: it is ready
    *w.get(k).unwrap_or(&true)
  }

  /// Poll task `k` once (spurious polls are legal).
  pub fn poll(&self, k: usize) {
    {
      let mut w = self.woken.lock().unwrap();
      while w.len() <= k {
        w.push(true);
      }
      w[k] = false;
    }
    let wk = waker(Arc::new(TaskWaker { id: k, woken: self.woken.clone() }));
    let mut cx = Context::from_waker(&wk);
    match &self.queue {
      Queue::Local(q) => {
        let fut = q.0.borrow_mut()[k].take();
        if let Some(mut f) = fut {
          if f.as_mut().poll(&mut cx).is_pending() {
            q.0.borrow_mut()[k] = Some(f);
          }
        }
      }
      Queue::Shared(q) => {
        let fut = q.0.lock().unwrap()[k].take();
        if let Some(mut f) = fut {
          if f.as_mut().poll(&mut cx).is_pending() {
            q.0.lock().unwrap()[k] = Some(f);
          }
        }
      }
    }
  }

  /// The prompt FIFO schedule: fire every due timer in creation order, then poll
  /// every woken live task once in spawn order; repeat until nothing moves.
  pub fn run(&self) {
    loop {
      let mut progressed = false;
      for t in due_timers() {
        fire(t);
        progressed = true;
      }
      let ready: Vec<usize> = self.live().into_iter().filter(|k| self.is_woken(*k)).collect();
      for k in ready {
        if self.is_live(k) {
          self.poll(k);
          progressed = true;
        }
      }
      if !progressed {
        break;
      }
    }
  }
}
