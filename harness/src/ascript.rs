//! Scripted futures and streams: the inputs of `from_future`,
//! `from_future_result`, `from_stream`, `from_stream_result` in the `time` suite.
//!
//! A script is a list of steps, consumed one per `poll` / `poll_next`:
//!
//! * `(ready v)`  – `Poll::Ready` with the item `v` (`Ok(v)` for the `_result` forms);
//! * `(err e)`    – `Poll::Ready(Err(e))` for the `_result` forms.  The infallible
//!                  forms have no error channel: there the step is the plain item `e`
//!                  (the generators do not use it with them);
//! * `(pending)`  – returns `Poll::Pending` ONCE and wakes the task at once
//!                  (`cx.waker().wake_by_ref()`), so the task stays ready and the
//!                  executor's next poll proceeds with the following step;
//! * `(hang)`     – returns `Poll::Pending` without waking anybody and stays at this
//!                  step for ever (a future / stream that never resolves);
//! * `(again)`    – only as the last step of a stream script: start over from the first
//!                  step (an unbounded stream).  Ignored when it is the only step.
//!
//! End of the list: a stream yields `None`; a future stays pending for ever (like `hang`).
//!
//! The values are `Clone` (the pipeline builder hands out `CloneableBoxOp`s): the
//! script lives in the value, the position is a per-instance field, so every
//! subscription replays the script from its own position 0.  `P` is the pull
//! counter of the case (`q pulls`): it is called for every item a *stream* yields.
use std::future::Future;
use std::pin::Pin;
use std::task::{Context, Poll};

use futures::Stream;

use crate::sexp::SExp;
use crate::val::Val;

#[derive(Clone, Debug)]
pub enum AStep {
  Ready(Val),
  Err(i64),
  Pending,
  Hang,
  Again,
}

impl AStep {
  pub fn parse(e: &SExp) -> AStep {
    let xs = e.list();
    match xs[0].atom() {
      "ready" => AStep::Ready(Val::parse(&xs[1])),
      "err" => AStep::Err(xs[1].int()),
      "pending" => AStep::Pending,
      "hang" => AStep::Hang,
      "again" => AStep::Again,
      s => panic!("bad script step {}", s),
    }
  }
}

#[derive(Clone)]
pub struct Script<P> {
  steps: Vec<AStep>,
  pos: usize,
  pulled: P,
}

impl<P: Fn()> Script<P> {
  pub fn new(steps: &[SExp], pulled: P) -> Self {
    Script { steps: steps.iter().map(AStep::parse).collect(), pos: 0, pulled }
  }

  /// One `poll_next` of the scripted stream.
  fn next_item(&mut self, cx: &mut Context<'_>) -> Poll<Option<Result<Val, i64>>> {
    loop {
      match self.steps.get(self.pos).cloned() {
        None => return Poll::Ready(None),
        Some(AStep::Again) => {
          if self.pos == 0 {
            return Poll::Ready(None);
          }
          self.pos = 0;
        }
        Some(AStep::Pending) => {
          self.pos += 1;
          cx.waker().wake_by_ref();
          return Poll::Pending;
        }
        Some(AStep::Hang) => return Poll::Pending,
        Some(AStep::Ready(v)) => {
          self.pos += 1;
          (self.pulled)();
          return Poll::Ready(Some(Ok(v)));
        }
        Some(AStep::Err(e)) => {
          self.pos += 1;
          (self.pulled)();
          return Poll::Ready(Some(Err(e)));
        }
      }
    }
  }

  /// One `poll` of the scripted future.
  fn output(&mut self, cx: &mut Context<'_>) -> Poll<Result<Val, i64>> {
    match self.steps.get(self.pos).cloned() {
      None | Some(AStep::Hang) | Some(AStep::Again) => Poll::Pending,
      Some(AStep::Pending) => {
        self.pos += 1;
        cx.waker().wake_by_ref();
        Poll::Pending
      }
      Some(AStep::Ready(v)) => {
        self.pos += 1;
        Poll::Ready(Ok(v))
      }
      Some(AStep::Err(e)) => {
        self.pos += 1;
        Poll::Ready(Err(e))
      }
    }
  }
}

/// The infallible forms see an `Err` step as an ordinary item.
fn plain(r: Result<Val, i64>) -> Val {
  match r {
    Ok(v) => v,
    Err(e) => Val::Int(e),
  }
}

#[derive(Clone)]
pub struct ScriptedFuture<P>(pub Script<P>);
#[derive(Clone)]
pub struct ScriptedTryFuture<P>(pub Script<P>);
#[derive(Clone)]
pub struct ScriptedStream<P>(pub Script<P>);
#[derive(Clone)]
pub struct ScriptedTryStream<P>(pub Script<P>);

impl<P: Fn() + Unpin> Future for ScriptedFuture<P> {
  type Output = Val;
  fn poll(mut self: Pin<&mut Self>, cx: &mut Context<'_>) -> Poll<Val> {
    self.0.output(cx).map(plain)
  }
}

impl<P: Fn() + Unpin> Future for ScriptedTryFuture<P> {
  type Output = Result<Val, i64>;
  fn poll(mut self: Pin<&mut Self>, cx: &mut Context<'_>) -> Poll<Result<Val, i64>> {
    self.0.output(cx)
  }
}

impl<P: Fn() + Unpin> Stream for ScriptedStream<P> {
  type Item = Val;
  fn poll_next(mut self: Pin<&mut Self>, cx: &mut Context<'_>) -> Poll<Option<Val>> {
    self.0.next_item(cx).map(|o| o.map(plain))
  }
}

impl<P: Fn() + Unpin> Stream for ScriptedTryStream<P> {
  type Item = Result<Val, i64>;
  fn poll_next(mut self: Pin<&mut Self>, cx: &mut Context<'_>) -> Poll<Option<Result<Val, i64>>> {
    self.0.next_item(cx)
  }
}
