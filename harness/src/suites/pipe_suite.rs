//! Suite `pipe`: one pipeline (field `pipe`), one probe, a script of external
//! events.  Per event the harness prints what the probe received during that
//! event (`o=`), or the answer to a query.
use std::cell::RefCell;
use std::rc::Rc;
use std::sync::{Arc, Mutex};

use rxrust::prelude::*;

use crate::pipe::{build_local, build_threads, LCtx, TCtx};
use crate::sexp::SExp;
use crate::val::{Notif, Val};
use crate::locktrace;
use crate::vtime::{self, Exec, Queue};
use crate::{Case, Out};

/// `.1`: field `fb` — on receiving the item `v > 0` the subscriber pushes `v - 1` into hot subject 0 from inside
/// its callback (a feedback / count-down loop through the pipeline)
struct Probe(Rc<RefCell<Vec<Notif>>>, Option<Subject<'static, Val, i64>>);
impl Observer<Val, i64> for Probe {
  fn next(&mut self, v: Val) {
    self.0.borrow_mut().push(Notif::Next(v.clone()));
    if let (Some(s), Val::Int(i)) = (&self.1, &v) {
      if *i > 0 {
        s.clone().next(Val::Int(*i - 1));
      }
    }
  }
  fn error(self, e: i64) {
    self.0.borrow_mut().push(Notif::Error(e));
  }
  fn complete(self) {
    self.0.borrow_mut().push(Notif::Complete);
  }
  fn is_finished(&self) -> bool {
    false
  }
}

/// event `remit`: something to do on ANOTHER thread while the probe is inside a delivery (taken by the first call)
static RACE: Mutex<Option<Box<dyn FnOnce() + Send>>> = Mutex::new(None);
fn race_hook() {
  let h = RACE.lock().unwrap().take();
  if let Some(h) = h {
    h()
  }
}

struct ProbeT(Arc<Mutex<Vec<Notif>>>, Option<SubjectThreads<Val, i64>>);
impl Observer<Val, i64> for ProbeT {
  fn next(&mut self, v: Val) {
    locktrace::on_cb(0);
    self.0.lock().unwrap().push(Notif::Next(v.clone()));
    race_hook();
    if let (Some(s), Val::Int(i)) = (&self.1, &v) {
      if *i > 0 {
        s.clone().next(Val::Int(*i - 1));
      }
    }
  }
  fn error(self, e: i64) {
    locktrace::on_cb(0);
    self.0.lock().unwrap().push(Notif::Error(e));
  }
  fn complete(self) {
    locktrace::on_cb(0);
    self.0.lock().unwrap().push(Notif::Complete);
  }
  fn is_finished(&self) -> bool {
    false
  }
}

fn fmt_log(log: Vec<Notif>) -> String {
  let parts: Vec<String> = log.iter().map(|n| n.to_string()).collect();
  format!("o={}", parts.join(";"))
}

/// field `uniterr`: a hot pipeline over `Subject<Val, ()>` — an error type WITHOUT payload — subscribed through the closure
/// glue (`on_error(..).on_complete(..).subscribe(..)`; `ce`: on_complete first).  An error prints as `E0`.
fn run_uniterr_local(case: &Case, out: &mut Out) {
  let log = Rc::new(RefCell::new(Vec::<Notif>::new()));
  let mut s: Subject<Val, ()> = Subject::default();
  let order = case.field("uniterr")[0].atom().to_string();
  let mapped = case.has("umap");
  // field `npanic v`: the subscriber's ITEM closure fails (panics) on the item v, after it has logged it; the emitting
  // call is wrapped in catch_unwind and the history goes on
  let npanic: Option<i64> = if case.has("npanic") { Some(case.field("npanic")[0].int()) } else { None };
  let mut sub: Option<Box<dyn FnOnce()>> = None;
  for (k, ev) in case.events.iter().enumerate() {
    out.cur = k;
    match ev[0].atom() {
      "sub" => {
        let (l1, l2, l3) = (log.clone(), log.clone(), log.clone());
        let f = crate::val::fn1("add1");
        let src = s.clone().map(move |v: Val| if mapped { f(v) } else { v });
        if order == "ce" {
          let u = src
            .on_complete(move || l2.borrow_mut().push(Notif::Complete))
            .on_error(move |_: ()| l1.borrow_mut().push(Notif::Error(0)))
            .subscribe(move |v| {
              let hit = matches!((&v, npanic), (Val::Int(i), Some(k)) if *i == k);
              l3.borrow_mut().push(Notif::Next(v));
              if hit {
                panic!("the subscriber's item closure fails")
              }
            });
          sub = Some(Box::new(move || u.unsubscribe()));
        } else {
          let u = src
            .on_error(move |_: ()| l1.borrow_mut().push(Notif::Error(0)))
            .on_complete(move || l2.borrow_mut().push(Notif::Complete))
            .subscribe(move |v| {
              let hit = matches!((&v, npanic), (Val::Int(i), Some(k)) if *i == k);
              l3.borrow_mut().push(Notif::Next(v));
              if hit {
                panic!("the subscriber's item closure fails")
              }
            });
          sub = Some(Box::new(move || u.unsubscribe()));
        }
      }
      "emit" => {
        let n = Notif::parse(&ev[2]);
        let mut s2 = s.clone();
        let go = move || match n {
          Notif::Next(v) => s2.next(v),
          Notif::Error(_) => s2.error(()),
          Notif::Complete => s2.complete(),
        };
        if npanic.is_some() {
          let _ = std::panic::catch_unwind(std::panic::AssertUnwindSafe(go));
        } else {
          go()
        }
      }
      "unsub" => {
        if let Some(u) = sub.take() {
          u()
        }
      }
      e => panic!("uniterr: unknown event {}", e),
    }
    let drained = std::mem::take(&mut *log.borrow_mut());
    out.emit(k, fmt_log(drained));
  }
}

fn run_uniterr_threads(case: &Case, out: &mut Out) {
  let log = Arc::new(Mutex::new(Vec::<Notif>::new()));
  let mut s: SubjectThreads<Val, ()> = SubjectThreads::default();
  let order = case.field("uniterr")[0].atom().to_string();
  let mapped = case.has("umap");
  let mut sub: Option<Box<dyn FnOnce()>> = None;
  for (k, ev) in case.events.iter().enumerate() {
    out.cur = k;
    match ev[0].atom() {
      "sub" => {
        let (l1, l2, l3) = (log.clone(), log.clone(), log.clone());
        let f = crate::val::fn1("add1");
        let src = s.clone().map(move |v: Val| if mapped { f(v) } else { v });
        if order == "ce" {
          let u = src
            .on_complete(move || l2.lock().unwrap().push(Notif::Complete))
            .on_error(move |_: ()| l1.lock().unwrap().push(Notif::Error(0)))
            .subscribe(move |v| l3.lock().unwrap().push(Notif::Next(v)));
          sub = Some(Box::new(move || u.unsubscribe()));
        } else {
          let u = src
            .on_error(move |_: ()| l1.lock().unwrap().push(Notif::Error(0)))
            .on_complete(move || l2.lock().unwrap().push(Notif::Complete))
            .subscribe(move |v| l3.lock().unwrap().push(Notif::Next(v)));
          sub = Some(Box::new(move || u.unsubscribe()));
        }
      }
      "emit" => match Notif::parse(&ev[2]) {
        Notif::Next(v) => s.next(v),
        Notif::Error(_) => s.clone().error(()),
        Notif::Complete => s.clone().complete(),
      },
      "unsub" => {
        if let Some(u) = sub.take() {
          u()
        }
      }
      e => panic!("uniterr: unknown event {}", e),
    }
    let drained = std::mem::take(&mut *log.lock().unwrap());
    out.emit(k, fmt_log(drained));
  }
}

pub fn run(case: &Case, out: &mut Out) {
  if case.has("uniterr") {
    return if case.flavor == "threads" { run_uniterr_threads(case, out) } else { run_uniterr_local(case, out) };
  }
  if case.flavor == "threads" {
    run_threads(case, out)
  } else {
    run_local(case, out)
  }
}

/// Scheduler events shared by both flavours; returns false if `ev` is not one.
fn time_event(ev: &[SExp], exec: &Exec) -> bool {
  match ev[0].atom() {
    "adv" => vtime::advance(ev[1].nat() as u64),
    "fire" => {
      let due = vtime::due_timers();
      if let Some(t) = due.get(ev[1].nat()) {
        vtime::fire(*t);
      }
    }
    "poll" => {
      let live = exec.live();
      if let Some(k) = live.get(ev[1].nat()) {
        exec.poll(*k);
      }
    }
    "run" => exec.run(),
    _ => return false,
  }
  true
}

fn suffix(case: &Case, exec: &Exec) -> String {
  let mut s = if case.suite == "time" {
    format!(" live={} tm={} t={}", exec.live().len(), vtime::timers_created(), vtime::now())
  } else {
    String::new()
  };
  if locktrace::is_on() {
    // field `locktrace`: the lock-level trace of the event (hook H2), see locktrace.rs
    s.push_str(&format!(" L={}", locktrace::take()));
  }
  s
}

fn run_local(case: &Case, out: &mut Out) {
  // (a trace left switched on by an earlier case of this worker must not leak into a local case)
  locktrace::stop();
  vtime::install();
  vtime::reset();
  vtime::set_real(case.has("realtimer"));
  // field `unit us`: one virtual tick is a microsecond (default: a millisecond)
  vtime::set_unit_nanos(if case.has("unit") && case.field("unit")[0].atom() == "us" { 1_000 } else { 1_000_000 });
  let ctx = LCtx::default();
  // field `mono k`: adjacent single-input operators are applied without a box in between (pipe.rs)
  if case.has("mono") {
    ctx.mono.store(case.field("mono")[0].nat() as u8, std::sync::atomic::Ordering::SeqCst);
  }
  let exec = Exec::new(Queue::Local(ctx.sched.clone()));
  let log = Rc::new(RefCell::new(Vec::<Notif>::new()));
  let pipe_expr: &SExp = &case.field("pipe")[0];
  let pipeline = build_local(pipe_expr, &ctx);
  let mut sub: Option<BoxSubscription<'static>> = None;
  // field `twosubs`: a second subscription of a clone of the SAME pipeline value (events `sub2` / `unsub2`),
  // its deliveries are printed as ` o2=…` after the first subscription's
  let two = case.has("twosubs");
  let log2 = Rc::new(RefCell::new(Vec::<Notif>::new()));
  let mut sub2: Option<BoxSubscription<'static>> = None;
  let drain = |log: &Rc<RefCell<Vec<Notif>>>| {
    let a = fmt_log(std::mem::take(&mut *log.borrow_mut()));
    if two {
      a + " " + &fmt_log(std::mem::take(&mut *log2.borrow_mut())).replacen("o=", "o2=", 1)
    } else {
      a
    }
  };
  for (k, ev) in case.events.iter().enumerate() {
    out.cur = k;
    match ev[0].atom() {
      "sub2" => {
        sub2 = Some(pipeline.clone().actual_subscribe(Probe(log2.clone(), None)));
        let sfx = suffix(case, &exec);
        out.emit(k, drain(&log) + &sfx);
      }
      "unsub2" => {
        if let Some(u) = sub2.take() {
          u.unsubscribe();
        }
        let sfx = suffix(case, &exec);
        out.emit(k, drain(&log) + &sfx);
      }
      "sub" => {
        // field `closure`: subscribe the way users do — `.on_error(f).on_complete(g).subscribe(h)`
        // (OnErrorObserver, OnCompleteObserver, ObserverItem) instead of a hand-written observer
        let u = if case.has("closure") {
          let (l1, l2, l3) = (log.clone(), log.clone(), log.clone());
          // field `epanic`: the subscriber's error handler FAILS (panics) after it has been told; the emitting call is
          // wrapped in catch_unwind below — the error is that subscriber's terminal all the same
          let epanic = case.has("epanic");
          BoxSubscription::new(
            pipeline
              .clone()
              .on_error(move |e| {
                l1.borrow_mut().push(Notif::Error(e));
                if epanic {
                  panic!("the subscriber's error handler fails")
                }
              })
              .on_complete(move || l2.borrow_mut().push(Notif::Complete))
              .subscribe(move |v| l3.borrow_mut().push(Notif::Next(v))),
          )
        } else {
          pipeline.clone().actual_subscribe(Probe(log.clone(), if case.has("fb") { Some(ctx.subject(0)) } else { None }))
        };
        sub = Some(u);
        let sfx = suffix(case, &exec);
        out.emit(k, drain(&log) + &sfx);
      }
      "emit" => {
        let mut s = ctx.subject(ev[1].nat());
        let n = Notif::parse(&ev[2]);
        let go = move || match n {
          Notif::Next(v) => s.next(v),
          Notif::Error(e) => s.error(e),
          Notif::Complete => s.complete(),
        };
        if case.has("epanic") {
          let _ = std::panic::catch_unwind(std::panic::AssertUnwindSafe(go));
        } else {
          go()
        }
        let sfx = suffix(case, &exec);
        out.emit(k, drain(&log) + &sfx);
      }
      "unsub" => {
        if let Some(u) = sub.take() {
          u.unsubscribe();
        }
        let sfx = suffix(case, &exec);
        out.emit(k, drain(&log) + &sfx);
      }
      "q" => match ev[1].atom() {
        "closed" => {
          let c = sub.as_ref().map_or(true, |u| u.is_closed());
          if locktrace::is_on() {
            // the acquisitions of the query itself belong to no event's lock trace
            let _ = locktrace::take();
          }
          out.emit(k, format!("closed={}", c as u8));
        }
        "pulls" => out.emit(k, format!("pulls={}", ctx.counters.borrow().pulls)),
        "tap" => {
          let c = ctx.counters.borrow().tap.clone();
          out.emit(k, format!("tap={:?}", c).replace(' ', ""));
        }
        "timers" => out.emit(k, format!("timers={:?}", vtime::requested()).replace(' ', "")),
        q => panic!("unknown query {}", q),
      },
      _ if time_event(ev, &exec) => {
        let sfx = suffix(case, &exec);
        out.emit(k, drain(&log) + &sfx);
      }
      e => panic!("unknown event {}", e),
    }
  }
}

fn run_threads(case: &Case, out: &mut Out) {
  vtime::install();
  vtime::reset();
  vtime::set_real(case.has("realtimer"));
  // field `unit us`: one virtual tick is a microsecond (default: a millisecond)
  vtime::set_unit_nanos(if case.has("unit") && case.field("unit")[0].atom() == "us" { 1_000 } else { 1_000_000 });
  let ctx = TCtx::default();
  if case.has("mono") {
    ctx.mono.store(case.field("mono")[0].nat() as u8, std::sync::atomic::Ordering::SeqCst);
  }
  let exec = Exec::new(Queue::Shared(ctx.sched.clone()));
  if case.has("locktrace") {
    locktrace::start();
  } else {
    locktrace::stop();
  }
  let log = Arc::new(Mutex::new(Vec::<Notif>::new()));
  let pipe_expr: &SExp = &case.field("pipe")[0];
  let pipeline = build_threads(pipe_expr, &ctx);
  // (behind a mutex so that event `rq` can ask it from another thread)
  let sub: Arc<Mutex<Option<BoxSubscriptionThreads>>> = Arc::new(Mutex::new(None));
  let two = case.has("twosubs");
  let log2 = Arc::new(Mutex::new(Vec::<Notif>::new()));
  let mut sub2: Option<BoxSubscriptionThreads> = None;
  let drain = |log: &Arc<Mutex<Vec<Notif>>>| {
    let a = fmt_log(std::mem::take(&mut *log.lock().unwrap()));
    if two {
      a + " " + &fmt_log(std::mem::take(&mut *log2.lock().unwrap())).replacen("o=", "o2=", 1)
    } else {
      a
    }
  };
  for (k, ev) in case.events.iter().enumerate() {
    out.cur = k;
    match ev[0].atom() {
      "sub2" => {
        sub2 = Some(pipeline.clone().actual_subscribe(ProbeT(log2.clone(), None)));
        let sfx = suffix(case, &exec);
        out.emit(k, drain(&log) + &sfx);
      }
      "unsub2" => {
        if let Some(u) = sub2.take() {
          u.unsubscribe();
        }
        let sfx = suffix(case, &exec);
        out.emit(k, drain(&log) + &sfx);
      }
      "sub" => {
        let u = if case.has("closure") {
          let (l1, l2, l3) = (log.clone(), log.clone(), log.clone());
          BoxSubscriptionThreads::new(
            pipeline
              .clone()
              .on_error(move |e| l1.lock().unwrap().push(Notif::Error(e)))
              .on_complete(move || l2.lock().unwrap().push(Notif::Complete))
              .subscribe(move |v| l3.lock().unwrap().push(Notif::Next(v))),
          )
        } else {
          pipeline.clone().actual_subscribe(ProbeT(log.clone(), if case.has("fb") { Some(ctx.subject(0)) } else { None }))
        };
        *sub.lock().unwrap() = Some(u);
        let sfx = suffix(case, &exec);
        out.emit(k, drain(&log) + &sfx);
      }
      "emit" => {
        let mut s = ctx.subject(ev[1].nat());
        match Notif::parse(&ev[2]) {
          Notif::Next(v) => s.next(v),
          Notif::Error(e) => s.error(e),
          Notif::Complete => s.complete(),
        }
        let sfx = suffix(case, &exec);
        out.emit(k, drain(&log) + &sfx);
      }
      "temit" => {
        // the emission is made from another OS thread (joined at once): sequentially the same thing
        let mut s = ctx.subject(ev[1].nat());
        let n = Notif::parse(&ev[2]);
        let h = std::thread::spawn(move || match n {
          Notif::Next(v) => s.next(v),
          Notif::Error(e) => s.error(e),
          Notif::Complete => s.complete(),
        });
        let _ = h.join();
        let sfx = suffix(case, &exec);
        out.emit(k, drain(&log) + &sfx);
      }
      "remit" => {
        // (i, n) on this thread; while the probe is called for it, (j, m) on another thread
        let first = (ev[1].nat(), Notif::parse(&ev[2]));
        let second = (ev[3].nat(), Notif::parse(&ev[4]));
        let s2 = ctx.subject(second.0);
        let n2 = second.1.clone();
        let started = Arc::new(std::sync::atomic::AtomicBool::new(false));
        let slot: Arc<Mutex<Option<std::thread::JoinHandle<()>>>> = Arc::new(Mutex::new(None));
        let (st2, slot2) = (started.clone(), slot.clone());
        *RACE.lock().unwrap() = Some(Box::new(move || {
          let st3 = st2.clone();
          let h = std::thread::spawn(move || {
            let mut s = s2;
            st3.store(true, std::sync::atomic::Ordering::SeqCst);
            match n2 {
              Notif::Next(v) => s.next(v),
              Notif::Error(e) => s.error(e),
              Notif::Complete => s.complete(),
            }
          });
          while !st2.load(std::sync::atomic::Ordering::SeqCst) {
            std::thread::yield_now();
          }
          // the other thread is now inside (or blocked at the door of) the operator: give it time to get through if the
          // door is open
          std::thread::sleep(std::time::Duration::from_millis(40));
          *slot2.lock().unwrap() = Some(h);
        }));
        {
          let mut s = ctx.subject(first.0);
          match first.1 {
            Notif::Next(v) => s.next(v),
            Notif::Error(e) => s.error(e),
            Notif::Complete => s.complete(),
          }
        }
        let unused = RACE.lock().unwrap().take();
        if unused.is_some() {
          // the probe was not called during the first emission: the second one follows on this thread
          let mut s = ctx.subject(second.0);
          match second.1 {
            Notif::Next(v) => s.next(v),
            Notif::Error(e) => s.error(e),
            Notif::Complete => s.complete(),
          }
        } else if let Some(h) = slot.lock().unwrap().take() {
          let _ = h.join();
        }
        let sfx = suffix(case, &exec);
        out.emit(k, drain(&log) + &sfx);
      }
      "unsub" => {
        let u = sub.lock().unwrap().take();
        if let Some(u) = u {
          u.unsubscribe();
        }
        let sfx = suffix(case, &exec);
        out.emit(k, drain(&log) + &sfx);
      }
      "ru" => {
        // the event ev[1..] on this thread; while the probe is called during it, ANOTHER thread calls unsubscribe() on the
        // subscription (it waits for the cells the delivering thread holds; once it has returned nothing may follow)
        let started = Arc::new(std::sync::atomic::AtomicBool::new(false));
        let slot: Arc<Mutex<Option<std::thread::JoinHandle<()>>>> = Arc::new(Mutex::new(None));
        let (st2, slot2, sub2c) = (started.clone(), slot.clone(), sub.clone());
        *RACE.lock().unwrap() = Some(Box::new(move || {
          let st3 = st2.clone();
          let h = std::thread::spawn(move || {
            st3.store(true, std::sync::atomic::Ordering::SeqCst);
            let u = sub2c.lock().unwrap().take();
            if let Some(u) = u {
              u.unsubscribe();
            }
          });
          while !st2.load(std::sync::atomic::Ordering::SeqCst) {
            std::thread::yield_now();
          }
          std::thread::sleep(std::time::Duration::from_millis(40));
          *slot2.lock().unwrap() = Some(h);
        }));
        let inner = &ev[1..];
        if inner[0].atom() == "emit" {
          let mut s = ctx.subject(inner[1].nat());
          match Notif::parse(&inner[2]) {
            Notif::Next(v) => s.next(v),
            Notif::Error(e) => s.error(e),
            Notif::Complete => s.complete(),
          }
        } else if !time_event(inner, &exec) {
          panic!("ru: unknown inner event");
        }
        let unused = RACE.lock().unwrap().take();
        if unused.is_some() {
          // the probe was not called during the event: the unsubscription follows on this thread
          let u = sub.lock().unwrap().take();
          if let Some(u) = u {
            u.unsubscribe();
          }
        } else if let Some(h) = slot.lock().unwrap().take() {
          let _ = h.join();
        }
        let sfx = suffix(case, &exec);
        out.emit(k, drain(&log) + &sfx);
      }
      "rq" => {
        // the event ev[1..] (an emission or a scheduler event) on this thread; while the probe is called during it, ANOTHER
        // thread asks the subscription is_closed().  (If that query has to wait for a cell the delivering thread holds, it is
        // answered after the event; both answers are legal, `closed` followed by a delivery is not.)
        let started = Arc::new(std::sync::atomic::AtomicBool::new(false));
        let slot: Arc<Mutex<Option<std::thread::JoinHandle<()>>>> = Arc::new(Mutex::new(None));
        let answer: Arc<Mutex<Option<bool>>> = Arc::new(Mutex::new(None));
        let (st2, slot2, ans2, sub2c) = (started.clone(), slot.clone(), answer.clone(), sub.clone());
        *RACE.lock().unwrap() = Some(Box::new(move || {
          let st3 = st2.clone();
          let h = std::thread::spawn(move || {
            st3.store(true, std::sync::atomic::Ordering::SeqCst);
            let c = sub2c.lock().unwrap().as_ref().map_or(true, |u| u.is_closed());
            *ans2.lock().unwrap() = Some(c);
          });
          while !st2.load(std::sync::atomic::Ordering::SeqCst) {
            std::thread::yield_now();
          }
          std::thread::sleep(std::time::Duration::from_millis(40));
          *slot2.lock().unwrap() = Some(h);
        }));
        let inner = &ev[1..];
        if inner[0].atom() == "emit" {
          let mut s = ctx.subject(inner[1].nat());
          match Notif::parse(&inner[2]) {
            Notif::Next(v) => s.next(v),
            Notif::Error(e) => s.error(e),
            Notif::Complete => s.complete(),
          }
        } else if !time_event(inner, &exec) {
          panic!("rq: unknown inner event");
        }
        let _unused = RACE.lock().unwrap().take();
        if let Some(h) = slot.lock().unwrap().take() {
          let _ = h.join();
        }
        let r = match *answer.lock().unwrap() {
          Some(c) => format!(" rclosed={}", c as u8),
          None => " rclosed=-".to_string(),
        };
        let sfx = suffix(case, &exec);
        out.emit(k, drain(&log) + &sfx + &r);
      }
      "q" => match ev[1].atom() {
        "closed" => {
          let c = sub.lock().unwrap().as_ref().map_or(true, |u| u.is_closed());
          if locktrace::is_on() {
            // the acquisitions of the query itself belong to no event's lock trace
            let _ = locktrace::take();
          }
          out.emit(k, format!("closed={}", c as u8));
        }
        "pulls" => out.emit(k, format!("pulls={}", ctx.counters.lock().unwrap().pulls)),
        "tap" => {
          let c = ctx.counters.lock().unwrap().tap.clone();
          out.emit(k, format!("tap={:?}", c).replace(' ', ""));
        }
        "timers" => out.emit(k, format!("timers={:?}", vtime::requested()).replace(' ', "")),
        q => panic!("unknown query {}", q),
      },
      _ if time_event(ev, &exec) => {
        let sfx = suffix(case, &exec);
        out.emit(k, drain(&log) + &sfx);
      }
      e => panic!("unknown event {}", e),
    }
  }
}
