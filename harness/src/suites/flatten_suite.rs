//! Suite `flatten`: one operator of the merge_all family over a hot outer
//! stream (a real `Subject`) of inner observables.
//!
//!   limit  n | inf | concat | flatten     merge_all(n) | merge_all(usize::MAX) | concat_all() | flatten()
//!   via    mergeall | flatmap | concatmap (optional) flat_map / concat_map over a Subject of items
//!                                         `(o k)`, the closure maps item k to the k-th inner
//!   inners (cold (1 2) c) (cold () (e 3)) (cold (5) -) (hot 0) ...
//!   ev outer (o k) | outer c | outer (e 3) | inner j (n 5) | inner j c | inner j (e 4) | unsub
//!
//! Inner observables are `CloneableBoxOp` / `CloneableBoxOpThreads` (a `Subject`
//! needs `Item: Clone`): cold + complete = `from_iter`, cold + error/none =
//! `create`, hot j = `Subject` number j of the case.
//!
//! Per event: `o=N1;N2;C` (what the probe received during the event).  A panic
//! (local flavour: `RefCell already borrowed`) is printed as `PANIC` by main.rs.
//! The threads flavour runs in a helper thread: a re-lock of a std `Mutex` by
//! its holder blocks that thread forever; the suite sees it sleeping
//! (/proc/thread state `S`, no message) and prints `RELOCK`, leaking the thread.
use std::cell::RefCell;
use std::convert::Infallible;
use std::rc::Rc;
use std::sync::mpsc;
use std::sync::{Arc, Mutex};
use std::time::{Duration, Instant};

use rxrust::observer::{BoxObserver, BoxObserverThreads};
use rxrust::ops::box_it::BoxIt;
use rxrust::prelude::*;

use crate::pipe::{LBox, LCtx, TBox, TCtx};
use crate::sexp::SExp;
use crate::val::{Notif, Val};
use crate::{Case, Out};

fn widen(e: Infallible) -> i64 {
  match e {}
}

struct Probe(Rc<RefCell<Vec<Notif>>>);
impl Observer<Val, i64> for Probe {
  fn next(&mut self, v: Val) {
    self.0.borrow_mut().push(Notif::Next(v));
  }
  fn error(self, e: i64) {
    self.0.borrow_mut().push(Notif::Error(e));
  }
  fn complete(self) {
    self.0.borrow_mut().push(Notif::Complete);
  }
  fn is_finished(&self) -> bool {
    false
  }
}

/// event `rinner`: something to do on ANOTHER thread while the probe is inside a delivery (taken by the first call)
static RACE: Mutex<Option<Box<dyn FnOnce() + Send>>> = Mutex::new(None);

struct ProbeT(Arc<Mutex<Vec<Notif>>>);
impl Observer<Val, i64> for ProbeT {
  fn next(&mut self, v: Val) {
    self.0.lock().unwrap().push(Notif::Next(v));
    let h = RACE.lock().unwrap().take();
    if let Some(h) = h {
      h()
    }
  }
  fn error(self, e: i64) {
    self.0.lock().unwrap().push(Notif::Error(e));
  }
  fn complete(self) {
    self.0.lock().unwrap().push(Notif::Complete);
  }
  fn is_finished(&self) -> bool {
    false
  }
}

fn fmt_log(log: Vec<Notif>) -> String {
  let parts: Vec<String> = log.iter().map(|n| n.to_string()).collect();
  format!("o={}", parts.join(";"))
}

/// A value of the case's own thread kept where the thread-safe flavour wants `Send` (inside an inner observable): the
/// kick of `kickhot` runs on the thread that drives the case.
#[derive(Clone)]
struct Kept<T>(T);
unsafe impl<T> Send for Kept<T> {}
unsafe impl<T> Sync for Kept<T> {}
impl<T: Clone> Kept<T> {
  fn get(&self) -> T {
    self.0.clone()
  }
}

#[derive(Clone)]
enum Fin {
  Open,
  Complete,
  Error(i64),
}

#[derive(Clone)]
enum InnerSpec {
  Cold(Vec<Val>, Fin),
  Hot(usize),
  /// `(kickhot j h)`: when it is subscribed it FIRST pushes inner observable j into the outer stream (from inside its own
  /// subscription: the operator is in the middle of starting it), then it is hot subject h (no model: oracle only)
  KickHot(usize, usize),
}

fn parse_inner(e: &SExp) -> InnerSpec {
  let xs = e.list();
  match xs[0].atom() {
    "cold" => {
      let items: Vec<Val> = xs[1].list().iter().map(Val::parse).collect();
      let fin = match xs.get(2) {
        None => Fin::Open,
        Some(SExp::Atom(a)) if a == "c" => Fin::Complete,
        Some(SExp::Atom(_)) => Fin::Open,
        Some(SExp::List(l)) => Fin::Error(l[1].int()),
      };
      InnerSpec::Cold(items, fin)
    }
    "hot" => InnerSpec::Hot(xs[1].nat()),
    "kickhot" => InnerSpec::KickHot(xs[1].nat(), xs[2].nat()),
    h => panic!("unknown inner {}", h),
  }
}

enum Limit {
  N(usize),
  Inf,
  Concat,
  Flatten,
}

fn parse_limit(case: &Case, via: &str) -> Limit {
  if !case.has("limit") {
    return if via == "concatmap" { Limit::Concat } else { Limit::Inf };
  }
  match case.field("limit")[0].atom() {
    "inf" => Limit::Inf,
    "concat" => Limit::Concat,
    "flatten" => Limit::Flatten,
    n => Limit::N(n.parse().unwrap()),
  }
}

fn via_of(case: &Case) -> String {
  if case.has("via") {
    case.field("via")[0].atom().to_string()
  } else {
    "mergeall".to_string()
  }
}

fn obs_index(v: &Val) -> usize {
  match v {
    Val::Obs(k) => *k,
    v => panic!("outer item {} is not an inner observable", v),
  }
}

/// `(o k)` is the item "k-th inner observable"; `c` / `(e x)` terminals.
fn parse_outer(e: &SExp) -> Notif {
  match e {
    SExp::List(xs) if xs[0].atom() == "o" => Notif::Next(Val::parse(e)),
    _ => Notif::parse(e),
  }
}

macro_rules! impl_flatten {
  ($run:ident, $build_inner:ident, $ctx:ty, $bx:ty, $subject:ident, $subscriber:ident,
   $box_observer:ident, $box_sub:ty, $probe:ident, $log_ty:ty, $new_log:expr, $drain:expr,
   $merge_all:ident, $concat_all:ident, $flatten:ident, $flat_map:ident, $concat_map:ident) => {
    fn $build_inner(
      spec: &InnerSpec,
      ctx: &$ctx,
      outer: &Rc<dyn Fn($bx)>,
      table: &Arc<Mutex<Vec<Option<Kept<$bx>>>>>,
    ) -> $bx {
      match spec {
        InnerSpec::KickHot(j, h) => {
          let (outer, table, j, hot) = (Kept(outer.clone()), table.clone(), *j, Kept(ctx.subject(*h)));
          observable::defer(move || {
            let inner = table.lock().unwrap()[j].as_ref().map(|k| k.get());
            if let Some(inner) = inner {
              (outer.get())(inner);
            }
            hot.get()
          })
          .box_it()
        }
        InnerSpec::Cold(items, Fin::Complete) => {
          observable::from_iter(items.clone()).on_error_map(widen).box_it()
        }
        InnerSpec::Cold(items, fin) => {
          let items = items.clone();
          let fin = fin.clone();
          observable::create(move |mut s: $subscriber<$box_observer<Val, i64>>| {
            for v in items.iter() {
              s.next(v.clone());
            }
            match fin {
              Fin::Open => {}
              Fin::Complete => s.complete(),
              Fin::Error(e) => s.error(e),
            }
          })
          .box_it()
        }
        InnerSpec::Hot(j) => ctx.subject(*j).box_it(),
      }
    }

    /// Runs the whole case, handing each finished event's line to `emit`.
    fn $run(case: &Case, emit: &mut dyn FnMut(usize, String)) {
      let ctx = <$ctx>::default();
      let log: $log_ty = $new_log;
      let via = via_of(case);
      let limit = parse_limit(case, &via);
      // the outer stream: a Subject of inner observables, or (flat_map / concat_map) of items
      let mut outer_obs: $subject<$bx, i64> = <$subject<$bx, i64>>::default();
      let table: Arc<Mutex<Vec<Option<Kept<$bx>>>>> = Arc::new(Mutex::new(vec![]));
      let kick: Rc<dyn Fn($bx)> = {
        let o = outer_obs.clone();
        Rc::new(move |x| o.clone().next(x))
      };
      let inners: Vec<$bx> = case
        .field("inners")
        .iter()
        .map(|e| $build_inner(&parse_inner(e), &ctx, &kick, &table))
        .collect();
      *table.lock().unwrap() = inners.iter().map(|i| Some(Kept(i.clone()))).collect();
      let mut outer_val: $subject<Val, i64> = <$subject<Val, i64>>::default();
      let by_val = via != "mergeall";
      let sub: $box_sub = match (via.as_str(), &limit) {
        // field `outer0 k`: the outer stream hands out inner k SYNCHRONOUSLY while it is being subscribed, then it is the hot
        // subject (`subject.start_with(vec![inner k])`): the operator's own bookkeeping of the outer subscription must not
        // depend on who registers first (no model: oracle only)
        ("mergeall", Limit::N(n)) if case.has("outer0") => <$box_sub>::new(
          outer_obs
            .clone()
            .start_with(vec![inners[case.field("outer0")[0].nat()].clone()])
            .$merge_all(*n)
            .actual_subscribe($probe(log.clone())),
        ),
        ("mergeall", Limit::Inf) if case.has("outer0") => <$box_sub>::new(
          outer_obs
            .clone()
            .start_with(vec![inners[case.field("outer0")[0].nat()].clone()])
            .$merge_all(usize::MAX)
            .actual_subscribe($probe(log.clone())),
        ),
        ("mergeall", Limit::N(n)) => {
          <$box_sub>::new(outer_obs.clone().$merge_all(*n).actual_subscribe($probe(log.clone())))
        }
        ("mergeall", Limit::Inf) => <$box_sub>::new(
          outer_obs.clone().$merge_all(usize::MAX).actual_subscribe($probe(log.clone())),
        ),
        ("mergeall", Limit::Concat) => {
          <$box_sub>::new(outer_obs.clone().$concat_all().actual_subscribe($probe(log.clone())))
        }
        ("mergeall", Limit::Flatten) => {
          <$box_sub>::new(outer_obs.clone().$flatten().actual_subscribe($probe(log.clone())))
        }
        ("flatmap", _) => {
          let table = inners.clone();
          <$box_sub>::new(
            outer_val
              .clone()
              .$flat_map(move |v: Val| table[obs_index(&v)].clone())
              .actual_subscribe($probe(log.clone())),
          )
        }
        ("concatmap", _) => {
          let table = inners.clone();
          <$box_sub>::new(
            outer_val
              .clone()
              .$concat_map(move |v: Val| table[obs_index(&v)].clone())
              .actual_subscribe($probe(log.clone())),
          )
        }
        (v, _) => panic!("unknown via {}", v),
      };
      let mut sub = Some(sub);
      let drain = $drain;
      if case.has("outer0") {
        // what the synchronously handed-out inner delivered during the subscription itself belongs to no event
        let _ = drain(&log);
      }
      for (k, ev) in case.events.iter().enumerate() {
        match ev[0].atom() {
          "outer" => match parse_outer(&ev[1]) {
            Notif::Next(v) => {
              if by_val {
                outer_val.next(v)
              } else {
                outer_obs.next(inners[obs_index(&v)].clone())
              }
            }
            Notif::Error(e) => {
              if by_val {
                outer_val.clone().error(e)
              } else {
                outer_obs.clone().error(e)
              }
            }
            Notif::Complete => {
              if by_val {
                outer_val.clone().complete()
              } else {
                outer_obs.clone().complete()
              }
            }
          },
          "inner" => {
            let mut s = ctx.subject(ev[1].nat());
            match Notif::parse(&ev[2]) {
              Notif::Next(v) => s.next(v),
              Notif::Error(e) => s.error(e),
              Notif::Complete => s.complete(),
            }
          }
          "rinner" => {
            // inner ev[1] emits ev[2] on this thread; while the probe is called for it, inner ev[3] emits ev[4] on another
            // thread (thread-safe flavour; the local one never gets this event)
            let first = (ev[1].nat(), Notif::parse(&ev[2]));
            let second = (ev[3].nat(), Notif::parse(&ev[4]));
            let s2 = Kept(ctx.subject(second.0));
            let n2 = second.1.clone();
            let started = Arc::new(std::sync::atomic::AtomicBool::new(false));
            let slot: Arc<Mutex<Option<std::thread::JoinHandle<()>>>> = Arc::new(Mutex::new(None));
            let (st2, slot2) = (started.clone(), slot.clone());
            *RACE.lock().unwrap() = Some(Box::new(move || {
              let st3 = st2.clone();
              let h = std::thread::spawn(move || {
                let mut s = s2.get();
                st3.store(true, std::sync::atomic::Ordering::SeqCst);
                match n2 {
                  Notif::Next(v) => s.next(v),
                  Notif::Error(e) => s.error(e),
                  Notif::Complete => s.complete(),
                }
              });
              while !st2.load(std::sync::atomic::Ordering::SeqCst) {
                std::thread::yield_now();
              }
              std::thread::sleep(Duration::from_millis(40));
              *slot2.lock().unwrap() = Some(h);
            }));
            {
              let mut s = ctx.subject(first.0);
              match first.1 {
                Notif::Next(v) => s.next(v),
                Notif::Error(e) => s.error(e),
                Notif::Complete => s.complete(),
              }
            }
            let unused = RACE.lock().unwrap().take();
            if unused.is_some() {
              let mut s = ctx.subject(second.0);
              match second.1 {
                Notif::Next(v) => s.next(v),
                Notif::Error(e) => s.error(e),
                Notif::Complete => s.complete(),
              }
            } else if let Some(h) = slot.lock().unwrap().take() {
              let _ = h.join();
            }
          }
          "unsub" => {
            if let Some(u) = sub.take() {
              u.unsubscribe();
            }
          }
          e => panic!("unknown event {}", e),
        }
        // field `qclosed`: is_closed() of the merged subscription, sampled after every event (C17)
        let sfx = if case.has("qclosed") {
          format!(" closed={}", sub.as_ref().map_or(true, |u| u.is_closed()) as u8)
        } else {
          String::new()
        };
        emit(k, fmt_log(drain(&log)) + &sfx);
      }
    }
  };
}

impl_flatten!(
  run_local_case,
  build_inner_local,
  LCtx,
  LBox,
  Subject,
  Subscriber,
  BoxObserver,
  BoxSubscription<'static>,
  Probe,
  Rc<RefCell<Vec<Notif>>>,
  Rc::new(RefCell::new(Vec::<Notif>::new())),
  |log: &Rc<RefCell<Vec<Notif>>>| std::mem::take(&mut *log.borrow_mut()),
  merge_all,
  concat_all,
  flatten,
  flat_map,
  concat_map
);

impl_flatten!(
  run_threads_case,
  build_inner_threads,
  TCtx,
  TBox,
  SubjectThreads,
  SubscriberThreads,
  BoxObserverThreads,
  BoxSubscriptionThreads,
  ProbeT,
  Arc<Mutex<Vec<Notif>>>,
  Arc::new(Mutex::new(Vec::<Notif>::new())),
  |log: &Arc<Mutex<Vec<Notif>>>| std::mem::take(&mut *log.lock().unwrap()),
  merge_all_threads,
  concat_all_threads,
  flatten_threads,
  flat_map_threads,
  concat_map_threads
);

pub fn run(case: &Case, out: &mut Out) {
  if case.flavor == "threads" {
    run_threads_guarded(case, out)
  } else {
    run_local_case(case, &mut |k, body| {
      out.emit(k, body);
      out.cur = k + 1;
    });
  }
}

enum Msg {
  Tid(Option<String>),
  Line(usize, String),
  Done,
  Panic,
}

/// State letter of a thread of this process (`R` running, `S` sleeping, ...).
fn thread_state(task: &str) -> Option<char> {
  let stat = std::fs::read_to_string(format!("/proc/{}/stat", task)).ok()?;
  let i = stat.rfind(')')?;
  stat[i + 1..].trim_start().chars().next()
}

/// The thread-safe flavour in a helper thread.  The helper never sleeps except
/// when it blocks on a mutex it already holds (nothing else in the case is
/// shared with another thread), so "sleeping and silent on two consecutive
/// polls" is the deadlock; where /proc is unavailable, 2 s of silence is.
fn run_threads_guarded(case: &Case, out: &mut Out) {
  let copy = Case {
    id: case.id.clone(),
    suite: case.suite.clone(),
    flavor: case.flavor.clone(),
    fields: case.fields.clone(),
    events: case.events.clone(),
  };
  let (tx, rx) = mpsc::channel::<Msg>();
  let spawned = std::thread::Builder::new().stack_size(1 << 20).spawn(move || {
    let task = std::fs::read_link("/proc/thread-self")
      .ok()
      .map(|p| p.to_string_lossy().to_string());
    let _ = tx.send(Msg::Tid(task));
    let tx2 = tx.clone();
    // field `locktrace`: record the lock-level trace of every event (hook H2) on this thread
    if copy.has("locktrace") {
      crate::locktrace::start();
    }
    let r = std::panic::catch_unwind(std::panic::AssertUnwindSafe(|| {
      run_threads_case(&copy, &mut |k, body| {
        let body = if crate::locktrace::is_on() {
          format!("{} L={}", body, crate::locktrace::take())
        } else {
          body
        };
        let _ = tx2.send(Msg::Line(k, body));
      })
    }));
    let _ = tx.send(if r.is_ok() { Msg::Done } else { Msg::Panic });
  });
  if spawned.is_err() {
    panic!("cannot spawn helper thread");
  }
  let started = Instant::now();
  let mut last_msg = Instant::now();
  let mut task: Option<String> = None;
  let mut sleeping = 0;
  loop {
    match rx.recv_timeout(Duration::from_millis(3)) {
      Ok(Msg::Tid(t)) => {
        task = t;
        last_msg = Instant::now();
      }
      Ok(Msg::Line(k, body)) => {
        out.emit(k, body);
        out.cur = k + 1;
        sleeping = 0;
        last_msg = Instant::now();
      }
      Ok(Msg::Done) => return,
      Ok(Msg::Panic) => {
        let k = out.cur;
        out.emit(k, "PANIC".to_string());
        return;
      }
      Err(mpsc::RecvTimeoutError::Disconnected) => return,
      Err(mpsc::RecvTimeoutError::Timeout) => {
        let st = task.as_deref().and_then(thread_state);
        if st == Some('S') {
          sleeping += 1;
        } else {
          sleeping = 0;
        }
        let silent = last_msg.elapsed();
        // (a thread that is only briefly asleep — allocator or stdout contention on a loaded machine — must not
        // be taken for a self-deadlock: a re-locked mutex keeps it asleep for good, so wait for 60 consecutive
        // sleeping samples ≈ 180 ms without any message)
        if (sleeping >= 60 && silent > Duration::from_millis(150)) || (st.is_none() && silent > Duration::from_secs(2)) {
          let k = out.cur;
          out.emit(k, "RELOCK".to_string());
          return;
        }
        if silent > Duration::from_secs(20) || started.elapsed() > Duration::from_secs(60) {
          let k = out.cur;
          out.emit(k, "HANG".to_string());
          return;
        }
      }
    }
  }
}
