//! Suite `composite` (C17, composite part): short histories of
//! append / unsubscribe / is_closed on the REAL subscription types of
//! src/subscription.rs, src/subscriber.rs and the task handles of src/scheduler.rs.
//!
//! field   leaves <n>           number of leaf subscribers (default 3)
//!
//! Universe: one `Subject`(`Threads`) with `n` probes subscribed — leaf `i` is the
//! `Subscriber`(`Threads`) the subject returned (clones share the slot); two
//! composites `MultiSubscription`(`Threads`)`::default()` (cells 0 and 1, any number of
//! clones); a `VerifScheduler`(`Threads`) whose tasks log `T<tag>` when they run.
//!
//! term    u | (l i) | (m j) | (zip a b) | (box t)      every term is built as a `BoxSubscription`(`Threads`)
//!         of clones: `()`, `Subscriber`, `MultiSubscription`, `ZipSubscription<Box,Box>`, box of box
//! events  append j <term>      m_j.append(Box::new(term))                      -> ok
//!         appendtask j <tag>   m_j.append(Box::new(scheduler.schedule(task)))  -> ok
//!         unsub <term>         term.unsubscribe()                              -> ok
//!         closed <term>        term.is_closed()   ((m j): asked on every clone) -> closed=0|1|split
//!         retain j | size j | clone j                                          -> ok | size=n | handles=n
//!         guard <term>         term.unsubscribe_when_dropped() kept in a slot  -> ok
//!         dropguard k          drop the k-th guard                             -> ok
//!         unsubreapp j <term>  append to m_j a child whose unsubscribe() appends <term> to m_j, then m_j.unsubscribe() -> ok
//!         emit v               subject.next(v): every live leaf's probe logs   -> d=0:N5;2:N5
//!         run                  run the executor until idle                     -> t=T0;T1
use std::sync::{Arc, Mutex};

use rxrust::prelude::*;
use rxrust::scheduler::verif::{VerifScheduler, VerifSchedulerThreads};
use rxrust::scheduler::{NormalReturn, OnceTask};

use crate::sexp::SExp;
use crate::vtime::{self, Exec, Queue};
use crate::{Case, Out};

type Log = Arc<Mutex<Vec<String>>>;

struct Probe(usize, Log);
impl Observer<i64, i64> for Probe {
  fn next(&mut self, v: i64) {
    self.1.lock().unwrap().push(format!("{}:N{}", self.0, v));
  }
  fn error(self, e: i64) {
    self.1.lock().unwrap().push(format!("{}:E{}", self.0, e));
  }
  fn complete(self) {
    self.1.lock().unwrap().push(format!("{}:C", self.0));
  }
  fn is_finished(&self) -> bool {
    false
  }
}

fn task_body((log, tag): (Log, usize)) -> NormalReturn<()> {
  log.lock().unwrap().push(format!("T{}", tag));
  NormalReturn::new(())
}

macro_rules! impl_suite {
  ($run:ident, $world:ident, $reapp:ident, $subject:ty, $subscriber:ident, $multi:ty, $bx:ident, $bxty:ty, $sched:ty, $queue:expr) => {
    struct $reapp {
      target: $multi,
      payload: $bxty,
    }

    impl Subscription for $reapp {
      fn unsubscribe(mut self) {
        self.target.append(self.payload);
      }
      fn is_closed(&self) -> bool {
        false
      }
    }

    struct $world {
      leaves: Vec<$subscriber<Probe>>,
      multis: Vec<Vec<$multi>>,
    }

    impl $world {
      fn build(&self, t: &SExp) -> $bxty {
        match t.head() {
          "u" => $bx::new(()),
          "l" => $bx::new(self.leaves[t.list()[1].nat()].clone()),
          "m" => $bx::new(self.multis[t.list()[1].nat()][0].clone()),
          "zip" => {
            let a = self.build(&t.list()[1]);
            let b = self.build(&t.list()[2]);
            $bx::new(ZipSubscription::new(a, b))
          }
          "box" => $bx::new(self.build(&t.list()[1])),
          h => panic!("unknown term {}", h),
        }
      }
    }

    fn $run(case: &Case, out: &mut Out) {
      vtime::install();
      vtime::reset();
      let n = if case.has("leaves") { case.field("leaves")[0].nat() } else { 3 };
      let log: Log = Arc::new(Mutex::new(vec![]));
      let subject: $subject = <$subject>::default();
      let sched: $sched = <$sched>::default();
      let exec = Exec::new($queue(sched.clone()));
      let mut w = $world { leaves: vec![], multis: vec![vec![<$multi>::default()], vec![<$multi>::default()]] };
      for i in 0..n {
        w.leaves.push(subject.clone().actual_subscribe(Probe(i, log.clone())));
      }
      let mut guards: Vec<Option<SubscriptionGuard<$bxty>>> = vec![];
      let drain = |log: &Log| std::mem::take(&mut *log.lock().unwrap());
      for (k, ev) in case.events.iter().enumerate() {
        out.cur = k;
        let body = match ev[0].atom() {
          "append" => {
            let b = w.build(&ev[2]);
            let mut h = w.multis[ev[1].nat()][0].clone();
            h.append(b);
            "ok".to_string()
          }
          "appendtask" => {
            let handle = sched.schedule(OnceTask::new(task_body, (log.clone(), ev[2].nat())), None);
            let mut h = w.multis[ev[1].nat()][0].clone();
            h.append($bx::new(handle));
            "ok".to_string()
          }
          "unsub" => {
            w.build(&ev[1]).unsubscribe();
            "ok".to_string()
          }
          "unsubreapp" => {
            // a child whose own unsubscribe() appends <term> to the SAME composite (a late addition made
            // WHILE the composite is being torn down), then the composite is unsubscribed
            let j = ev[1].nat();
            let payload = w.build(&ev[2]);
            let child = $reapp { target: w.multis[j][0].clone(), payload };
            let mut h = w.multis[j][0].clone();
            h.append($bx::new(child));
            w.multis[j][0].clone().unsubscribe();
            "ok".to_string()
          }
          "closed" => {
            let t = &ev[1];
            if t.head() == "m" {
              let hs = &w.multis[t.list()[1].nat()];
              let answers: Vec<bool> = hs.iter().map(|h| h.is_closed()).collect();
              // also through a box, as an operator would hold it
              let boxed = w.build(t).is_closed();
              if answers.iter().all(|a| *a == boxed) {
                format!("closed={}", boxed as u8)
              } else {
                "closed=split".to_string()
              }
            } else {
              format!("closed={}", w.build(t).is_closed() as u8)
            }
          }
          "retain" => {
            let mut h = w.multis[ev[1].nat()][0].clone();
            h.retain();
            "ok".to_string()
          }
          "size" => format!("size={}", w.multis[ev[1].nat()][0].teardown_size()),
          "clone" => {
            let j = ev[1].nat();
            let c = w.multis[j].last().unwrap().clone();
            w.multis[j].push(c);
            format!("handles={}", w.multis[j].len())
          }
          "guard" => {
            guards.push(Some(w.build(&ev[1]).unsubscribe_when_dropped()));
            "ok".to_string()
          }
          "dropguard" => {
            if let Some(g) = guards.get_mut(ev[1].nat()) {
              drop(g.take());
            }
            "ok".to_string()
          }
          "emit" => {
            let mut s = subject.clone();
            s.next(ev[1].int());
            format!("d={}", drain(&log).join(";"))
          }
          "run" => {
            exec.run();
            format!("t={}", drain(&log).join(";"))
          }
          e => panic!("unknown event {}", e),
        };
        out.emit(k, body);
      }
    }
  };
}

impl_suite!(
  run_local,
  WorldLocal,
  ReAppLocal,
  Subject<'static, i64, i64>,
  Subscriber,
  MultiSubscription<'static>,
  BoxSubscription,
  BoxSubscription<'static>,
  VerifScheduler,
  Queue::Local
);
impl_suite!(
  run_threads,
  WorldThreads,
  ReAppThreads,
  SubjectThreads<i64, i64>,
  SubscriberThreads,
  MultiSubscriptionThreads,
  BoxSubscriptionThreads,
  BoxSubscriptionThreads,
  VerifSchedulerThreads,
  Queue::Shared
);

pub fn run(case: &Case, out: &mut Out) {
  if case.flavor == "threads" {
    run_threads(case, out)
  } else {
    run_local(case, out)
  }
}
