pub mod convert_suite;
pub mod finalize_suite;
pub mod flatten_suite;
pub mod groupby_suite;
pub mod multi_suite;
pub mod pipe_suite;
pub mod subject_suite;
pub mod share_suite;
