pub mod pipe_suite;
