//! Suite `inject` (C06 / C10, threads flavour only): one-preemption interleavings of two
//! operations on ONE real `SubjectThreads<Val, i64>`, replayed deterministically on one OS
//! thread through hook H2 (`rxrust::rc::verif::BEFORE_LOCK`).
//!
//!   ev sub | next <v> | error <e> | complete | unsuball | unsub <u> | retain | size
//!        a plain operation, run without preemption (`size` = `len()` then `is_empty()`)
//!   ev inj <k> (<opA…>) (<opB…>)
//!        opA runs with the hook installed.  The hook sees every `MutArc` acquisition of opA and
//!        counts those made while this thread holds NO `MutArc` cell (= the starts of A's
//!        top-level critical sections).  When A is about to enter its (k+1)-th such section —
//!        i.e. after k sections of A have run — opB runs completely, once (the hook is disabled
//!        while it runs: `before_lock` takes the hook out of its thread-local for the call).
//!        Both operations are sequences of critical sections, so this IS the two-thread
//!        interleaving "A's first k sections, all of B, the rest of A".
//!
//! line: `o=<u>:<notif>;…[ len=<n>][ empty=<0|1>]…[ inj=<0|1>]` — probe calls of the whole event
//! in order, answers of `size` in order, `inj=0` if A had no (k+1)-th section (B did not run).
//! A panic inside → `PANIC` for that event, the case stops (main.rs).
use std::cell::{Cell, RefCell};
use std::rc::Rc;
use std::sync::{Arc, Mutex};

use rxrust::prelude::*;
use rxrust::rc::verif::BEFORE_LOCK;
use rxrust::subscriber::SubscriberThreads;

use crate::sexp::SExp;
use crate::val::{Notif, Val};
use crate::{Case, Out};

type Log = Arc<Mutex<Vec<(usize, Notif)>>>;

struct P {
  id: usize,
  log: Log,
}
impl Observer<Val, i64> for P {
  fn next(&mut self, v: Val) {
    self.log.lock().unwrap().push((self.id, Notif::Next(v)));
  }
  fn error(self, e: i64) {
    self.log.lock().unwrap().push((self.id, Notif::Error(e)));
  }
  fn complete(self) {
    self.log.lock().unwrap().push((self.id, Notif::Complete));
  }
  fn is_finished(&self) -> bool {
    false
  }
}

#[derive(Clone, Debug)]
enum Op {
  Sub,
  Next(Val),
  Error(i64),
  Complete,
  UnsubAll,
  Unsub(usize),
  Retain,
  Size,
}

fn parse_op(ev: &[SExp]) -> Op {
  match ev[0].atom() {
    "sub" => Op::Sub,
    "next" => Op::Next(Val::parse(&ev[1])),
    "error" => Op::Error(ev[1].int()),
    "complete" => Op::Complete,
    "unsuball" => Op::UnsubAll,
    "unsub" => Op::Unsub(ev[1].nat()),
    "retain" => Op::Retain,
    "size" => Op::Size,
    e => panic!("unknown op {}", e),
  }
}

struct Ctx {
  subject: SubjectThreads<Val, i64>,
  log: Log,
  sizes: RefCell<Vec<String>>,
  handles: RefCell<Vec<Option<SubscriberThreads<P>>>>,
}

/// Never holds a `RefCell` borrow of the context while calling into the library (another
/// operation may run in the middle of this one).
fn do_op(ctx: &Ctx, op: &Op) {
  match op {
    Op::Sub => {
      let id = {
        let mut h = ctx.handles.borrow_mut();
        h.push(None);
        h.len() - 1
      };
      let h = ctx.subject.clone().actual_subscribe(P { id, log: ctx.log.clone() });
      ctx.handles.borrow_mut()[id] = Some(h);
    }
    Op::Next(v) => ctx.subject.clone().next(v.clone()),
    Op::Error(e) => ctx.subject.clone().error(*e),
    Op::Complete => ctx.subject.clone().complete(),
    Op::UnsubAll => ctx.subject.clone().unsubscribe(),
    Op::Unsub(u) => {
      let h = ctx.handles.borrow_mut().get_mut(*u).and_then(|h| h.take());
      if let Some(h) = h {
        h.unsubscribe();
      }
    }
    Op::Retain => ctx.subject.clone().retain(),
    Op::Size => {
      let n = ctx.subject.len();
      ctx.sizes.borrow_mut().push(format!(" len={}", n));
      let e = ctx.subject.is_empty();
      ctx.sizes.borrow_mut().push(format!(" empty={}", if e { 1 } else { 0 }));
    }
  }
}

/// Removes the hook when the event ends, also by a panic.
struct HookGuard;
impl Drop for HookGuard {
  fn drop(&mut self) {
    BEFORE_LOCK.with(|h| {
      if let Ok(mut h) = h.try_borrow_mut() {
        *h = None
      }
    });
  }
}

/// Run `a`; after `k` of its top-level critical sections, run `b`.  Returns whether `b` ran.
fn inject(ctx: &Rc<Ctx>, k: usize, a: &Op, b: &Op) -> bool {
  let fired = Rc::new(Cell::new(false));
  let _g = HookGuard;
  {
    let ctx2 = ctx.clone();
    let fired2 = fired.clone();
    let b = b.clone();
    // every cell A has acquired so far, with its "is it free" probe
    let mut cells: Vec<(usize, fn(usize) -> bool)> = vec![];
    let mut sections = 0usize;
    BEFORE_LOCK.with(|h| {
      *h.borrow_mut() = Some(Box::new(move |addr, probe| {
        if !probe(addr) {
          // the real code would block for ever on its own lock
          panic!("RELOCK");
        }
        // single OS thread, B is not running: a cell that is not free is held by A itself
        let holds_some = cells.iter().any(|(a, p)| !p(*a));
        if !cells.iter().any(|(a, _)| *a == addr) {
          cells.push((addr, probe));
        }
        if !holds_some {
          if sections == k && !fired2.get() {
            fired2.set(true);
            do_op(&ctx2, &b);
          }
          sections += 1;
        }
      }))
    });
  }
  do_op(ctx, a);
  fired.get()
}

pub fn run(case: &Case, out: &mut Out) {
  assert!(case.flavor == "threads", "suite inject: threads flavour only");
  BEFORE_LOCK.with(|h| *h.borrow_mut() = None);
  let ctx = Rc::new(Ctx {
    subject: SubjectThreads::default(),
    log: Arc::new(Mutex::new(vec![])),
    sizes: RefCell::new(vec![]),
    handles: RefCell::new(vec![]),
  });
  for (k, ev) in case.events.iter().enumerate() {
    out.cur = k;
    ctx.log.lock().unwrap().clear();
    ctx.sizes.borrow_mut().clear();
    let mut tail = String::new();
    if ev[0].atom() == "inj" {
      let a = parse_op(ev[2].list());
      let b = parse_op(ev[3].list());
      let ran = inject(&ctx, ev[1].nat(), &a, &b);
      tail = format!(" inj={}", if ran { 1 } else { 0 });
    } else {
      do_op(&ctx, &parse_op(ev));
    }
    let ds: Vec<String> =
      ctx.log.lock().unwrap().iter().map(|(u, n)| format!("{}:{}", u, n)).collect();
    out.emit(k, format!("o={}{}{}", ds.join(";"), ctx.sizes.borrow().concat(), tail));
  }
}
