//! Suite `convert` (C14): a hot `Subject<Val,i64>` source converted by
//! `to_future` / `to_stream` / `collect().to_future()` / `complete_status`
//! (field `kind` = future | stream | collectfuture | status).
//!
//! Events
//!   `emit 0 <notif>`  the source subject is called; prints `w=<k>` (how often the
//!                     poller's waker was woken during the event); kind status:
//!                     `o=<what the downstream probe received>`
//!   `poll`            the future / stream is polled ONCE with a FRESH counting waker (`w=` of a later `emit`
//!                     counts the wake-ups of the waker of the most recent poll only):
//!                     `poll=Pending` | `poll=Ready(Ok(5))` | `poll=Ready(SrcErr(3))`
//!                     | `poll=Ready(Err(Empty))` | `poll=Ready(Err(MultipleValues))`;
//!                     stream: `next=Pending` | `next=Some(Ok(3))` | `next=Some(Err(3))` | `next=None`
//!                     kind status: `StatusFuture` is private and `wait_for_end` blocks, so the
//!                     harness calls `wait_for_end` only when `is_closed()` (prints `poll=Ready`
//!                     once it has returned) and prints `poll=Pending` otherwise — the very test
//!                     `StatusFuture::poll` makes.
//!   `q status`        `closed=<0|1> completed=<0|1> error=<0|1>` (kind status; `na` otherwise)
//!   `drop`            the future / stream under test is dropped (its receiver goes away while the
//!                     observer still sits in the source subject): `dropped`; later `poll`s print
//!                     `na`.  Kind status: nothing to drop (the harness keeps the `Arc<CompleteStatus>`).
//!
//! kind `statustake`: `<src>.complete_status()` then a *cutter* that can finish the
//! downstream before the source terminates, then the probe.
//!   field `src (hot)`      hot `Subject` (subscribed at case start, driven by `emit`)
//!         `src (create)`   `observable::create`, whose closure hands the `Subscriber` it is
//!                          given to the harness: `emit` calls it directly (a producer with no
//!                          `is_finished` filter in front of the status observer)
//!         `src (iter k)`   `observable::from_iter(1..=k)`, subscribed (and run) by event `sub`
//!   field `cutter (take n)` | `(first)` | `(takewhile <pred>)` | `(takewhilei <pred>)` | `(id)`
//!   events `emit 0 <notif>` / `sub` -> `o=<what the probe received>`; `poll`, `q status` as for
//!   kind status.  `emit` on an `iter` source and `sub` on the others do nothing (`o=`).
//! kind `statuswait` takes the same `src` / `cutter` fields plus `pre <notif>..` (delivered
//! before the waiter parks, e.g. the items that let `take` finish); with `src (iter k)` the
//! `term` event subscribes (the terminal is the iterator's own completion).
use std::cell::RefCell;
use std::convert::Infallible;
use std::future::Future;
use std::pin::Pin;
use std::rc::Rc;
use std::sync::atomic::{AtomicUsize, Ordering};
use std::sync::{Arc, Mutex};
use std::task::{Context, Poll};

use futures::task::{waker, ArcWake};
use futures::Stream;
use rxrust::ops::complete_status::CompleteStatus;
use rxrust::ops::future::ObservableError;
use rxrust::prelude::*;

use crate::val::{pred, Notif, Val};
use crate::{Case, Out};

struct CountWaker(AtomicUsize);
impl ArcWake for CountWaker {
  fn wake_by_ref(a: &Arc<Self>) {
    a.0.fetch_add(1, Ordering::SeqCst);
  }
}

struct Probe(Rc<RefCell<Vec<Notif>>>);
impl Observer<Val, i64> for Probe {
  fn next(&mut self, v: Val) {
    self.0.borrow_mut().push(Notif::Next(v));
  }
  fn error(self, e: i64) {
    self.0.borrow_mut().push(Notif::Error(e));
  }
  fn complete(self) {
    self.0.borrow_mut().push(Notif::Complete);
  }
  fn is_finished(&self) -> bool {
    false
  }
}

struct ProbeT(Arc<Mutex<Vec<Notif>>>);
impl Observer<Val, i64> for ProbeT {
  fn next(&mut self, v: Val) {
    self.0.lock().unwrap().push(Notif::Next(v));
  }
  fn error(self, e: i64) {
    self.0.lock().unwrap().push(Notif::Error(e));
  }
  fn complete(self) {
    self.0.lock().unwrap().push(Notif::Complete);
  }
  fn is_finished(&self) -> bool {
    false
  }
}

/// probes below an infallible source (`from_iter`)
struct ProbeI(Rc<RefCell<Vec<Notif>>>);
impl Observer<Val, Infallible> for ProbeI {
  fn next(&mut self, v: Val) {
    self.0.borrow_mut().push(Notif::Next(v));
  }
  fn error(self, e: Infallible) {
    match e {}
  }
  fn complete(self) {
    self.0.borrow_mut().push(Notif::Complete);
  }
  fn is_finished(&self) -> bool {
    false
  }
}

struct ProbeTI(Arc<Mutex<Vec<Notif>>>);
impl Observer<Val, Infallible> for ProbeTI {
  fn next(&mut self, v: Val) {
    self.0.lock().unwrap().push(Notif::Next(v));
  }
  fn error(self, e: Infallible) {
    match e {}
  }
  fn complete(self) {
    self.0.lock().unwrap().push(Notif::Complete);
  }
  fn is_finished(&self) -> bool {
    false
  }
}

type FutOut<T> = Result<Result<T, i64>, ObservableError>;

fn show_fut<T>(p: Poll<FutOut<T>>, show: impl Fn(T) -> String) -> String {
  match p {
    Poll::Pending => "poll=Pending".to_string(),
    Poll::Ready(Ok(Ok(v))) => format!("poll=Ready(Ok({}))", show(v)),
    Poll::Ready(Ok(Err(e))) => format!("poll=Ready(SrcErr({}))", e),
    Poll::Ready(Err(ObservableError::Empty)) => "poll=Ready(Err(Empty))".to_string(),
    Poll::Ready(Err(ObservableError::MultipleValues)) => {
      "poll=Ready(Err(MultipleValues))".to_string()
    }
  }
}

fn show_next(p: Poll<Option<Result<Val, i64>>>) -> String {
  match p {
    Poll::Pending => "next=Pending".to_string(),
    Poll::Ready(None) => "next=None".to_string(),
    Poll::Ready(Some(Ok(v))) => format!("next=Some(Ok({}))", v),
    Poll::Ready(Some(Err(e))) => format!("next=Some(Err({}))", e),
  }
}

fn fmt_log(log: Vec<Notif>) -> String {
  let parts: Vec<String> = log.iter().map(|n| n.to_string()).collect();
  format!("o={}", parts.join(";"))
}

enum Conv {
  Future(Pin<Box<dyn Future<Output = FutOut<Val>>>>),
  CollectFuture(Pin<Box<dyn Future<Output = FutOut<Vec<Val>>>>>),
  Stream(Pin<Box<dyn Stream<Item = Result<Val, i64>>>>),
  Status(Arc<CompleteStatus>),
  /// event `drop` has consumed the future / stream
  Dropped,
}

/// kind `statusrace`: `CompleteStatus::wait_for_end` in a helper thread whose
/// hook H3 (between the flag check and the waker registration of
/// `StatusFuture::poll`) runs the producer's terminal — the interleaving of
/// RxModel/Props/C14T.lean, replayed deterministically on the real code.
fn run_status_race(case: &Case, out: &mut Out) {
  use rxrust::ops::complete_status::verif::AFTER_CHECK;
  use std::sync::mpsc;
  use std::time::Duration;
  for (k, ev) in case.events.iter().enumerate() {
    out.cur = k;
    let term = Notif::parse(&ev[1]);
    let subject: SubjectThreads<Val, i64> = SubjectThreads::default();
    let tlog = Arc::new(Mutex::new(Vec::<Notif>::new()));
    let (op, status) = subject.clone().complete_status();
    let _ = op.actual_subscribe(ProbeT(tlog.clone()));
    let (tx, rx) = mpsc::channel::<()>();
    std::thread::spawn(move || {
      let producer = subject.clone();
      AFTER_CHECK.with(|c| {
        *c.borrow_mut() = Some(Box::new(move || match term {
          Notif::Error(e) => producer.error(e),
          _ => producer.complete(),
        }))
      });
      CompleteStatus::wait_for_end(status);
      let _ = tx.send(());
    });
    match rx.recv_timeout(Duration::from_millis(2500)) {
      Ok(()) => out.emit(k, "wait=returned".to_string()),
      Err(_) => out.emit(k, "wait=HANG".to_string()),
    }
  }
}

/// kind `statuswait`: the waiter is ALREADY parked in `wait_for_end` (it has checked
/// the flag, registered its waker and gone to sleep) when the producer terminates
/// from another thread: the terminal must wake it.  The hook H3 only reports that
/// the first flag check has happened; if the waiter were slower than the grace
/// period it would see the flag itself and return — the verdict can only err
/// towards `returned`.
fn run_status_wait(case: &Case, out: &mut Out) {
  use rxrust::ops::complete_status::verif::AFTER_CHECK;
  use std::sync::mpsc;
  use std::time::Duration;
  for (k, ev) in case.events.iter().enumerate() {
    out.cur = k;
    let term = Notif::parse(&ev[1]);
    let subject: SubjectThreads<Val, i64> = SubjectThreads::default();
    let tlog = Arc::new(Mutex::new(Vec::<Notif>::new()));
    let (op, status) = subject.clone().complete_status();
    let _ = op.actual_subscribe(ProbeT(tlog.clone()));
    // the queries of the status, asked by THIS thread while the waiter is parked (source still running) and after the end
    let watch = status.clone();
    let ask = move || {
      format!("{}{}{}", watch.is_completed() as u8, watch.error_occur() as u8, watch.is_closed() as u8)
    };
    let (tx, rx) = mpsc::channel::<()>();
    let (ctx, crx) = mpsc::channel::<()>();
    std::thread::spawn(move || {
      AFTER_CHECK.with(|c| {
        *c.borrow_mut() = Some(Box::new(move || {
          let _ = ctx.send(());
        }))
      });
      CompleteStatus::wait_for_end(status);
      let _ = tx.send(());
    });
    let _ = crx.recv_timeout(Duration::from_millis(2000));
    std::thread::sleep(Duration::from_millis(40));
    let pre = ask();
    match term {
      Notif::Error(e) => subject.clone().error(e),
      Notif::Next(v) => {
        // an item first, then the completion
        subject.clone().next(v);
        subject.clone().complete()
      }
      Notif::Complete => subject.clone().complete(),
    }
    match rx.recv_timeout(Duration::from_millis(2500)) {
      Ok(()) => out.emit(k, format!("wait=returned q={}/{}", pre, ask())),
      Err(_) => out.emit(k, format!("wait=HANG q={}/{}", pre, ask())),
    }
  }
}

// ---------------------------------------------------------------- statustake

/// What sits between `complete_status()` and the probe.
#[derive(Clone)]
enum Cutter {
  Id,
  Take(usize),
  First,
  TakeWhile(String, bool),
}

fn parse_cutter(case: &Case) -> Cutter {
  if !case.has("cutter") {
    return Cutter::Id;
  }
  let e = &case.field("cutter")[0];
  match e.head() {
    "id" => Cutter::Id,
    "take" => Cutter::Take(e.list()[1].nat()),
    "first" => Cutter::First,
    "takewhile" => Cutter::TakeWhile(e.list()[1].atom().to_string(), false),
    "takewhilei" => Cutter::TakeWhile(e.list()[1].atom().to_string(), true),
    c => panic!("unknown cutter {}", c),
  }
}

#[derive(Clone, Copy)]
enum SrcKind {
  Hot,
  Create,
  Iter(i64),
}

fn parse_src(case: &Case) -> SrcKind {
  if !case.has("src") {
    return SrcKind::Hot;
  }
  let e = &case.field("src")[0];
  match e.head() {
    "hot" => SrcKind::Hot,
    "create" => SrcKind::Create,
    "iter" => SrcKind::Iter(e.list()[1].int()),
    c => panic!("unknown src {}", c),
  }
}

/// Something the harness can call like an observer again and again (a `Subject` or
/// the `Subscriber` handed out by `observable::create`): terminals go through a clone.
trait Drive {
  fn drive(&mut self, n: Notif);
}
impl<S: Observer<Val, i64> + Clone> Drive for S {
  fn drive(&mut self, n: Notif) {
    match n {
      Notif::Next(v) => self.next(v),
      Notif::Error(e) => self.clone().error(e),
      Notif::Complete => self.clone().complete(),
    }
  }
}

type Stash = Rc<RefCell<Option<Box<dyn Drive>>>>;

/// `observable::create` whose closure only hands its subscriber to the harness.
fn create_local<O: Observer<Val, i64> + 'static>(
  st: Stash,
) -> observable::ObservableFn<impl FnOnce(Subscriber<O>), Subscriber<O>> {
  observable::create(move |s: Subscriber<O>| {
    *st.borrow_mut() = Some(Box::new(s) as Box<dyn Drive>);
  })
}

fn create_threads<O: Observer<Val, i64> + Send + 'static>(
  st: Stash,
) -> observable::ObservableFn<impl FnOnce(SubscriberThreads<O>), SubscriberThreads<O>> {
  observable::create(move |s: SubscriberThreads<O>| {
    *st.borrow_mut() = Some(Box::new(s) as Box<dyn Drive>);
  })
}

/// `$src.complete_status()`, the cutter, the probe: returns the status handle and the
/// (not yet executed) subscription.  `$src` is expanded once per cutter so that a
/// source generic in its observer type (`create`) is instantiated for each of them.
macro_rules! status_cut {
  ($src:expr, $cut:expr, $probe:expr) => {{
    let thunk: (Arc<CompleteStatus>, Box<dyn FnOnce()>) = match $cut {
      Cutter::Id => {
        let (op, st) = $src.complete_status();
        let p = $probe;
        (st, Box::new(move || {
          let _ = op.actual_subscribe(p);
        }))
      }
      Cutter::Take(n) => {
        let (op, st) = $src.complete_status();
        let p = $probe;
        (st, Box::new(move || {
          let _ = op.take(n).actual_subscribe(p);
        }))
      }
      Cutter::First => {
        let (op, st) = $src.complete_status();
        let p = $probe;
        (st, Box::new(move || {
          let _ = op.first().actual_subscribe(p);
        }))
      }
      Cutter::TakeWhile(name, false) => {
        let (op, st) = $src.complete_status();
        let p = $probe;
        let f = pred(&name);
        (st, Box::new(move || {
          let _ = op.take_while(f).actual_subscribe(p);
        }))
      }
      Cutter::TakeWhile(name, true) => {
        let (op, st) = $src.complete_status();
        let p = $probe;
        let f = pred(&name);
        (st, Box::new(move || {
          let _ = op.take_while_inclusive(f).actual_subscribe(p);
        }))
      }
    };
    thunk
  }};
}

/// The system of kinds `statustake` / `statuswait`.
struct CutSys {
  status: Arc<CompleteStatus>,
  /// the subscription, until it has been made (`iter`: made by `sub`)
  pending: Option<Box<dyn FnOnce()>>,
  /// what `emit` calls (none for `iter`)
  driver: Option<Box<dyn Drive>>,
  llog: Rc<RefCell<Vec<Notif>>>,
  tlog: Arc<Mutex<Vec<Notif>>>,
  threads: bool,
}

impl CutSys {
  fn new(src: SrcKind, cut: Cutter, threads: bool) -> CutSys {
    let llog = Rc::new(RefCell::new(Vec::<Notif>::new()));
    let tlog = Arc::new(Mutex::new(Vec::<Notif>::new()));
    let stash: Stash = Rc::new(RefCell::new(None));
    let mut driver: Option<Box<dyn Drive>> = None;
    let (status, sub) = match (src, threads) {
      (SrcKind::Hot, false) => {
        let s: Subject<'static, Val, i64> = Subject::default();
        driver = Some(Box::new(s.clone()));
        status_cut!(s.clone(), cut, Probe(llog.clone()))
      }
      (SrcKind::Hot, true) => {
        let s: SubjectThreads<Val, i64> = SubjectThreads::default();
        driver = Some(Box::new(s.clone()));
        status_cut!(s.clone(), cut, ProbeT(tlog.clone()))
      }
      (SrcKind::Create, false) => status_cut!(create_local(stash.clone()), cut, Probe(llog.clone())),
      (SrcKind::Create, true) => status_cut!(create_threads(stash.clone()), cut, ProbeT(tlog.clone())),
      (SrcKind::Iter(k), false) => {
        status_cut!(observable::from_iter((1..=k).map(Val::Int)), cut, ProbeI(llog.clone()))
      }
      (SrcKind::Iter(k), true) => {
        status_cut!(observable::from_iter((1..=k).map(Val::Int)), cut, ProbeTI(tlog.clone()))
      }
    };
    let mut sys = CutSys { status, pending: Some(sub), driver, llog, tlog, threads };
    match src {
      SrcKind::Hot => sys.subscribe(),
      SrcKind::Create => {
        sys.subscribe();
        sys.driver = stash.borrow_mut().take();
      }
      SrcKind::Iter(_) => {}
    }
    sys
  }

  fn subscribe(&mut self) {
    if let Some(f) = self.pending.take() {
      f()
    }
  }

  fn emit(&mut self, n: Notif) {
    if let Some(d) = self.driver.as_mut() {
      d.drive(n)
    }
  }

  fn take_log(&self) -> Vec<Notif> {
    if self.threads {
      std::mem::take(&mut *self.tlog.lock().unwrap())
    } else {
      std::mem::take(&mut *self.llog.borrow_mut())
    }
  }
}

fn run_status_take(case: &Case, out: &mut Out) {
  let mut sys = CutSys::new(parse_src(case), parse_cutter(case), case.flavor == "threads");
  for (k, ev) in case.events.iter().enumerate() {
    out.cur = k;
    match ev[0].atom() {
      "emit" => {
        sys.emit(Notif::parse(&ev[2]));
        out.emit(k, fmt_log(sys.take_log()));
      }
      "sub" => {
        sys.subscribe();
        out.emit(k, fmt_log(sys.take_log()));
      }
      "poll" => {
        let line = if sys.status.is_closed() {
          CompleteStatus::wait_for_end(sys.status.clone());
          "poll=Ready".to_string()
        } else {
          "poll=Pending".to_string()
        };
        out.emit(k, line);
      }
      "q" => out.emit(
        k,
        format!(
          "closed={} completed={} error={}",
          sys.status.is_closed() as u8,
          sys.status.is_completed() as u8,
          sys.status.error_occur() as u8
        ),
      ),
      e => panic!("unknown event {}", e),
    }
  }
}

/// kind `statuswait` with a cutter (and any of the three sources): the notifications of field
/// `pre` are delivered first (they can let the cutter finish the downstream), THEN the waiter
/// parks in `wait_for_end`, then the source's terminal arrives: it must wake the waiter.
fn run_status_wait_cut(case: &Case, out: &mut Out) {
  use rxrust::ops::complete_status::verif::AFTER_CHECK;
  use std::sync::mpsc;
  use std::time::Duration;
  let src = parse_src(case);
  let cut = parse_cutter(case);
  let pre: Vec<Notif> = if case.has("pre") {
    case.field("pre").iter().map(Notif::parse).collect()
  } else {
    vec![]
  };
  for (k, ev) in case.events.iter().enumerate() {
    out.cur = k;
    let term = Notif::parse(&ev[1]);
    let mut sys = CutSys::new(src, cut.clone(), case.flavor == "threads");
    for n in pre.iter() {
      sys.emit(n.clone());
    }
    let status = sys.status.clone();
    let (tx, rx) = mpsc::channel::<()>();
    let (ctx, crx) = mpsc::channel::<()>();
    std::thread::spawn(move || {
      AFTER_CHECK.with(|c| {
        *c.borrow_mut() = Some(Box::new(move || {
          let _ = ctx.send(());
        }))
      });
      CompleteStatus::wait_for_end(status);
      let _ = tx.send(());
    });
    let _ = crx.recv_timeout(Duration::from_millis(1000));
    std::thread::sleep(Duration::from_millis(40));
    match src {
      SrcKind::Iter(_) => sys.subscribe(),
      _ => match term {
        Notif::Next(v) => {
          sys.emit(Notif::Next(v));
          sys.emit(Notif::Complete)
        }
        t => sys.emit(t),
      },
    }
    // shorter than the harness watchdog (1.5 s per case): a lost wake-up is reported by this line
    match rx.recv_timeout(Duration::from_millis(800)) {
      Ok(()) => out.emit(k, "wait=returned".to_string()),
      Err(_) => out.emit(k, "wait=HANG".to_string()),
    }
  }
}

pub fn run(case: &Case, out: &mut Out) {
  let kind = case.field("kind")[0].atom().to_string();
  if kind == "statusrace" {
    return run_status_race(case, out);
  }
  if kind == "statuswait" {
    if case.has("cutter") || case.has("src") {
      return run_status_wait_cut(case, out);
    }
    return run_status_wait(case, out);
  }
  if kind == "statustake" {
    return run_status_take(case, out);
  }
  let threads = case.flavor == "threads";
  // EVERY poll gets a waker of its own (an executor is free to hand a different waker to each poll — a probe with
  // `now_or_never()`, a stream that moves to another task); `w=` counts the wake-ups of the waker of the MOST RECENT
  // poll, the only one the `Future` / `Stream` contract promises to wake
  let mut wk = Arc::new(CountWaker(AtomicUsize::new(0)));
  // field `twowakers`: the polls ALTERNATE between two long-lived wakers (two tasks taking turns on one future: A, B, A, …) —
  // a conversion that remembers a waker must remember the one of the LAST poll
  let two = [Arc::new(CountWaker(AtomicUsize::new(0))), Arc::new(CountWaker(AtomicUsize::new(0)))];
  let mut polls = 0usize;
  let llog = Rc::new(RefCell::new(Vec::<Notif>::new()));
  let tlog = Arc::new(Mutex::new(Vec::<Notif>::new()));

  // the hot source and the conversion under test
  let lsubject: Subject<'static, Val, i64> = Subject::default();
  let tsubject: SubjectThreads<Val, i64> = SubjectThreads::default();
  let mut conv = match (kind.as_str(), threads) {
    ("future", false) => Conv::Future(Box::pin(lsubject.clone().to_future())),
    ("future", true) => Conv::Future(Box::pin(tsubject.clone().to_future())),
    ("collectfuture", false) => {
      Conv::CollectFuture(Box::pin(lsubject.clone().collect::<Vec<Val>>().to_future()))
    }
    ("collectfuture", true) => {
      Conv::CollectFuture(Box::pin(tsubject.clone().collect::<Vec<Val>>().to_future()))
    }
    ("stream", false) => Conv::Stream(Box::pin(lsubject.clone().to_stream())),
    ("stream", true) => Conv::Stream(Box::pin(tsubject.clone().to_stream())),
    ("status", false) => {
      let (op, status) = lsubject.clone().complete_status();
      let _ = op.actual_subscribe(Probe(llog.clone()));
      Conv::Status(status)
    }
    ("status", true) => {
      let (op, status) = tsubject.clone().complete_status();
      let _ = op.actual_subscribe(ProbeT(tlog.clone()));
      Conv::Status(status)
    }
    (k, _) => panic!("unknown kind {}", k),
  };

  for (k, ev) in case.events.iter().enumerate() {
    out.cur = k;
    match ev[0].atom() {
      "emit" => {
        let before = wk.0.load(Ordering::SeqCst);
        let n = Notif::parse(&ev[2]);
        if threads {
          let mut s = tsubject.clone();
          match n {
            Notif::Next(v) => s.next(v),
            Notif::Error(e) => s.error(e),
            Notif::Complete => s.complete(),
          }
        } else {
          let mut s = lsubject.clone();
          match n {
            Notif::Next(v) => s.next(v),
            Notif::Error(e) => s.error(e),
            Notif::Complete => s.complete(),
          }
        }
        let woken = wk.0.load(Ordering::SeqCst) - before;
        if let Conv::Status(_) = conv {
          let log = if threads {
            std::mem::take(&mut *tlog.lock().unwrap())
          } else {
            std::mem::take(&mut *llog.borrow_mut())
          };
          out.emit(k, fmt_log(log));
        } else {
          out.emit(k, format!("w={}", woken));
        }
      }
      "poll" => {
        if !matches!(conv, Conv::Dropped) {
          if case.has("twowakers") {
            wk = two[polls % 2].clone();
            polls += 1;
          } else {
            wk = Arc::new(CountWaker(AtomicUsize::new(0)));
          }
        }
        let the_waker = waker(wk.clone());
        let mut cx = Context::from_waker(&the_waker);
        let line = match &mut conv {
          Conv::Future(f) => show_fut(f.as_mut().poll(&mut cx), |v| v.to_string()),
          Conv::CollectFuture(f) => {
            show_fut(f.as_mut().poll(&mut cx), |v| Val::List(v).to_string())
          }
          Conv::Stream(s) => show_next(s.as_mut().poll_next(&mut cx)),
          Conv::Status(st) => {
            if st.is_closed() {
              CompleteStatus::wait_for_end(st.clone());
              "poll=Ready".to_string()
            } else {
              "poll=Pending".to_string()
            }
          }
          Conv::Dropped => "na".to_string(),
        };
        out.emit(k, line);
      }
      "drop" => {
        if !matches!(conv, Conv::Status(_)) {
          // the old value (the boxed future / stream with its receiver) is dropped here
          conv = Conv::Dropped;
        }
        out.emit(k, "dropped".to_string());
      }
      "q" => match &conv {
        Conv::Status(st) => out.emit(
          k,
          format!(
            "closed={} completed={} error={}",
            st.is_closed() as u8,
            st.is_completed() as u8,
            st.error_occur() as u8
          ),
        ),
        _ => out.emit(k, "na".to_string()),
      },
      e => panic!("unknown event {}", e),
    }
  }
}
