//! Suite `convert` (C14): a hot `Subject<Val,i64>` source converted by
//! `to_future` / `to_stream` / `collect().to_future()` / `complete_status`
//! (field `kind` = future | stream | collectfuture | status).
//!
//! Events
//!   `emit 0 <notif>`  the source subject is called; prints `w=<k>` (how often the
//!                     poller's waker was woken during the event); kind status:
//!                     `o=<what the downstream probe received>`
//!   `poll`            the future / stream is polled ONCE with a counting waker:
//!                     `poll=Pending` | `poll=Ready(Ok(5))` | `poll=Ready(SrcErr(3))`
//!                     | `poll=Ready(Err(Empty))` | `poll=Ready(Err(MultipleValues))`;
//!                     stream: `next=Pending` | `next=Some(Ok(3))` | `next=Some(Err(3))` | `next=None`
//!                     kind status: `StatusFuture` is private and `wait_for_end` blocks, so the
//!                     harness calls `wait_for_end` only when `is_closed()` (prints `poll=Ready`
//!                     once it has returned) and prints `poll=Pending` otherwise — the very test
//!                     `StatusFuture::poll` makes.
//!   `q status`        `closed=<0|1> completed=<0|1> error=<0|1>` (kind status; `na` otherwise)
use std::cell::RefCell;
use std::future::Future;
use std::pin::Pin;
use std::rc::Rc;
use std::sync::atomic::{AtomicUsize, Ordering};
use std::sync::{Arc, Mutex};
use std::task::{Context, Poll};

use futures::task::{waker, ArcWake};
use futures::Stream;
use rxrust::ops::complete_status::CompleteStatus;
use rxrust::ops::future::ObservableError;
use rxrust::prelude::*;

use crate::val::{Notif, Val};
use crate::{Case, Out};

struct CountWaker(AtomicUsize);
impl ArcWake for CountWaker {
  fn wake_by_ref(a: &Arc<Self>) {
    a.0.fetch_add(1, Ordering::SeqCst);
  }
}

struct Probe(Rc<RefCell<Vec<Notif>>>);
impl Observer<Val, i64> for Probe {
  fn next(&mut self, v: Val) {
    self.0.borrow_mut().push(Notif::Next(v));
  }
  fn error(self, e: i64) {
    self.0.borrow_mut().push(Notif::Error(e));
  }
  fn complete(self) {
    self.0.borrow_mut().push(Notif::Complete);
  }
  fn is_finished(&self) -> bool {
    false
  }
}

struct ProbeT(Arc<Mutex<Vec<Notif>>>);
impl Observer<Val, i64> for ProbeT {
  fn next(&mut self, v: Val) {
    self.0.lock().unwrap().push(Notif::Next(v));
  }
  fn error(self, e: i64) {
    self.0.lock().unwrap().push(Notif::Error(e));
  }
  fn complete(self) {
    self.0.lock().unwrap().push(Notif::Complete);
  }
  fn is_finished(&self) -> bool {
    false
  }
}

type FutOut<T> = Result<Result<T, i64>, ObservableError>;

fn show_fut<T>(p: Poll<FutOut<T>>, show: impl Fn(T) -> String) -> String {
  match p {
    Poll::Pending => "poll=Pending".to_string(),
    Poll::Ready(Ok(Ok(v))) => format!("poll=Ready(Ok({}))", show(v)),
    Poll::Ready(Ok(Err(e))) => format!("poll=Ready(SrcErr({}))", e),
    Poll::Ready(Err(ObservableError::Empty)) => "poll=Ready(Err(Empty))".to_string(),
    Poll::Ready(Err(ObservableError::MultipleValues)) => {
      "poll=Ready(Err(MultipleValues))".to_string()
    }
  }
}

fn show_next(p: Poll<Option<Result<Val, i64>>>) -> String {
  match p {
    Poll::Pending => "next=Pending".to_string(),
    Poll::Ready(None) => "next=None".to_string(),
    Poll::Ready(Some(Ok(v))) => format!("next=Some(Ok({}))", v),
    Poll::Ready(Some(Err(e))) => format!("next=Some(Err({}))", e),
  }
}

fn fmt_log(log: Vec<Notif>) -> String {
  let parts: Vec<String> = log.iter().map(|n| n.to_string()).collect();
  format!("o={}", parts.join(";"))
}

enum Conv {
  Future(Pin<Box<dyn Future<Output = FutOut<Val>>>>),
  CollectFuture(Pin<Box<dyn Future<Output = FutOut<Vec<Val>>>>>),
  Stream(Pin<Box<dyn Stream<Item = Result<Val, i64>>>>),
  Status(Arc<CompleteStatus>),
}

/// kind `statusrace`: `CompleteStatus::wait_for_end` in a helper thread whose
/// hook H3 (between the flag check and the waker registration of
/// `StatusFuture::poll`) runs the producer's terminal — the interleaving of
/// RxModel/Props/C14T.lean, replayed deterministically on the real code.
fn run_status_race(case: &Case, out: &mut Out) {
  use rxrust::ops::complete_status::verif::AFTER_CHECK;
  use std::sync::mpsc;
  use std::time::Duration;
  for (k, ev) in case.events.iter().enumerate() {
    out.cur = k;
    let term = Notif::parse(&ev[1]);
    let subject: SubjectThreads<Val, i64> = SubjectThreads::default();
    let tlog = Arc::new(Mutex::new(Vec::<Notif>::new()));
    let (op, status) = subject.clone().complete_status();
    let _ = op.actual_subscribe(ProbeT(tlog.clone()));
    let (tx, rx) = mpsc::channel::<()>();
    std::thread::spawn(move || {
      let producer = subject.clone();
      AFTER_CHECK.with(|c| {
        *c.borrow_mut() = Some(Box::new(move || match term {
          Notif::Error(e) => producer.error(e),
          _ => producer.complete(),
        }))
      });
      CompleteStatus::wait_for_end(status);
      let _ = tx.send(());
    });
    match rx.recv_timeout(Duration::from_millis(2500)) {
      Ok(()) => out.emit(k, "wait=returned".to_string()),
      Err(_) => out.emit(k, "wait=HANG".to_string()),
    }
  }
}

/// kind `statuswait`: the waiter is ALREADY parked in `wait_for_end` (it has checked
/// the flag, registered its waker and gone to sleep) when the producer terminates
/// from another thread: the terminal must wake it.  The hook H3 only reports that
/// the first flag check has happened; if the waiter were slower than the grace
/// period it would see the flag itself and return — the verdict can only err
/// towards `returned`.
fn run_status_wait(case: &Case, out: &mut Out) {
  use rxrust::ops::complete_status::verif::AFTER_CHECK;
  use std::sync::mpsc;
  use std::time::Duration;
  for (k, ev) in case.events.iter().enumerate() {
    out.cur = k;
    let term = Notif::parse(&ev[1]);
    let subject: SubjectThreads<Val, i64> = SubjectThreads::default();
    let tlog = Arc::new(Mutex::new(Vec::<Notif>::new()));
    let (op, status) = subject.clone().complete_status();
    let _ = op.actual_subscribe(ProbeT(tlog.clone()));
    let (tx, rx) = mpsc::channel::<()>();
    let (ctx, crx) = mpsc::channel::<()>();
    std::thread::spawn(move || {
      AFTER_CHECK.with(|c| {
        *c.borrow_mut() = Some(Box::new(move || {
          let _ = ctx.send(());
        }))
      });
      CompleteStatus::wait_for_end(status);
      let _ = tx.send(());
    });
    let _ = crx.recv_timeout(Duration::from_millis(2000));
    std::thread::sleep(Duration::from_millis(40));
    match term {
      Notif::Error(e) => subject.clone().error(e),
      Notif::Next(v) => {
        // an item first, then the completion
        subject.clone().next(v);
        subject.clone().complete()
      }
      Notif::Complete => subject.clone().complete(),
    }
    match rx.recv_timeout(Duration::from_millis(2500)) {
      Ok(()) => out.emit(k, "wait=returned".to_string()),
      Err(_) => out.emit(k, "wait=HANG".to_string()),
    }
  }
}

pub fn run(case: &Case, out: &mut Out) {
  let kind = case.field("kind")[0].atom().to_string();
  if kind == "statusrace" {
    return run_status_race(case, out);
  }
  if kind == "statuswait" {
    return run_status_wait(case, out);
  }
  let threads = case.flavor == "threads";
  let wk = Arc::new(CountWaker(AtomicUsize::new(0)));
  let the_waker = waker(wk.clone());
  let llog = Rc::new(RefCell::new(Vec::<Notif>::new()));
  let tlog = Arc::new(Mutex::new(Vec::<Notif>::new()));

  // the hot source and the conversion under test
  let lsubject: Subject<'static, Val, i64> = Subject::default();
  let tsubject: SubjectThreads<Val, i64> = SubjectThreads::default();
  let mut conv = match (kind.as_str(), threads) {
    ("future", false) => Conv::Future(Box::pin(lsubject.clone().to_future())),
    ("future", true) => Conv::Future(Box::pin(tsubject.clone().to_future())),
    ("collectfuture", false) => {
      Conv::CollectFuture(Box::pin(lsubject.clone().collect::<Vec<Val>>().to_future()))
    }
    ("collectfuture", true) => {
      Conv::CollectFuture(Box::pin(tsubject.clone().collect::<Vec<Val>>().to_future()))
    }
    ("stream", false) => Conv::Stream(Box::pin(lsubject.clone().to_stream())),
    ("stream", true) => Conv::Stream(Box::pin(tsubject.clone().to_stream())),
    ("status", false) => {
      let (op, status) = lsubject.clone().complete_status();
      let _ = op.actual_subscribe(Probe(llog.clone()));
      Conv::Status(status)
    }
    ("status", true) => {
      let (op, status) = tsubject.clone().complete_status();
      let _ = op.actual_subscribe(ProbeT(tlog.clone()));
      Conv::Status(status)
    }
    (k, _) => panic!("unknown kind {}", k),
  };

  for (k, ev) in case.events.iter().enumerate() {
    out.cur = k;
    match ev[0].atom() {
      "emit" => {
        let before = wk.0.load(Ordering::SeqCst);
        let n = Notif::parse(&ev[2]);
        if threads {
          let mut s = tsubject.clone();
          match n {
            Notif::Next(v) => s.next(v),
            Notif::Error(e) => s.error(e),
            Notif::Complete => s.complete(),
          }
        } else {
          let mut s = lsubject.clone();
          match n {
            Notif::Next(v) => s.next(v),
            Notif::Error(e) => s.error(e),
            Notif::Complete => s.complete(),
          }
        }
        let woken = wk.0.load(Ordering::SeqCst) - before;
        if let Conv::Status(_) = conv {
          let log = if threads {
            std::mem::take(&mut *tlog.lock().unwrap())
          } else {
            std::mem::take(&mut *llog.borrow_mut())
          };
          out.emit(k, fmt_log(log));
        } else {
          out.emit(k, format!("w={}", woken));
        }
      }
      "poll" => {
        let mut cx = Context::from_waker(&the_waker);
        let line = match &mut conv {
          Conv::Future(f) => show_fut(f.as_mut().poll(&mut cx), |v| v.to_string()),
          Conv::CollectFuture(f) => {
            show_fut(f.as_mut().poll(&mut cx), |v| Val::List(v).to_string())
          }
          Conv::Stream(s) => show_next(s.as_mut().poll_next(&mut cx)),
          Conv::Status(st) => {
            if st.is_closed() {
              CompleteStatus::wait_for_end(st.clone());
              "poll=Ready".to_string()
            } else {
              "poll=Pending".to_string()
            }
          }
        };
        out.emit(k, line);
      }
      "q" => match &conv {
        Conv::Status(st) => out.emit(
          k,
          format!(
            "closed={} completed={} error={}",
            st.is_closed() as u8,
            st.is_completed() as u8,
            st.error_occur() as u8
          ),
        ),
        _ => out.emit(k, "na".to_string()),
      },
      e => panic!("unknown event {}", e),
    }
  }
}
