//! Suite `locks` (C10): lock-level trace of operations on thread-safe pipelines,
//! recorded through hook H2 (`rxrust::rc::verif::BEFORE_LOCK`) on ONE thread.
//!
//! field  subs (<elem>*) (<elem>*) …   one chain per subscriber, source side first, over
//!                                     `SubjectThreads` number 0; elem = plain | cell | slot | fin
//!          plain = map(add1)                     (lock-free stage)
//!          cell  = merge_threads(never-emitting subject)
//!          slot  = take_until_threads(never-emitting subject)
//!          fin   = finalize_threads(counter)
//! events next <v> | complete | error <e> | retain | size | unsuball | unsub <u>
//!
//! One line per event: `t=a<cell>[<held cells>],…,c<sub>[<held cells>],…` — every lock acquisition
//! with the cells held at that moment (ascending), every probe callback likewise; cells are
//! numbered in order of first acquisition.  `RELOCK` if a cell is acquired while the thread already holds it.
use rxrust::observer::BoxObserverThreads;
use rxrust::ops::box_it::{BoxIt, CloneableBoxOpThreads};
use rxrust::prelude::*;

use crate::val::{fn1, Val};
use crate::{Case, Out};

use crate::locktrace::{self, on_cb};

struct LockProbe(usize);
impl Observer<Val, i64> for LockProbe {
  fn next(&mut self, _: Val) {
    on_cb(self.0)
  }
  fn error(self, _: i64) {
    on_cb(self.0)
  }
  fn complete(self) {
    on_cb(self.0)
  }
  fn is_finished(&self) -> bool {
    false
  }
}

type TB = CloneableBoxOpThreads<Val, i64>;

pub fn run(case: &Case, out: &mut Out) {
  locktrace::start();
  locktrace::pause();
  let subject: SubjectThreads<Val, i64> = SubjectThreads::default();
  let idle: SubjectThreads<Val, i64> = SubjectThreads::default();
  let mut handles: Vec<Option<rxrust::subscription::BoxSubscriptionThreads>> = vec![];
  // build and subscribe with the hook off: only the operations of the script are traced
  for (u, chain) in case.field("subs").iter().enumerate() {
    let mut p: TB = subject.clone().box_it();
    for e in chain.list() {
      p = match e.atom() {
        "plain" => p.map(fn1("add1")).box_it(),
        "cell" => p.merge_threads(idle.clone()).box_it(),
        "slot" => p.take_until_threads(idle.clone()).box_it(),
        "fin" => p.finalize_threads(|| {}).box_it(),
        x => panic!("unknown chain element {}", x),
      };
    }
    handles.push(Some(p.actual_subscribe(LockProbe(u))));
  }
  let _keep: Vec<BoxObserverThreads<Val, i64>> = vec![];
  locktrace::resume();
  for (k, ev) in case.events.iter().enumerate() {
    out.cur = k;
    let _ = locktrace::take();
    let mut s = subject.clone();
    let r = std::panic::catch_unwind(std::panic::AssertUnwindSafe(|| match ev[0].atom() {
      "next" => s.next(Val::parse(&ev[1])),
      "complete" => s.complete(),
      "error" => s.error(ev[1].int()),
      "retain" => s.retain(),
      "size" => {
        let _ = s.len();
      }
      "unsuball" => s.unsubscribe(),
      "unsub" => {
        if let Some(h) = handles[ev[1].nat()].take() {
          h.unsubscribe()
        }
      }
      e => panic!("unknown event {}", e),
    }));
    let toks = locktrace::take();
    out.emit(k, format!("t={}", toks));
    if r.is_err() {
      break;
    }
  }
  locktrace::stop();
  std::mem::forget(handles);
}
