//! Suite `locks` (C10): lock-level trace of operations on thread-safe pipelines,
//! recorded through hook H2 (`rxrust::rc::verif::BEFORE_LOCK`) on ONE thread.
//!
//! field  subs (<elem>*) (<elem>*) …   one chain per subscriber, source side first, over
//!                                     `SubjectThreads` number 0; elem = plain | cell | slot | fin
//!          plain = map(add1)                     (lock-free stage)
//!          cell  = merge_threads(never-emitting subject)
//!          slot  = take_until_threads(never-emitting subject)
//!          fin   = finalize_threads(counter)
//! events next <v> | complete | error <e> | retain | size | unsuball | unsub <u>
//!
//! One line per event: `t=a<cell>[<held cells>],…,c<sub>[<held cells>],…` — every lock acquisition
//! with the cells held at that moment (ascending), every probe callback likewise; cells are
//! numbered in order of first acquisition.  `RELOCK` if a cell is acquired while the thread already holds it.
use std::cell::RefCell;

use rxrust::observer::BoxObserverThreads;
use rxrust::ops::box_it::{BoxIt, CloneableBoxOpThreads};
use rxrust::prelude::*;
use rxrust::rc::verif::BEFORE_LOCK;

use crate::val::{fn1, Val};
use crate::{Case, Out};

#[derive(Default)]
struct Trace {
  cells: Vec<(usize, fn(usize) -> bool)>,
  tokens: Vec<String>,
  relock: bool,
}

thread_local! {
  static TRACE: RefCell<Trace> = RefCell::new(Trace::default());
}

fn held(t: &Trace) -> Vec<usize> {
  t.cells.iter().enumerate().filter(|(_, (a, p))| !p(*a)).map(|(i, _)| i).collect()
}

fn on_lock(addr: usize, probe: fn(usize) -> bool) {
  TRACE.with(|t| {
    let mut t = t.borrow_mut();
    let idx = match t.cells.iter().position(|(a, _)| *a == addr) {
      Some(i) => i,
      None => {
        t.cells.push((addr, probe));
        t.cells.len() - 1
      }
    };
    let h = held(&t);
    if h.contains(&idx) {
      t.relock = true;
      t.tokens.push(format!("RELOCK{}", idx));
      drop(t);
      panic!("RELOCK");
    }
    let hs: Vec<String> = h.iter().map(|x| x.to_string()).collect();
    t.tokens.push(format!("a{}[{}]", idx, hs.join(".")));
  });
}

fn on_cb(sub: usize) {
  TRACE.with(|t| {
    let mut t = t.borrow_mut();
    let hs: Vec<String> = held(&t).iter().map(|x| x.to_string()).collect();
    t.tokens.push(format!("c{}[{}]", sub, hs.join(".")));
  });
}

struct LockProbe(usize);
impl Observer<Val, i64> for LockProbe {
  fn next(&mut self, _: Val) {
    on_cb(self.0)
  }
  fn error(self, _: i64) {
    on_cb(self.0)
  }
  fn complete(self) {
    on_cb(self.0)
  }
  fn is_finished(&self) -> bool {
    false
  }
}

type TB = CloneableBoxOpThreads<Val, i64>;

pub fn run(case: &Case, out: &mut Out) {
  TRACE.with(|t| *t.borrow_mut() = Trace::default());
  let subject: SubjectThreads<Val, i64> = SubjectThreads::default();
  let idle: SubjectThreads<Val, i64> = SubjectThreads::default();
  let mut handles: Vec<Option<rxrust::subscription::BoxSubscriptionThreads>> = vec![];
  // build and subscribe with the hook off: only the operations of the script are traced
  for (u, chain) in case.field("subs").iter().enumerate() {
    let mut p: TB = subject.clone().box_it();
    for e in chain.list() {
      p = match e.atom() {
        "plain" => p.map(fn1("add1")).box_it(),
        "cell" => p.merge_threads(idle.clone()).box_it(),
        "slot" => p.take_until_threads(idle.clone()).box_it(),
        "fin" => p.finalize_threads(|| {}).box_it(),
        x => panic!("unknown chain element {}", x),
      };
    }
    handles.push(Some(p.actual_subscribe(LockProbe(u))));
  }
  let _keep: Vec<BoxObserverThreads<Val, i64>> = vec![];
  BEFORE_LOCK.with(|h| *h.borrow_mut() = Some(Box::new(on_lock)));
  for (k, ev) in case.events.iter().enumerate() {
    out.cur = k;
    TRACE.with(|t| t.borrow_mut().tokens.clear());
    let mut s = subject.clone();
    let r = std::panic::catch_unwind(std::panic::AssertUnwindSafe(|| match ev[0].atom() {
      "next" => s.next(Val::parse(&ev[1])),
      "complete" => s.complete(),
      "error" => s.error(ev[1].int()),
      "retain" => s.retain(),
      "size" => {
        let _ = s.len();
      }
      "unsuball" => s.unsubscribe(),
      "unsub" => {
        if let Some(h) = handles[ev[1].nat()].take() {
          h.unsubscribe()
        }
      }
      e => panic!("unknown event {}", e),
    }));
    let toks = TRACE.with(|t| t.borrow().tokens.join(","));
    out.emit(k, format!("t={}", toks));
    if r.is_err() {
      break;
    }
  }
  BEFORE_LOCK.with(|h| *h.borrow_mut() = None);
  std::mem::forget(handles);
}
