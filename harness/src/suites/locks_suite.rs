//! Suite `locks` (C10): lock-level trace of operations on thread-safe pipelines,
//! recorded through hook H2 (`rxrust::rc::verif::BEFORE_LOCK`) on ONE thread.
//!
//! field  root (subject <chain>*) | (behavior <chain>*) | (share (<notif>*))
//!          subject  = `SubjectThreads`                       (subject number 0)
//!          behavior = `BehaviorSubject<_, SubjectThreads>`
//!          share    = `tap.share_threads()` with no subscriber yet; `tap` is a harness-defined source that
//!                     keeps the observer it is given (the share's inner `SubjectThreads`) and first emits the
//!                     listed notifications synchronously from inside `actual_subscribe` (i.e. during `connect()`)
//!        chain = (<elem>* [<nested>])   one subscriber, source side first; the observer at its end is a probe
//!                                      (numbered in order of creation) or, if the last element is a list, a
//!                                      nested `(subject <chain>*)` / `(behavior <chain>*)` with its own
//!                                      subscribers (subjects are numbered in order of creation, depth first)
//!          plain = map(add1)                               (lock-free stage)
//!          cell  = merge_threads(quiet)                    quiet: a harness-defined observable that never emits
//!          slot  = take_until_threads(quiet)
//!          fin   = finalize_threads(f)                     f records the token `f0[<held cells>]`
//!          oo    = observe_on_threads(H1 scheduler)
//!          dl    = delay_threads(1 tick, H1 scheduler)
//! field  subs <chain>*                = root (subject <chain>*)        (the older spelling)
//!
//! events, each optionally prefixed by `on <s>` (the subject it addresses; default 0):
//!   next <v> | complete | error <e>   the Observer methods of the subject (share: of the inner subject, through the tap)
//!   fin                               `is_finished()`
//!   retain | size | unsuball          `retain()`, `len()`, `unsubscribe()` (share: on the inner subject, through the tap)
//!   subscribe <chain>                 `pipeline.actual_subscribe(observer)`; the new chain is BUILT with the hook off,
//!                                     only the final `actual_subscribe` is traced
//!   unsub <i>                         `unsubscribe()` of the subscription the i-th subscriber of the subject got
//!   poll <g>                          the H1 executor polls the g-th task ever spawned (on this thread)
//!   pend <g>                          … a task of `delay_threads` for the first time: its timer has not fired, the poll
//!                                     returns `Pending`; afterwards (no locks involved) the clock is advanced and
//!                                     the timer fired
//!
//! One line per event: `t=a<cell>[<held cells>],…,c<probe>[<held cells>],…` — every lock acquisition
//! with the cells held at that moment (ascending), every probe callback and every finalizer call likewise; cells are
//! numbered in order of first acquisition.  `RELOCK` if a cell is acquired while the thread already holds it.
use std::sync::{Arc, Mutex};

use rxrust::ops::box_it::{BoxIt, CloneableBoxOpThreads};
use rxrust::prelude::*;
use rxrust::scheduler::verif::VerifSchedulerThreads;
use rxrust::subscription::BoxSubscriptionThreads;

use crate::sexp::SExp;
use crate::val::{fn1, Notif, Val};
use crate::vtime::{self, Exec, Queue};
use crate::{Case, Out};

use crate::locktrace::{self, on_cb};

struct LockProbe(usize);
impl Observer<Val, i64> for LockProbe {
  fn next(&mut self, _: Val) {
    on_cb(self.0)
  }
  fn error(self, _: i64) {
    on_cb(self.0)
  }
  fn complete(self) {
    on_cb(self.0)
  }
  fn is_finished(&self) -> bool {
    false
  }
}

type TB = CloneableBoxOpThreads<Val, i64>;
type Subj = SubjectThreads<Val, i64>;
type Beh = BehaviorSubject<Val, Subj>;

/// An observable that never emits and owns no cell.
#[derive(Clone)]
struct Quiet;
impl<O: Observer<Val, i64>> Observable<Val, i64, O> for Quiet {
  type Unsub = ();
  fn actual_subscribe(self, _: O) {}
}
impl ObservableExt<Val, i64> for Quiet {}

/// The source under `share_threads()`: keeps the subject it is connected to (in a plain `Mutex`, not a
/// `MutArc` cell) and emits `sync` from inside `actual_subscribe`.
#[derive(Clone)]
struct Tap {
  sync: Vec<Notif>,
  store: Arc<Mutex<Option<Subj>>>,
}
impl Observable<Val, i64, Subj> for Tap {
  type Unsub = ();
  fn actual_subscribe(self, mut o: Subj) {
    *self.store.lock().unwrap() = Some(o.clone());
    for n in self.sync {
      match n {
        Notif::Next(v) => o.next(v),
        Notif::Error(e) => return o.error(e),
        Notif::Complete => return o.complete(),
      }
    }
  }
}
impl ObservableExt<Val, i64> for Tap {}

enum Node {
  Plain(Subj),
  Beh(Beh),
  Share(TB, Tap),
}

enum End {
  Probe(usize),
  Subj(Subj),
  Beh(Beh),
}

struct World {
  nodes: Vec<Node>,
  handles: Vec<Vec<Option<BoxSubscriptionThreads>>>,
  probes: usize,
  sched: VerifSchedulerThreads,
}

impl World {
  /// `(subject c*)` / `(behavior c*)` / `(share (notif*))`: create it and subscribe its chains (hook off).
  fn new_node(&mut self, spec: &SExp) -> usize {
    let id = self.nodes.len();
    let xs = spec.list();
    let (node, chains): (Node, &[SExp]) = match xs[0].atom() {
      "subject" => (Node::Plain(Subj::default()), &xs[1..]),
      "behavior" => (Node::Beh(Beh::new(Val::Int(0))), &xs[1..]),
      "share" => {
        let sync = xs.get(1).map(|l| l.list().iter().map(Notif::parse).collect()).unwrap_or_default();
        let tap = Tap { sync, store: Arc::new(Mutex::new(None)) };
        (Node::Share(tap.clone().share_threads().box_it(), tap), &xs[xs.len()..])
      }
      x => panic!("unknown node {}", x),
    };
    self.nodes.push(node);
    self.handles.push(vec![]);
    for c in chains {
      self.attach(id, c, false);
    }
    id
  }

  /// The inner `SubjectThreads` of node `s` (share: the one the tap was connected to).
  fn subject(&self, s: usize) -> Subj {
    match &self.nodes[s] {
      Node::Plain(x) => x.clone(),
      Node::Beh(_) => panic!("the subject of a BehaviorSubject is private"),
      Node::Share(_, tap) => tap.store.lock().unwrap().clone().expect("share not connected"),
    }
  }

  /// Subscribe one chain to node `s`; only the final `actual_subscribe` is traced (if `traced`).
  fn attach(&mut self, s: usize, chain: &SExp, traced: bool) {
    let elems = chain.list();
    let (ops, end) = match elems.last() {
      Some(SExp::List(_)) => (&elems[..elems.len() - 1], {
        let id = self.new_node(&elems[elems.len() - 1]);
        match &self.nodes[id] {
          Node::Plain(x) => End::Subj(x.clone()),
          Node::Beh(b) => End::Beh(b.clone()),
          Node::Share(..) => panic!("a share is not an observer"),
        }
      }),
      _ => (elems, {
        self.probes += 1;
        End::Probe(self.probes - 1)
      }),
    };
    let mut p: TB = match &self.nodes[s] {
      Node::Plain(x) => x.clone().box_it(),
      Node::Beh(b) => b.clone().box_it(),
      Node::Share(tb, _) => tb.clone(),
    };
    for e in ops {
      p = match e.atom() {
        "plain" => p.map(fn1("add1")).box_it(),
        "cell" => p.merge_threads(Quiet).box_it(),
        "slot" => p.take_until_threads::<_, Val, i64>(Quiet).box_it(),
        "fin" => p.finalize_threads(locktrace::on_fin).box_it(),
        "oo" => p.observe_on_threads(self.sched.clone()).box_it(),
        "dl" => p.delay_threads(vtime::ticks(1), self.sched.clone()).box_it(),
        x => panic!("unknown chain element {}", x),
      };
    }
    if traced {
      locktrace::resume();
    }
    let h = match end {
      End::Probe(u) => p.actual_subscribe(LockProbe(u)),
      End::Subj(x) => p.actual_subscribe(x),
      End::Beh(b) => p.actual_subscribe(b),
    };
    if traced {
      locktrace::pause();
    }
    self.handles[s].push(Some(h));
  }
}

pub fn run(case: &Case, out: &mut Out) {
  vtime::install();
  vtime::reset();
  vtime::set_unit_nanos(1_000_000);
  locktrace::start();
  locktrace::pause();
  let sched = VerifSchedulerThreads::default();
  let exec = Exec::new(Queue::Shared(sched.clone()));
  let mut w = World { nodes: vec![], handles: vec![], probes: 0, sched };
  // build and subscribe with the hook off: only the operations of the script are traced
  let root: SExp = if case.has("root") {
    case.field("root")[0].clone()
  } else {
    let mut xs = vec![SExp::Atom("subject".to_string())];
    xs.extend(case.field("subs").iter().cloned());
    SExp::List(xs)
  };
  w.new_node(&root);
  for (k, ev) in case.events.iter().enumerate() {
    out.cur = k;
    let _ = locktrace::take();
    let (s, ev): (usize, &[SExp]) = if ev[0].atom() == "on" { (ev[1].nat(), &ev[2..]) } else { (0, &ev[..]) };
    let r = std::panic::catch_unwind(std::panic::AssertUnwindSafe(|| {
      let op = ev[0].atom();
      if op == "subscribe" {
        // (the chain is built with the hook off, `attach` switches it on for the subscription itself)
        w.attach(s, &ev[1], true);
        return;
      }
      locktrace::resume();
      match op {
        "next" | "complete" | "error" => {
          let n = match op {
            "next" => Notif::Next(Val::parse(&ev[1])),
            "error" => Notif::Error(ev[1].int()),
            _ => Notif::Complete,
          };
          match &w.nodes[s] {
            Node::Beh(b) => deliver(b.clone(), n),
            _ => deliver(w.subject(s), n),
          }
        }
        "fin" => {
          let _ = match &w.nodes[s] {
            Node::Beh(b) => Observer::<Val, i64>::is_finished(b),
            _ => Observer::<Val, i64>::is_finished(&w.subject(s)),
          };
        }
        "retain" => w.subject(s).retain(),
        "size" => {
          let _ = match &w.nodes[s] {
            Node::Beh(b) => b.len(),
            _ => w.subject(s).len(),
          };
        }
        "unsuball" => match &w.nodes[s] {
          Node::Beh(b) => b.clone().unsubscribe(),
          _ => w.subject(s).unsubscribe(),
        },
        "unsub" => {
          if let Some(h) = w.handles[s][ev[1].nat()].take() {
            h.unsubscribe()
          }
        }
        "poll" => exec.poll(ev[1].nat()),
        "pend" => {
          exec.poll(ev[1].nat());
          locktrace::pause();
          vtime::advance(1);
          for t in vtime::due_timers() {
            vtime::fire(t);
          }
        }
        e => panic!("unknown event {}", e),
      }
    }));
    locktrace::pause();
    let toks = locktrace::take();
    out.emit(k, format!("t={}", toks));
    if r.is_err() {
      break;
    }
  }
  locktrace::stop();
  std::mem::forget(w);
}

fn deliver<O: Observer<Val, i64>>(mut o: O, n: Notif) {
  match n {
    Notif::Next(v) => o.next(v),
    Notif::Error(e) => o.error(e),
    Notif::Complete => o.complete(),
  }
}
