//! Suite `finalize`: hot subject -> chain of single-input operators and
//! `.finalize(f)` / `.finalize_threads(f)` nodes -> probe.
//!
//! field:   chain <elem>*     source side first; elem = (fin k) | (map f) | (filter p) | (take n)
//!                            | (skip n) | (takewhile p) | (last) | (dflt v) | (takelast n) | (skiplast n)
//!                            | (startwith v*)
//! events:  emit (n v) | emit c | emit (e k)     on the source subject (post-terminal ones included)
//!          unsub                                 the subscription (a second one is a no-op: the value moved)
//!          gdrop                                 like `unsub`, through `unsubscribe_when_dropped()` + drop of the guard
//!          join                                  another, SILENT subscriber joins the source subject (it is never
//!                                                unsubscribed and never finished): a neighbour of the pipeline
//!
//! The probe and every finalizer callback write into ONE log, so the position
//! of the marker (`F` for k = 0, `F<k>` otherwise) relative to the deliveries
//! is visible: `o=N1;C;F`.
use std::sync::{Arc, Mutex};

use rxrust::ops::box_it::BoxIt;
use rxrust::prelude::*;

use crate::pipe::{LBox, TBox};
use crate::sexp::SExp;
use crate::val::{fn1, pred, Notif, Val};
use crate::{Case, Out};

type Log = Arc<Mutex<Vec<String>>>;

/// the silent neighbour of event `join`
struct Mute;
impl Observer<Val, i64> for Mute {
  fn next(&mut self, _v: Val) {}
  fn error(self, _e: i64) {}
  fn complete(self) {}
  fn is_finished(&self) -> bool {
    false
  }
}

struct Probe(Log);
impl Observer<Val, i64> for Probe {
  fn next(&mut self, v: Val) {
    self.0.lock().unwrap().push(format!("N{}", v));
  }
  fn error(self, e: i64) {
    self.0.lock().unwrap().push(format!("E{}", e));
  }
  fn complete(self) {
    self.0.lock().unwrap().push("C".to_string());
  }
  fn is_finished(&self) -> bool {
    false
  }
}

fn marker(k: usize) -> String {
  if k == 0 {
    "F".to_string()
  } else {
    format!("F{}", k)
  }
}

macro_rules! impl_suite {
  ($run:ident, $build:ident, $bx:ty, $subject:ty, $finalize:ident, $boxsub:ty) => {
    fn $build(src: $subject, chain: &[SExp], log: &Log) -> $bx {
      let mut p: $bx = src.box_it();
      for e in chain {
        let xs = e.list();
        p = match xs[0].atom() {
          "fin" => {
            let log = log.clone();
            let tag = marker(xs[1].nat());
            p.$finalize(move || log.lock().unwrap().push(tag.clone())).box_it()
          }
          "map" => p.map(fn1(xs[1].atom())).box_it(),
          "filter" => p.filter(pred(xs[1].atom())).box_it(),
          "take" => p.take(xs[1].nat()).box_it(),
          "skip" => p.skip(xs[1].nat()).box_it(),
          "takewhile" => p.take_while(pred(xs[1].atom())).box_it(),
          "last" => p.last().box_it(),
          "dflt" => p.default_if_empty(Val::parse(&xs[1])).box_it(),
          "takelast" => p.take_last(xs[1].nat()).box_it(),
          "skiplast" => p.skip_last(xs[1].nat()).box_it(),
          // values replayed to the downstream BEFORE the part of the chain above is subscribed (no model: oracle only)
          "startwith" => p.start_with(xs[1..].iter().map(Val::parse).collect::<Vec<_>>()).box_it(),
          h => panic!("unknown chain element {}", h),
        };
      }
      p
    }

    fn $run(case: &Case, out: &mut Out) {
      let log: Log = Arc::new(Mutex::new(vec![]));
      let mut src: $subject = <$subject>::default();
      // field `dead`: the source subject is torn down BEFORE anybody subscribes — the subscription
      // is closed from the start and no terminal will ever arrive
      if case.has("dead") {
        src.clone().unsubscribe();
      }
      // field `clones n`: ONE pipeline value, n subscriptions of clones of it
      let n = if case.has("clones") { case.field("clones")[0].nat() } else { 1 };
      let pipeline = $build(src.clone(), case.field("chain"), &log);
      let mut subs: Vec<Option<$boxsub>> = vec![];
      for _ in 0..n {
        subs.push(Some(pipeline.clone().actual_subscribe(Probe(log.clone()))));
      }
      drop(pipeline);
      let drain = |log: &Log| std::mem::take(&mut *log.lock().unwrap());
      // what a `startwith` element replayed during the subscription itself belongs to no event: only finalizer markers
      // are kept (a callback that ran during the subscription would be a finding of the first event's line)
      {
        let mut l = log.lock().unwrap();
        l.retain(|t| t.starts_with('F'));
      }
      for (k, ev) in case.events.iter().enumerate() {
        out.cur = k;
        match ev[0].atom() {
          "emit" => {
            let s = &mut src;
            match Notif::parse(&ev[1]) {
              Notif::Next(v) => s.next(v),
              Notif::Error(e) => s.clone().error(e),
              Notif::Complete => s.clone().complete(),
            }
          }
          "join" => {
            let _ = src.clone().actual_subscribe(Mute);
          }
          "gdrop" => {
            // the documented RAII way to unsubscribe: the subscription is wrapped in a guard and the guard dropped
            for u in subs.iter_mut() {
              if let Some(u) = u.take() {
                let guard = u.unsubscribe_when_dropped();
                drop(guard);
              }
            }
          }
          "unsub" => {
            for u in subs.iter_mut() {
              if let Some(u) = u.take() {
                u.unsubscribe();
              }
            }
          }
          e => panic!("unknown event {}", e),
        }
        out.emit(k, format!("o={}", drain(&log).join(";")));
      }
    }
  };
}

impl_suite!(run_local, build_local, LBox, Subject<'static, Val, i64>, finalize, BoxSubscription<'static>);
impl_suite!(run_threads, build_threads, TBox, SubjectThreads<Val, i64>, finalize_threads, BoxSubscriptionThreads);

pub fn run(case: &Case, out: &mut Out) {
  if case.flavor == "threads" {
    run_threads(case, out)
  } else {
    run_local(case, out)
  }
}
