//! Suite `behaviorrace` (C12, thread-safe form): the two-producer interleaving of
//! RxModel/Props/C12T.lean replayed deterministically on the real
//! `BehaviorSubject<_, SubjectThreads>`: producer A calls `next(1)`; through hook
//! H2, right after A has stored its value (A's second lock acquisition: the
//! subject's observers cell, taken by `load` at the start of the broadcast),
//! producer B's whole `next(2)` runs — exactly the schedule store₁, store₂,
//! broadcast₂, broadcast₁.  Both producers are sequential sections, so running
//! B inline at that point IS that interleaving.
//!
//! event `race`  ->  `log=N2;N1 peek=2`
use std::cell::RefCell;
use std::rc::Rc;
use std::sync::{Arc, Mutex};

use rxrust::prelude::*;
use rxrust::rc::verif::BEFORE_LOCK;

use crate::val::{Notif, Val};
use crate::{Case, Out};

struct P(Arc<Mutex<Vec<Notif>>>);
impl Observer<Val, i64> for P {
  fn next(&mut self, v: Val) {
    self.0.lock().unwrap().push(Notif::Next(v));
  }
  fn error(self, e: i64) {
    self.0.lock().unwrap().push(Notif::Error(e));
  }
  fn complete(self) {
    self.0.lock().unwrap().push(Notif::Complete);
  }
  fn is_finished(&self) -> bool {
    false
  }
}

pub fn run(case: &Case, out: &mut Out) {
  for (k, _ev) in case.events.iter().enumerate() {
    out.cur = k;
    let log = Arc::new(Mutex::new(Vec::<Notif>::new()));
    let subject: BehaviorSubject<Val, SubjectThreads<Val, i64>> = BehaviorSubject::new(Val::Int(0));
    let _u = subject.clone().actual_subscribe(P(log.clone()));
    log.lock().unwrap().clear(); // drop the greeting
    let count = Rc::new(RefCell::new(0usize));
    let mut b = Some(subject.clone());
    let c2 = count.clone();
    BEFORE_LOCK.with(|h| {
      *h.borrow_mut() = Some(Box::new(move |_addr, _probe| {
        *c2.borrow_mut() += 1;
        if *c2.borrow() == 2 {
          if let Some(mut pb) = b.take() {
            pb.next(Val::Int(2));
          }
        }
      }))
    });
    let mut a = subject.clone();
    a.next(Val::Int(1));
    BEFORE_LOCK.with(|h| *h.borrow_mut() = None);
    let l: Vec<String> = log.lock().unwrap().iter().map(|n| n.to_string()).collect();
    out.emit(k, format!("log={} peek={}", l.join(";"), subject.peek()));
  }
}
