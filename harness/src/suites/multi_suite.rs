//! Suite `multi` (C13): one cold/hot pipeline description, several subscriptions
//! of clones of the SAME built pipeline value — successive and nested (a probe
//! may subscribe another clone from inside its k-th `next`).  Output per event:
//! deliveries tagged with the subscription index `k:N5`, or counters.
//!
//! events:  sub [nest <k>]   subscribe clone #n; with `nest k` the new probe subscribes
//!                           one more clone when it receives its k-th item (0-based)
//!          emit i <notif>   hot subject i
//!          q counters       `tap=[..] calls=<n> pulls=<n>`
use std::cell::RefCell;
use std::rc::Rc;
use std::sync::{Arc, Mutex};

use rxrust::prelude::*;

use crate::pipe::{build_local, build_threads, LBox, LCtx, TBox, TCtx};
use crate::val::{Notif, Val};
use crate::{Case, Out};

type LLog = Rc<RefCell<Vec<(usize, Notif)>>>;

struct LProbe {
  id: usize,
  log: LLog,
  seen: usize,
  nest: Option<usize>,
  pipeline: LBox,
  next_id: Rc<RefCell<usize>>,
}

impl Observer<Val, i64> for LProbe {
  fn next(&mut self, v: Val) {
    self.log.borrow_mut().push((self.id, Notif::Next(v)));
    if self.nest == Some(self.seen) {
      let id = {
        let mut n = self.next_id.borrow_mut();
        *n += 1;
        *n - 1
      };
      let p = LProbe {
        id,
        log: self.log.clone(),
        seen: 0,
        nest: None,
        pipeline: self.pipeline.clone(),
        next_id: self.next_id.clone(),
      };
      std::mem::forget(self.pipeline.clone().actual_subscribe(p));
    }
    self.seen += 1;
  }
  fn error(self, e: i64) {
    self.log.borrow_mut().push((self.id, Notif::Error(e)));
  }
  fn complete(self) {
    self.log.borrow_mut().push((self.id, Notif::Complete));
  }
  fn is_finished(&self) -> bool {
    false
  }
}

type TLog = Arc<Mutex<Vec<(usize, Notif)>>>;

struct TProbe {
  id: usize,
  log: TLog,
  seen: usize,
  nest: Option<usize>,
  pipeline: TBox,
  next_id: Arc<Mutex<usize>>,
}

impl Observer<Val, i64> for TProbe {
  fn next(&mut self, v: Val) {
    self.log.lock().unwrap().push((self.id, Notif::Next(v)));
    if self.nest == Some(self.seen) {
      let id = {
        let mut n = self.next_id.lock().unwrap();
        *n += 1;
        *n - 1
      };
      let p = TProbe {
        id,
        log: self.log.clone(),
        seen: 0,
        nest: None,
        pipeline: self.pipeline.clone(),
        next_id: self.next_id.clone(),
      };
      std::mem::forget(self.pipeline.clone().actual_subscribe(p));
    }
    self.seen += 1;
  }
  fn error(self, e: i64) {
    self.log.lock().unwrap().push((self.id, Notif::Error(e)));
  }
  fn complete(self) {
    self.log.lock().unwrap().push((self.id, Notif::Complete));
  }
  fn is_finished(&self) -> bool {
    false
  }
}

fn fmt(log: Vec<(usize, Notif)>) -> String {
  let parts: Vec<String> = log.iter().map(|(k, n)| format!("{}:{}", k, n)).collect();
  format!("o={}", parts.join(";"))
}

pub fn run(case: &Case, out: &mut Out) {
  if case.flavor == "threads" {
    run_threads(case, out)
  } else {
    run_local(case, out)
  }
}

fn nest_of(ev: &[crate::sexp::SExp]) -> Option<usize> {
  if ev.len() >= 3 && ev[1].atom() == "nest" {
    Some(ev[2].nat())
  } else {
    None
  }
}

fn run_local(case: &Case, out: &mut Out) {
  let ctx = LCtx::default();
  let log: LLog = Rc::new(RefCell::new(vec![]));
  let pipeline = build_local(&case.field("pipe")[0], &ctx);
  let next_id = Rc::new(RefCell::new(0usize));
  let mut subs = vec![];
  for (k, ev) in case.events.iter().enumerate() {
    out.cur = k;
    match ev[0].atom() {
      "sub" => {
        let id = {
          let mut n = next_id.borrow_mut();
          *n += 1;
          *n - 1
        };
        let p = LProbe {
          id,
          log: log.clone(),
          seen: 0,
          nest: nest_of(ev),
          pipeline: pipeline.clone(),
          next_id: next_id.clone(),
        };
        subs.push(pipeline.clone().actual_subscribe(p));
        out.emit(k, fmt(std::mem::take(&mut *log.borrow_mut())));
      }
      "emit" => {
        let mut s = ctx.subject(ev[1].nat());
        match Notif::parse(&ev[2]) {
          Notif::Next(v) => s.next(v),
          Notif::Error(e) => s.error(e),
          Notif::Complete => s.complete(),
        }
        out.emit(k, fmt(std::mem::take(&mut *log.borrow_mut())));
      }
      "q" => {
        let c = ctx.counters.borrow();
        out.emit(k, format!("tap={:?} calls={} pulls={}", c.tap, c.calls, c.pulls).replace(", ", ","));
      }
      e => panic!("unknown event {}", e),
    }
  }
  std::mem::forget(subs);
}

fn run_threads(case: &Case, out: &mut Out) {
  let ctx = TCtx::default();
  let log: TLog = Arc::new(Mutex::new(vec![]));
  let pipeline = build_threads(&case.field("pipe")[0], &ctx);
  let next_id = Arc::new(Mutex::new(0usize));
  let mut subs = vec![];
  for (k, ev) in case.events.iter().enumerate() {
    out.cur = k;
    match ev[0].atom() {
      "sub" => {
        let id = {
          let mut n = next_id.lock().unwrap();
          *n += 1;
          *n - 1
        };
        let p = TProbe {
          id,
          log: log.clone(),
          seen: 0,
          nest: nest_of(ev),
          pipeline: pipeline.clone(),
          next_id: next_id.clone(),
        };
        subs.push(pipeline.clone().actual_subscribe(p));
        out.emit(k, fmt(std::mem::take(&mut *log.lock().unwrap())));
      }
      "emit" => {
        let mut s = ctx.subject(ev[1].nat());
        match Notif::parse(&ev[2]) {
          Notif::Next(v) => s.next(v),
          Notif::Error(e) => s.error(e),
          Notif::Complete => s.complete(),
        }
        out.emit(k, fmt(std::mem::take(&mut *log.lock().unwrap())));
      }
      "q" => {
        let c = ctx.counters.lock().unwrap();
        out.emit(k, format!("tap={:?} calls={} pulls={}", c.tap, c.calls, c.pulls).replace(", ", ","));
      }
      e => panic!("unknown event {}", e),
    }
  }
  std::mem::forget(subs);
}
