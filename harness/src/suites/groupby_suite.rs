//! Suite `groupby`: hot source subject -> REAL `group_by` (per-group subject =
//! `Subject` / `SubjectThreads`) -> optional `take n` -> outer probe.
//!
//! fields:  key <fn1 name>            discriminator (val.rs family: const0, id, mod2, mod3 …)
//!          skip <v>*      (optional) keys whose group the outer probe does NOT subscribe to
//!          otake <n>      (optional) `.take(n)` between group_by and the outer probe
//! events:  emit (n v) | emit c | emit (e k)     on the source subject
//!          unsub                                 the outer subscription
//!          gunsub <key>                          the probe of that group unsubscribes
//!          q kc                                  `kc=<n>`: calls of the key function so far
//!          join                                  a silent neighbour subscribes the SOURCE subject (never finished, never
//!                                                unsubscribed); gjoin <key>: one joins the subject of that group (if announced)
//!          iter <k>                              (C16) a COLD producer instead of the hot subject:
//!                                                `from_iter(counting 0..k).group_by(key)[.take(n)]` is subscribed and
//!                                                runs inside this event; prints `o=<log> pulls=<items pulled>`
//!
//! The outer probe logs `G<key>` and, unless skipped, subscribes a group probe
//! *during* the announcement; a group probe logs `g<key>:N5 / g<key>:C / g<key>:E7`;
//! the outer terminal is logged as `C` / `E7`.  One shared log keeps the real
//! order; in a terminal event the leading run of group tokens (HashMap drain
//! order) is sorted.
use std::sync::{Arc, Mutex};

use rxrust::ops::group_by::KeyObservable;
use rxrust::prelude::*;

use crate::val::{fn1, Notif, Val};
use crate::{Case, Out};

type Log = Arc<Mutex<Vec<String>>>;

struct GProbe {
  key: Val,
  log: Log,
}
impl Observer<Val, i64> for GProbe {
  fn next(&mut self, v: Val) {
    self.log.lock().unwrap().push(format!("g{}:N{}", self.key, v));
  }
  fn error(self, e: i64) {
    self.log.lock().unwrap().push(format!("g{}:E{}", self.key, e));
  }
  fn complete(self) {
    self.log.lock().unwrap().push(format!("g{}:C", self.key));
  }
  fn is_finished(&self) -> bool {
    false
  }
}

/// the log of an `iter` event: the terminal fan-out at the end (`g<k>:C`* then `C`) is sorted (HashMap drain order)
fn fmt_iter_event(mut log: Vec<String>) -> String {
  let mut end = log.len();
  if end > 0 && (log[end - 1] == "C" || log[end - 1].starts_with('E')) {
    end -= 1;
  }
  let mut start = end;
  while start > 0 && log[start - 1].starts_with('g') && log[start - 1].ends_with(":C") {
    start -= 1;
  }
  log[start..end].sort();
  format!("o={}", log.join(";"))
}

/// an iterator that counts how many items were pulled out of it
struct CountIter {
  next: i64,
  end: i64,
  pulls: Arc<Mutex<usize>>,
}
impl Iterator for CountIter {
  type Item = Val;
  fn next(&mut self) -> Option<Val> {
    if self.next < self.end {
      self.next += 1;
      *self.pulls.lock().unwrap() += 1;
      Some(Val::Int(self.next - 1))
    } else {
      None
    }
  }
}

/// the silent neighbour of events `join` / `gjoin`
struct Mute;
impl Observer<Val, i64> for Mute {
  fn next(&mut self, _v: Val) {}
  fn error(self, _e: i64) {}
  fn complete(self) {}
  fn is_finished(&self) -> bool {
    false
  }
}

fn fmt_event(mut log: Vec<String>, terminal: bool) -> String {
  if terminal {
    let n = log.iter().take_while(|t| t.starts_with('g')).count();
    log[..n].sort();
  }
  format!("o={}", log.join(";"))
}

macro_rules! impl_suite {
  ($run:ident, $probe:ident, $subject:ty, $subscriber:ident) => {
    struct $probe {
      log: Log,
      skip: Vec<Val>,
      handles: Arc<Mutex<Vec<(Val, Option<$subscriber<GProbe>>)>>>,
      groups: Arc<Mutex<Vec<KeyObservable<Val, $subject>>>>,
    }
    impl Observer<KeyObservable<Val, $subject>, i64> for $probe {
      fn next(&mut self, g: KeyObservable<Val, $subject>) {
        let key = g.key.clone();
        self.groups.lock().unwrap().push(g.clone());
        self.log.lock().unwrap().push(format!("G{}", key));
        if !self.skip.contains(&key) {
          let u = g.actual_subscribe(GProbe { key: key.clone(), log: self.log.clone() });
          self.handles.lock().unwrap().push((key, Some(u)));
        }
      }
      fn error(self, e: i64) {
        self.log.lock().unwrap().push(format!("E{}", e));
      }
      fn complete(self) {
        self.log.lock().unwrap().push("C".to_string());
      }
      fn is_finished(&self) -> bool {
        false
      }
    }

    fn $run(case: &Case, out: &mut Out) {
      let log: Log = Arc::new(Mutex::new(vec![]));
      let handles = Arc::new(Mutex::new(vec![]));
      let keyf = fn1(case.field("key")[0].atom());
      let skip: Vec<Val> =
        if case.has("skip") { case.field("skip").iter().map(Val::parse).collect() } else { vec![] };
      let src: $subject = <$subject>::default();
      let groups = Arc::new(Mutex::new(vec![]));
      let probe = $probe { log: log.clone(), skip, handles: handles.clone(), groups: groups.clone() };
      // calls of the key function (event `q kc`): exactly one per item that reaches group_by
      let kc = Arc::new(Mutex::new(0usize));
      let kc2 = kc.clone();
      // field `seqkey <m>`: a STATEFUL key function (`FnMut`): the n-th call answers n / m whatever the item is.
      // The scripts of such cases emit 0,1,2,… in order, so it coincides with the pure key `div<m>` the model and
      // the oracle use — as long as the key function is called exactly once per item, in order.
      let seqkey: Option<i64> = if case.has("seqkey") { Some(case.field("seqkey")[0].int()) } else { None };
      let grouped = src.clone().group_by::<_, _, $subject>(move |v: &Val| {
        let mut n = kc2.lock().unwrap();
        *n += 1;
        match seqkey {
          Some(m) => Val::Int((*n as i64 - 1) / m),
          None => keyf(v.clone()),
        }
      });
      // the outer subscription, type-erased into its unsubscribe action
      let mut unsub: Option<Box<dyn FnOnce()>> = if case.has("otake") {
        let n = case.field("otake")[0].nat();
        let u = ObservableExt::<KeyObservable<Val, $subject>, i64>::take(grouped, n)
          .actual_subscribe(probe);
        Some(Box::new(move || u.unsubscribe()))
      } else {
        let u = grouped.actual_subscribe(probe);
        Some(Box::new(move || u.unsubscribe()))
      };
      let drain = |log: &Log| std::mem::take(&mut *log.lock().unwrap());
      for (k, ev) in case.events.iter().enumerate() {
        out.cur = k;
        let mut terminal = false;
        match ev[0].atom() {
          "q" => {
            out.emit(k, format!("kc={}", *kc.lock().unwrap()));
            continue;
          }
          "iter" => {
            // a cold producer in front of a fresh group_by (same key function, same outer chain, same probe kind)
            let pulls = Arc::new(Mutex::new(0usize));
            let it = CountIter { next: 0, end: ev[1].int(), pulls: pulls.clone() };
            let keyf2 = fn1(case.field("key")[0].atom());
            let skip2: Vec<Val> =
              if case.has("skip") { case.field("skip").iter().map(Val::parse).collect() } else { vec![] };
            let probe2 = $probe { log: log.clone(), skip: skip2, handles: handles.clone(), groups: groups.clone() };
            // (from_iter never errors: its error type is Infallible; the probes' error type is i64)
            let grouped2 = observable::from_iter(it)
              .on_error_map(|_e: std::convert::Infallible| 0i64)
              .group_by::<_, _, $subject>(move |v: &Val| keyf2(v.clone()));
            if case.has("otake") {
              let n = case.field("otake")[0].nat();
              let _ = ObservableExt::<KeyObservable<Val, $subject>, i64>::take(grouped2, n).actual_subscribe(probe2);
            } else {
              let _ = grouped2.actual_subscribe(probe2);
            }
            let line = format!("{} pulls={}", fmt_iter_event(drain(&log)), *pulls.lock().unwrap());
            out.emit(k, line);
            continue;
          }
          "emit" => {
            let mut s = src.clone();
            match Notif::parse(&ev[1]) {
              Notif::Next(v) => s.next(v),
              Notif::Error(e) => {
                terminal = true;
                s.error(e)
              }
              Notif::Complete => {
                terminal = true;
                s.complete()
              }
            }
          }
          "unsub" => {
            if let Some(u) = unsub.take() {
              u();
            }
          }
          "join" => {
            let _ = src.clone().actual_subscribe(Mute);
          }
          "gjoin" => {
            let key = Val::parse(&ev[1]);
            let g = groups.lock().unwrap().iter().find(|g| g.key == key).cloned();
            if let Some(g) = g {
              let _ = g.actual_subscribe(Mute);
            }
          }
          "gunsub" => {
            let key = Val::parse(&ev[1]);
            let h = {
              let mut hs = handles.lock().unwrap();
              hs.iter_mut().find(|(k, _)| *k == key).and_then(|(_, h)| h.take())
            };
            if let Some(h) = h {
              h.unsubscribe();
            }
          }
          e => panic!("unknown event {}", e),
        }
        out.emit(k, fmt_event(drain(&log), terminal));
      }
    }
  };
}

impl_suite!(run_local, OuterProbeL, Subject<'static, Val, i64>, Subscriber);
impl_suite!(run_threads, OuterProbeT, SubjectThreads<Val, i64>, SubscriberThreads);

pub fn run(case: &Case, out: &mut Out) {
  if case.flavor == "threads" {
    run_threads(case, out)
  } else {
    run_local(case, out)
  }
}
