//! Suites `subject` (C06: flavors local | threads | mutrefitem | mutreferr |
//! mutrefboth) and `behavior` (C12: flavors local | threads): the REAL subject
//! types driven by a script of operations, one probe observer per subscriber.
//!
//!   ev sub <act>*       subscribe a probe; its k-th received item runs its k-th action:
//!                       `-` nothing | `s` subscribe a fresh probe | (u t) unsubscribe subscriber t
//!   ev unsub i | next v | error e | complete | retain | unsubject | clone | peek | nextby <fn1>
//!   ev via h <op ...>   the op issued through clone number h (`ev clone` makes one)
//! line: o=<id>:<notif>;... len=<n> empty=<0|1> fin=<0|1> closed=<0|1> [peek=<v>]
//!
//! Probes never emit re-entrantly.  For a BehaviorSubject the greeting item does
//! not consume a script action (it is delivered before the subscription exists).
//! `(u t)` with t = the running subscriber is a double borrow of its own slot:
//! the local types panic (RefCell); the thread-safe ones would lock their own
//! mutex twice (self-deadlock), which the harness reports as a panic instead of
//! hanging.
use std::collections::VecDeque;
use std::sync::{Arc, Mutex};

use rxrust::prelude::*;

use crate::sexp::SExp;
use crate::val::{fn1, Notif, Val};
use crate::{Case, Out};

#[derive(Clone, Debug)]
enum Act {
  Nop,
  Sub,
  Unsub(usize),
}

fn parse_act(e: &SExp) -> Act {
  match e {
    SExp::Atom(a) if a == "s" => Act::Sub,
    SExp::List(xs) if xs[0].atom() == "u" => Act::Unsub(xs[1].nat()),
    _ => Act::Nop,
  }
}

pub trait Subj: Clone + Sized + 'static {
  type Handle;
  const GREETS: bool;
  const THREADS: bool;
  fn create(init: Val) -> Self;
  fn sub(self, p: Probe<Self>) -> Self::Handle;
  fn unsub(h: Self::Handle);
  fn feed_next(&mut self, v: Val);
  fn feed_error(self, e: i64);
  fn feed_complete(self);
  fn do_retain(&mut self);
  fn do_unsubscribe(self);
  /// (len, is_empty, is_finished, is_closed)
  fn q(&self) -> (usize, bool, bool, bool);
  fn peek_val(&self) -> Option<Val>;
  fn next_by_name(&mut self, f: &str);
}

pub struct Ctx<S: Subj> {
  subject: S,
  log: Vec<(usize, Notif)>,
  handles: Vec<Option<S::Handle>>,
  /// case field `greetpeek`: a greeted subscriber reads the current value back (through a clone) from inside its
  /// greeting callback — a pure read, no model event; it must answer the greeted value
  greet_peek: bool,
}

pub struct Probe<S: Subj> {
  id: usize,
  script: VecDeque<Act>,
  greet_pending: bool,
  ctx: Arc<Mutex<Ctx<S>>>,
}

/// Subscribe a new probe through `via` (a clone of the subject).  Never holds the
/// context lock while calling into the library.
fn subscribe_new<S: Subj>(ctx: &Arc<Mutex<Ctx<S>>>, via: S, script: Vec<Act>) {
  let id = {
    let mut c = ctx.lock().unwrap();
    c.handles.push(None);
    c.handles.len() - 1
  };
  let probe =
    Probe { id, script: script.into(), greet_pending: S::GREETS, ctx: ctx.clone() };
  let h = via.sub(probe);
  ctx.lock().unwrap().handles[id] = Some(h);
}

fn unsubscribe_one<S: Subj>(ctx: &Arc<Mutex<Ctx<S>>>, t: usize) {
  let h = ctx.lock().unwrap().handles.get_mut(t).and_then(|h| h.take());
  if let Some(h) = h {
    S::unsub(h);
  }
}

impl<S: Subj> Probe<S> {
  fn on_next(&mut self, v: Val) {
    self.ctx.lock().unwrap().log.push((self.id, Notif::Next(v.clone())));
    if self.greet_pending {
      self.greet_pending = false;
      let reader = {
        let c = self.ctx.lock().unwrap();
        if c.greet_peek { Some(c.subject.clone()) } else { None }
      };
      if let Some(r) = reader {
        let p = r.peek_val();
        if p != Some(v) {
          panic!("greeted with one value, peek() inside the greeting answers another");
        }
      }
      return;
    }
    match self.script.pop_front().unwrap_or(Act::Nop) {
      Act::Nop => {}
      Act::Sub => {
        let via = self.ctx.lock().unwrap().subject.clone();
        subscribe_new(&self.ctx, via, vec![]);
      }
      Act::Unsub(t) => {
        if t == self.id && S::THREADS {
          panic!("self-unsubscribe inside the own callback would re-lock the slot mutex");
        }
        unsubscribe_one(&self.ctx, t);
      }
    }
  }
  fn on_term(&mut self, n: Notif) {
    self.ctx.lock().unwrap().log.push((self.id, n));
  }
}

macro_rules! impl_probe {
  ($item:ty, $err:ty) => {
    impl<S: Subj> Observer<$item, $err> for Probe<S> {
      fn next(&mut self, v: $item) {
        let v: Val = v.clone();
        self.on_next(v)
      }
      fn error(mut self, e: $err) {
        let e: i64 = e.clone();
        self.on_term(Notif::Error(e))
      }
      fn complete(mut self) {
        self.on_term(Notif::Complete)
      }
      fn is_finished(&self) -> bool {
        false
      }
    }
  };
}
impl_probe!(Val, i64);
impl_probe!(&mut Val, i64);
impl_probe!(Val, &mut i64);
impl_probe!(&mut Val, &mut i64);

macro_rules! wrap {
  (own, $x:ident) => {
    $x
  };
  (mref, $x:ident) => {
    &mut $x
  };
}

macro_rules! impl_subj {
  ($ty:ty, $h:ident, $threads:expr, $item:ty, $err:ty, $ik:ident, $ek:ident) => {
    impl Subj for $ty {
      type Handle = $h<Probe<Self>>;
      const GREETS: bool = false;
      const THREADS: bool = $threads;
      fn create(_init: Val) -> Self {
        <$ty>::default()
      }
      fn sub(self, p: Probe<Self>) -> Self::Handle {
        self.actual_subscribe(p)
      }
      fn unsub(h: Self::Handle) {
        h.unsubscribe()
      }
      #[allow(unused_mut)]
      fn feed_next(&mut self, mut v: Val) {
        Observer::<$item, $err>::next(self, wrap!($ik, v))
      }
      #[allow(unused_mut)]
      fn feed_error(self, mut e: i64) {
        Observer::<$item, $err>::error(self, wrap!($ek, e))
      }
      fn feed_complete(self) {
        Observer::<$item, $err>::complete(self)
      }
      fn do_retain(&mut self) {
        self.retain()
      }
      fn do_unsubscribe(self) {
        self.unsubscribe()
      }
      fn q(&self) -> (usize, bool, bool, bool) {
        (
          SubjectSize::len(self),
          SubjectSize::is_empty(self),
          Observer::<$item, $err>::is_finished(self),
          self.is_closed(),
        )
      }
      fn peek_val(&self) -> Option<Val> {
        None
      }
      fn next_by_name(&mut self, _f: &str) {
        panic!("next_by on a plain subject")
      }
    }
  };
}

impl_subj!(Subject<'static, Val, i64>, Subscriber, false, Val, i64, own, own);
impl_subj!(SubjectThreads<Val, i64>, SubscriberThreads, true, Val, i64, own, own);
impl_subj!(MutRefItemSubject<'static, Val, i64>, Subscriber, false, &mut Val, i64, mref, own);
impl_subj!(MutRefErrSubject<'static, Val, i64>, Subscriber, false, Val, &mut i64, own, mref);
impl_subj!(
  MutRefItemErrSubject<'static, Val, i64>,
  Subscriber,
  false,
  &mut Val,
  &mut i64,
  mref,
  mref
);

macro_rules! impl_behavior {
  ($inner:ty, $h:ident, $threads:expr) => {
    impl Subj for BehaviorSubject<Val, $inner> {
      type Handle = $h<Probe<Self>>;
      const GREETS: bool = true;
      const THREADS: bool = $threads;
      fn create(init: Val) -> Self {
        BehaviorSubject::<Val, $inner>::new(init)
      }
      fn sub(self, p: Probe<Self>) -> Self::Handle {
        self.actual_subscribe(p)
      }
      fn unsub(h: Self::Handle) {
        h.unsubscribe()
      }
      fn feed_next(&mut self, v: Val) {
        Observer::<Val, i64>::next(self, v)
      }
      fn feed_error(self, e: i64) {
        Observer::<Val, i64>::error(self, e)
      }
      fn feed_complete(self) {
        Observer::<Val, i64>::complete(self)
      }
      fn do_retain(&mut self) {
        panic!("BehaviorSubject has no retain")
      }
      fn do_unsubscribe(self) {
        self.unsubscribe()
      }
      fn q(&self) -> (usize, bool, bool, bool) {
        (
          SubjectSize::len(self),
          SubjectSize::is_empty(self),
          Observer::<Val, i64>::is_finished(self),
          self.is_closed(),
        )
      }
      fn peek_val(&self) -> Option<Val> {
        Some(Behavior::<Val, i64>::peek(self))
      }
      fn next_by_name(&mut self, f: &str) {
        if f == "mul2" {
          // the closure READS the subject it is applied to (through a clone): v -> v + peek() — for the model and
          // the oracle simply `mul2`.  Closures passed to next_by may look at the subject (docs: "emits a value
          // computed from the current one"); the library must not hold the value cell while it calls them.
          let reader = self.clone();
          Behavior::<Val, i64>::next_by(self, move |v: Val| v + Behavior::<Val, i64>::peek(&reader))
        } else {
          Behavior::<Val, i64>::next_by(self, fn1(f))
        }
      }
    }
  };
}
impl_behavior!(Subject<'static, Val, i64>, Subscriber, false);
impl_behavior!(SubjectThreads<Val, i64>, SubscriberThreads, true);

fn run_generic<S: Subj>(case: &Case, out: &mut Out) {
  let init = if case.has("init") { Val::parse(&case.field("init")[0]) } else { Val::Int(0) };
  let root = S::create(init);
  let ctx = Arc::new(Mutex::new(Ctx {
    subject: root.clone(),
    log: vec![],
    handles: vec![],
    greet_peek: case.has("greetpeek"),
  }));
  let mut clones: Vec<S> = vec![root];
  for (k, ev) in case.events.iter().enumerate() {
    out.cur = k;
    let (h, ev): (usize, &[SExp]) =
      if ev[0].atom() == "via" { (ev[1].nat(), &ev[2..]) } else { (0, &ev[..]) };
    let h = if h < clones.len() { h } else { 0 };
    match ev[0].atom() {
      "sub" => {
        let script: Vec<Act> = ev[1..].iter().map(parse_act).collect();
        subscribe_new(&ctx, clones[h].clone(), script);
      }
      "unsub" => unsubscribe_one(&ctx, ev[1].nat()),
      "next" => clones[h].feed_next(Val::parse(&ev[1])),
      "nextby" => clones[h].next_by_name(ev[1].head()),
      "error" => clones[h].clone().feed_error(ev[1].int()),
      "complete" => clones[h].clone().feed_complete(),
      "retain" => clones[h].do_retain(),
      "unsubject" => clones[h].clone().do_unsubscribe(),
      "clone" => {
        let c = clones[h].clone();
        clones.push(c);
      }
      "peek" => {}
      e => panic!("unknown event {}", e),
    }
    let log = std::mem::take(&mut ctx.lock().unwrap().log);
    let parts: Vec<String> = log.iter().map(|(i, n)| format!("{}:{}", i, n)).collect();
    let (len, empty, fin, closed) = clones[h].q();
    let mut line = format!(
      "o={} len={} empty={} fin={} closed={}",
      parts.join(";"),
      len,
      empty as u8,
      fin as u8,
      closed as u8
    );
    if let Some(p) = clones[h].peek_val() {
      line.push_str(&format!(" peek={}", p));
    }
    out.emit(k, line);
  }
}

pub fn run(case: &Case, out: &mut Out) {
  match (case.suite.as_str(), case.flavor.as_str()) {
    ("subject", "local") => run_generic::<Subject<'static, Val, i64>>(case, out),
    ("subject", "threads") => run_generic::<SubjectThreads<Val, i64>>(case, out),
    ("subject", "mutrefitem") => run_generic::<MutRefItemSubject<'static, Val, i64>>(case, out),
    ("subject", "mutreferr") => run_generic::<MutRefErrSubject<'static, Val, i64>>(case, out),
    ("subject", "mutrefboth") => {
      run_generic::<MutRefItemErrSubject<'static, Val, i64>>(case, out)
    }
    ("behavior", "local") => {
      run_generic::<BehaviorSubject<Val, Subject<'static, Val, i64>>>(case, out)
    }
    ("behavior", "threads") => {
      run_generic::<BehaviorSubject<Val, SubjectThreads<Val, i64>>>(case, out)
    }
    (s, f) => panic!("unknown suite/flavor {} {}", s, f),
  }
}
