//! Suite `coop` (C02 / C10 / C19, threads flavour only): deterministic TWO-THREAD executions of the
//! REAL thread-safe pipelines, scheduled at lock granularity through hook H2
//! (`rxrust::rc::verif::BEFORE_LOCK`, thread-local).
//!
//! A case has one thread-safe pipeline (field `pipe`, interpreter `build_threads`) over hot
//! `SubjectThreads` sources, the H1 executor on the case's virtual clock, and one probe.
//!
//!   ev sub | emit <i> <notif> | unsub | adv <d> | fire <i> | poll <i> | run
//!        the sequential events of suite `time`, run on the controller (main) thread, no preemption
//!        line:  o=<notifs> live=<n> tm=<n> t=<n> T=<lock tokens of the event>
//!   ev par <k> (<eventA…>) (<eventB…>)        eventX ∈ { emit <i> <notif> | unsub | poll <i> | run }
//!        eventA runs on OS thread A, eventB on OS thread B; exactly one of them is runnable at any time.
//!        A *yield point* is every `MutArc` acquisition attempt of a worker (any nesting depth): the
//!        hook fires before `lock()`, the worker parks there.  A worker is *enabled* iff it has not
//!        finished and the cell it is parked at is free (probe).  First each worker runs alone up to its
//!        first yield point (A, then B; no `MutArc` cell is touched there).  Then: priority is [A, B]
//!        until A has ARRIVED at its (k+1)-th yield point (= after k acquisitions of A), from then on
//!        [B, A]; whenever the running worker parks or finishes, the highest-priority enabled worker
//!        runs next (one *slice*: through the acquisition it is parked at, up to its next yield point or
//!        its end).  Both unfinished and none enabled → `DEADLOCK` (the case is abandoned, the two
//!        OS threads are leaked parked).  A worker that blocks anywhere else → the watchdog of main.rs
//!        prints `HANG`.
//!        line:  o=<items> s=<slices> A=<tokens> B=<tokens> live=<n> tm=<n> t=<n>
//!          items  = probe deliveries of both threads in global order, with the marker `R` at the moment
//!                   the `unsubscribe()` call of a worker RETURNED (only if it found the subscription)
//!          slices = the executed coarse schedule, one letter per slice
//!          tokens = per worker, as locktrace.rs: `a<cell>[<held by this thread>]`, `c0[<held>]`
//!                   (cells numbered by first acquisition within the case, by any thread)
//!        or     DEADLOCK s=… A=… B=…       or  PANIC (a worker panicked; the case stops)
use std::cell::RefCell;
use std::panic::{catch_unwind, AssertUnwindSafe};
use std::sync::{Arc, Condvar, Mutex, MutexGuard};

use rxrust::prelude::*;
use rxrust::rc::verif::BEFORE_LOCK;

use crate::pipe::{build_threads, TCtx};
use crate::sexp::SExp;
use crate::val::Notif;
use crate::vtime::{self, Exec, Queue};
use crate::{Case, Out};

const MAIN: usize = 2;

#[derive(Clone, Copy, PartialEq)]
enum WState {
  Idle,
  Running,
  /// parked before the acquisition of cell `idx`
  Parked(usize),
  Done,
  Panicked,
}

enum Item {
  N(Notif),
  R,
  /// a tagged probe callback `<tag>:<notif>` (field `behavior`: one probe per `sub`)
  T(usize, Notif),
  /// the answer of `peek`
  P(String),
}

struct CtlState {
  /// (address, "is it free" probe), numbered by first acquisition attempt within the case
  cells: Vec<(usize, fn(usize) -> bool)>,
  /// who passed the hook for this cell last; meaningful only while the cell is locked
  owner: Vec<Option<usize>>,
  /// lock tokens per thread (A, B, main) of the current event
  tokens: [Vec<String>; 3],
  wstate: [WState; 2],
  /// the worker that may run
  turn: Option<usize>,
  /// yield points each worker has arrived at in the current event
  arrivals: [usize; 2],
  log: Vec<Item>,
  /// case field `pyield`: a probe callback on a worker thread is itself a yield point (the other thread
  /// may run while this one is INSIDE the subscriber's callback)
  pyield: bool,
}

struct Ctl {
  m: Mutex<CtlState>,
  cv: Condvar,
}

impl Ctl {
  fn lock(&self) -> MutexGuard<'_, CtlState> {
    self.m.lock().unwrap_or_else(|e| e.into_inner())
  }
}

thread_local! {
  /// this thread's identity in the case: (controller, 0 = A | 1 = B | 2 = main)
  static ME: RefCell<Option<(Arc<Ctl>, usize)>> = RefCell::new(None);
}

/// cells that are free have no owner
fn refresh(g: &mut CtlState) {
  for i in 0..g.cells.len() {
    let (a, p) = g.cells[i];
    if p(a) {
      g.owner[i] = None;
    }
  }
}

fn held_by(g: &CtlState, me: usize) -> String {
  let hs: Vec<String> =
    (0..g.cells.len()).filter(|c| g.owner[*c] == Some(me)).map(|c| c.to_string()).collect();
  hs.join(".")
}

/// Hook H2 on thread `me`.
fn on_lock(ctl: &Arc<Ctl>, me: usize, addr: usize, probe: fn(usize) -> bool) {
  let mut g = ctl.lock();
  let idx = match g.cells.iter().position(|(a, _)| *a == addr) {
    Some(i) => i,
    None => {
      g.cells.push((addr, probe));
      g.owner.push(None);
      g.cells.len() - 1
    }
  };
  if me != MAIN {
    // yield point: park until the controller says go (it does so only when the cell is free)
    g.arrivals[me] += 1;
    g.wstate[me] = WState::Parked(idx);
    g.turn = None;
    ctl.cv.notify_all();
    while g.turn != Some(me) {
      g = ctl.cv.wait(g).unwrap_or_else(|e| e.into_inner());
    }
    g.wstate[me] = WState::Running;
  }
  refresh(&mut g);
  if !probe(addr) {
    // only reachable on the main thread (workers are resumed at free cells only): the real code
    // would block for ever on a cell it holds itself
    g.tokens[me].push(format!("RELOCK{}", idx));
    drop(g);
    panic!("RELOCK");
  }
  let hs = held_by(&g, me);
  g.tokens[me].push(format!("a{}[{}]", idx, hs));
  g.owner[idx] = Some(me);
}

/// a probe callback (or the `R` marker) on the current thread
fn on_item(it: Item) {
  ME.with(|m| {
    let m = m.borrow();
    let (ctl, me) = m.as_ref().expect("coop probe called on a foreign thread");
    let mut g = ctl.lock();
    if let Item::N(_) | Item::T(..) = it {
      refresh(&mut g);
      let hs = held_by(&g, *me);
      g.tokens[*me].push(format!("c0[{}]", hs));
    }
    let is_cb = matches!(it, Item::N(_) | Item::T(..));
    g.log.push(it);
    let py = g.pyield && is_cb && *me != MAIN;
    drop(g);
    if py {
      // pseudo cell 1 (never a real address): always free, so the thread just parks and is resumed later
      on_lock(ctl, *me, 1, |_| true);
    }
  })
}

struct ProbeC;
impl Observer<crate::val::Val, i64> for ProbeC {
  fn next(&mut self, v: crate::val::Val) {
    on_item(Item::N(Notif::Next(v)));
  }
  fn error(self, e: i64) {
    on_item(Item::N(Notif::Error(e)));
  }
  fn complete(self) {
    on_item(Item::N(Notif::Complete));
  }
  fn is_finished(&self) -> bool {
    false
  }
}

/// Probe number `0` of a `BehaviorSubject` case.
struct ProbeT(usize);
impl Observer<crate::val::Val, i64> for ProbeT {
  fn next(&mut self, v: crate::val::Val) {
    on_item(Item::T(self.0, Notif::Next(v)));
  }
  fn error(self, e: i64) {
    on_item(Item::T(self.0, Notif::Error(e)));
  }
  fn complete(self) {
    on_item(Item::T(self.0, Notif::Complete));
  }
  fn is_finished(&self) -> bool {
    false
  }
}

type BSubj = BehaviorSubject<crate::val::Val, SubjectThreads<crate::val::Val, i64>>;

fn install_hook(ctl: &Arc<Ctl>, me: usize) {
  let c = ctl.clone();
  ME.with(|m| *m.borrow_mut() = Some((ctl.clone(), me)));
  BEFORE_LOCK.with(|h| *h.borrow_mut() = Some(Box::new(move |addr, probe| on_lock(&c, me, addr, probe))));
}

fn remove_hook() {
  BEFORE_LOCK.with(|h| {
    if let Ok(mut h) = h.try_borrow_mut() {
      *h = None
    }
  });
  ME.with(|m| *m.borrow_mut() = None);
}

struct MainGuard;
impl Drop for MainGuard {
  fn drop(&mut self) {
    remove_hook();
  }
}

/// What the threads of a case share.
#[derive(Clone)]
struct Shared {
  ctx: TCtx,
  exec: SendExec,
  sub: Arc<Mutex<Option<BoxSubscriptionThreads>>>,
  /// field `behavior <v>`: the case is about ONE `BehaviorSubject<_, SubjectThreads>` (the `pipe` is ignored):
  /// `emit 0 <notif>` calls it, `sub` subscribes a new tagged probe (greeting included, also inside `par`),
  /// `peek` prints the current value
  behavior: Option<BSubj>,
  nprobes: Arc<Mutex<usize>>,
}

/// `Exec` over the shared queue (`Queue::Shared`) holds `Arc`s only; the enum's other variant (an `Rc`
/// queue, never constructed here) is what keeps the compiler from seeing it.
#[derive(Clone)]
struct SendExec(Exec);
unsafe impl Send for SendExec {}

/// One operation of the script, on whatever thread calls it.
fn do_op(sh: &Shared, ev: &[SExp]) {
  match ev[0].atom() {
    "emit" if sh.behavior.is_some() => {
      let mut s = sh.behavior.clone().unwrap();
      match Notif::parse(&ev[2]) {
        Notif::Next(v) => s.next(v),
        Notif::Error(e) => s.error(e),
        Notif::Complete => s.complete(),
      }
    }
    "sub" if sh.behavior.is_some() => {
      let id = {
        let mut n = sh.nprobes.lock().unwrap_or_else(|e| e.into_inner());
        *n += 1;
        *n - 1
      };
      // (the subscription handle is leaked: nobody unsubscribes in these cases)
      std::mem::forget(sh.behavior.clone().unwrap().actual_subscribe(ProbeT(id)));
    }
    "peek" => {
      let v = sh.behavior.as_ref().expect("peek: field behavior missing").peek();
      on_item(Item::P(v.to_string()));
    }
    "emit" => {
      let mut s = sh.ctx.subject(ev[1].nat());
      match Notif::parse(&ev[2]) {
        Notif::Next(v) => s.next(v),
        Notif::Error(e) => s.error(e),
        Notif::Complete => s.complete(),
      }
    }
    "unsub" => {
      let u = sh.sub.lock().unwrap_or_else(|e| e.into_inner()).take();
      if let Some(u) = u {
        u.unsubscribe();
        on_item(Item::R);
      }
    }
    "poll" => {
      let live = sh.exec.0.live();
      if let Some(k) = live.get(ev[1].nat()) {
        sh.exec.0.poll(*k);
      }
    }
    "run" => sh.exec.0.run(),
    "adv" => vtime::advance(ev[1].nat() as u64),
    "fire" => {
      let due = vtime::due_timers();
      if let Some(t) = due.get(ev[1].nat()) {
        vtime::fire(*t);
      }
    }
    e => panic!("unknown event {}", e),
  }
}

fn spawn_worker(ctl: &Arc<Ctl>, me: usize, sh: Shared, ev: Vec<SExp>, clock: vtime::ClockHandle) {
  let ctl = ctl.clone();
  std::thread::spawn(move || {
    vtime::adopt(clock);
    install_hook(&ctl, me);
    {
      let mut g = ctl.lock();
      while g.turn != Some(me) {
        g = ctl.cv.wait(g).unwrap_or_else(|e| e.into_inner());
      }
      g.wstate[me] = WState::Running;
    }
    let r = catch_unwind(AssertUnwindSafe(|| do_op(&sh, &ev)));
    remove_hook();
    let mut g = ctl.lock();
    g.wstate[me] = if r.is_ok() { WState::Done } else { WState::Panicked };
    g.turn = None;
    ctl.cv.notify_all();
  });
}

#[derive(PartialEq)]
enum Outcome {
  Done,
  Deadlock,
  Panicked,
}

/// Let worker `w` run until it parks or finishes.
fn slice(ctl: &Arc<Ctl>, w: usize) {
  let mut g = ctl.lock();
  g.turn = Some(w);
  ctl.cv.notify_all();
  while g.turn.is_some() {
    g = ctl.cv.wait(g).unwrap_or_else(|e| e.into_inner());
  }
}

fn run_par(ctl: &Arc<Ctl>, k: usize, sh: &Shared, a: &[SExp], b: &[SExp]) -> (Outcome, String) {
  {
    let mut g = ctl.lock();
    g.wstate = [WState::Idle, WState::Idle];
    g.arrivals = [0, 0];
    g.turn = None;
  }
  let clock = vtime::handle();
  spawn_worker(ctl, 0, sh.clone(), a.to_vec(), clock.clone());
  spawn_worker(ctl, 1, sh.clone(), b.to_vec(), clock);
  // each worker alone up to its first yield point
  slice(ctl, 0);
  slice(ctl, 1);
  let mut sched = String::new();
  loop {
    let next = {
      let g = ctl.lock();
      if g.wstate.iter().any(|s| *s == WState::Panicked) {
        return (Outcome::Panicked, sched);
      }
      if g.wstate.iter().all(|s| *s == WState::Done) {
        return (Outcome::Done, sched);
      }
      let pri: [usize; 2] = if g.arrivals[0] > k { [1, 0] } else { [0, 1] };
      pri.iter().copied().find(|w| match g.wstate[*w] {
        WState::Parked(idx) => {
          let (addr, p) = g.cells[idx];
          p(addr)
        }
        _ => false,
      })
    };
    match next {
      None => return (Outcome::Deadlock, sched),
      Some(w) => {
        sched.push(if w == 0 { 'A' } else { 'B' });
        slice(ctl, w);
      }
    }
  }
}

fn fmt_items(items: Vec<Item>) -> String {
  let parts: Vec<String> = items
    .iter()
    .map(|i| match i {
      Item::N(n) => n.to_string(),
      Item::R => "R".to_string(),
      Item::T(t, n) => format!("{}:{}", t, n),
      Item::P(v) => format!("P{}", v),
    })
    .collect();
  format!("o={}", parts.join(";"))
}

pub fn run(case: &Case, out: &mut Out) {
  assert!(case.flavor == "threads", "suite coop: threads flavour only");
  vtime::install();
  vtime::reset();
  vtime::set_unit_nanos(if case.has("unit") && case.field("unit")[0].atom() == "us" { 1_000 } else { 1_000_000 });
  crate::locktrace::stop();
  let ctl = Arc::new(Ctl {
    m: Mutex::new(CtlState {
      cells: vec![],
      owner: vec![],
      tokens: [vec![], vec![], vec![]],
      wstate: [WState::Idle, WState::Idle],
      turn: None,
      arrivals: [0, 0],
      log: vec![],
      pyield: case.has("pyield"),
    }),
    cv: Condvar::new(),
  });
  install_hook(&ctl, MAIN);
  let _g = MainGuard;
  let ctx = TCtx::default();
  let exec = Exec::new(Queue::Shared(ctx.sched.clone()));
  let pipeline = build_threads(&case.field("pipe")[0], &ctx);
  let behavior: Option<BSubj> =
    if case.has("behavior") { Some(BehaviorSubject::new(crate::val::Val::parse(&case.field("behavior")[0]))) } else { None };
  let sh = Shared {
    ctx,
    exec: SendExec(exec.clone()),
    sub: Arc::new(Mutex::new(None)),
    behavior,
    nprobes: Arc::new(Mutex::new(0)),
  };
  let suffix = |exec: &Exec| format!(" live={} tm={} t={}", exec.live().len(), vtime::timers_created(), vtime::now());
  for (k, ev) in case.events.iter().enumerate() {
    out.cur = k;
    match ev[0].atom() {
      "par" => {
        let (oc, sched) = run_par(&ctl, ev[1].nat(), &sh, ev[2].list(), ev[3].list());
        let (items, ta, tb) = {
          let mut g = ctl.lock();
          (
            std::mem::take(&mut g.log),
            std::mem::take(&mut g.tokens[0]).join(","),
            std::mem::take(&mut g.tokens[1]).join(","),
          )
        };
        match oc {
          Outcome::Panicked => panic!("worker panicked"),
          Outcome::Deadlock => {
            out.emit(k, format!("DEADLOCK s={} A={} B={}", sched, ta, tb));
            return;
          }
          Outcome::Done => {
            out.emit(k, format!("{} s={} A={} B={}{}", fmt_items(items), sched, ta, tb, suffix(&exec)));
          }
        }
      }
      "sub" if sh.behavior.is_none() => {
        let u = pipeline.clone().actual_subscribe(ProbeC);
        *sh.sub.lock().unwrap() = Some(u);
        let (items, t) = {
          let mut g = ctl.lock();
          (std::mem::take(&mut g.log), std::mem::take(&mut g.tokens[MAIN]).join(","))
        };
        out.emit(k, format!("{}{} T={}", fmt_items(items), suffix(&exec), t));
      }
      _ => {
        do_op(&sh, ev);
        let (items, t) = {
          let mut g = ctl.lock();
          (std::mem::take(&mut g.log), std::mem::take(&mut g.tokens[MAIN]).join(","))
        };
        out.emit(k, format!("{}{} T={}", fmt_items(items), suffix(&exec), t));
      }
    }
  }
}
